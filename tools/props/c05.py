"""C05 — numbers set through the API are written without loss.

prove       : lean/MontePyVerif/Props/C05.lean (rounding bound of CPython's format on exact rationals, the
              repaired ValueNode.format reads back within rel_tol for every token/padding/value, ints exact,
              unchanged values keep their spelling, no fusion with the next word)
correspond  : U-pyformat     Model pyFormat (f/e/g/d, sign, zero fill) vs CPython format(), exact text
              U-read         Model fortranFloat/pyInt vs utilities.fortran_float/int(); Spec.parseNumber vs the
                             independent Python reader (exact rationals)
              U-isclose      Model/Spec isClose vs math.isclose away from the threshold
              U-valueformat  Model ValueNode (construction, value / is_negative setters, format) vs the real
                             ValueNode, exact text, on generated (token x padding x value) and on live nodes of
                             parsed surfaces / cells / transforms after an API call
              U-transform    Model/TransformWrite.lean (Transform._default_entry and the entry loops of
                             Transform._update_values: which of the 12 numbers of a TR input stay a jump) vs the
                             written card, on TR / *TR inputs read with jumps, after is_in_degrees /
                             rotation_matrix / displacement_vector assignments in any order
              U-transform-history  Model run/writesOf (setters, assignments in the arrays the getters hand out, writes)
                             vs the live Transform at every write of a history: what it holds (exact) and what it writes
judge       : the written text of the REAL code: first word re-read by the Lean Spec and by an independent
              Python Fortran reader, compared with the value set (tolerance pinned to 1e-9); integers exact;
              unchanged values verbatim; no fusion with the following word.
"""

import math
import re
import warnings
from fractions import Fraction

from vlib import leanio
from vlib import numfmt as nf
from vlib.core import canon
from vlib.par import pmap

META = {
    "property_id": "C05",
    "technique": "Lean 4 proof: printer/reader round-trip law with a rounding-error bound on an exact-rational model of "
    "ValueNode.format and CPython's format; differential correspondence model vs implementation (exact text)",
    "design_ref": "6 C05",
}

THEOREMS = [
    "C05_tolerance",
    "C05_max_precision",
    "roundHE_err",
    "scaleRound_err",
    "exp10_bounds",
    "sciDigits_rel",
    "C05_pyformat_error",
    "floatStyles_last",
    "C05_float",
    "C05_new_node",
    "C05_default_node_spelling",
    "spec_reads_renderPy",
    "spec_reads_renderSci",
    "C05_candidate_text",
    "C05_float_text",
    "C05_float_as_int",
    "spec_reads_spelling",
    "fortran_reads_spelling",
    "readers_agree",
    "fortran_reads_candidate",
    "C05_float_full",
    "C05_token_reading",
    "C05_token_reading_G",
    "C05_changed_float",
    "C05_end_to_end",
    "C05_end_to_end_new",
    "C05_changed_float_signed",
    "C05_default_node",
    "C05_int_value",
    "C05_int_branch",
    "C05_trunc_ofInt",
    "parse_int_layout",
    "C05_int",
    "C05_unchanged",
    "C05_format_changed",
    "C05_separated",
    "C05_transform_default_entry",
    "C05_transform_entries",
    "C05_transform_written",
    "C05_transform_unit_switch",
    "C05_transform_history_frame",
    "C05_transform_history",
    "C05_transform_inplace_held",
]

WORKERS = 8
MAX_CONFIRM = 12  # disagreements re-run singly in the parent process and minimised; further ones are counted only
RENDER_OK = "render/parse inverse (Dec.value = Spec.parseChars = fortranFloat of the laid-out text; the fortranFloat half is validated, not proved)"
FLOAT_BRANCH = {"e": "sci", "f": "fixed", "g": "general"}


# --------------------------------------------------------------------------- implementation side
def _mp():
    from vlib import mp

    return mp


def build_padding(items):
    from montepy.input_parser.syntax_node import PaddingNode

    if items is None:
        return None
    pad = PaddingNode()
    for it in items:
        if it[0] == "s":
            pad.append(" " * it[1])
        elif it[0] == "n":
            pad.append("\n")
        else:
            pad.append(it[1], is_comment=True)
    return pad


def build_token(tok):
    from montepy.input_parser.mcnp_input import Jump

    if tok is None:
        return None
    if isinstance(tok, dict):
        if "jump" in tok:
            return Jump()
        return float(tok["float"])  # a float object as token (ValueNode(1.23, float))
    return tok


def model_token(tok):
    """The model has string tokens only: a float object is its str() (that is what the code uses)."""
    if isinstance(tok, dict) and "float" in tok:
        return str(float(tok["float"]))
    return tok


def run_impl_node(case):
    """Execute a node case on the real ValueNode. Same shape as the Lean driver's answer."""
    _mp()
    from montepy.input_parser.syntax_node import ValueNode

    ty = float if case["ty"] == "float" else int
    try:
        node = ValueNode(build_token(case["token"]), ty, build_padding(case["pad"]), case["never_pad"])
        if case["negatable"] == "float":
            node.is_negatable_float = True
        elif case["negatable"] == "id":
            node.is_negatable_identifier = True
    except ValueError:
        return {"init": "ValueError"}
    outs = []
    with warnings.catch_warnings():
        warnings.simplefilter("ignore")
        for op in case["ops"]:
            if op[0] == "value":
                node.value = nf.unnum(op[1])
            elif op[0] == "neg":
                node.is_negative = op[1]
            else:
                try:
                    outs.append({"text": node.format()})
                except Exception as e:  # noqa: BLE001 - any exception out of format() is an observation
                    outs.append({"raised": type(e).__name__})
                    break
    return {"init": "ok", "outs": outs}


def serialise_pad(pad):
    if pad is None:
        return None
    items = []
    for n in pad.nodes:
        if isinstance(n, str):
            if n == "\n":
                items.append(["n"])
            elif n.strip() == "":
                items.append(["s", len(n)]) if set(n) <= {" "} else items.append(["c", n])
            else:
                items.append(["c", n])
        else:
            items.append(["c", n.format()])
    return items


def serialise_node(node):
    """The live ValueNode, for the driver's `state` entry."""
    from montepy.input_parser.mcnp_input import Jump

    tok = node._token
    if isinstance(tok, Jump):
        tok = {"jump": True}
    elif isinstance(tok, float):
        tok = str(tok)
    elif tok is not None and not isinstance(tok, str):
        return None
    if node._type not in (float, int) or node._is_reversed:
        return None

    def w(v):
        return None if v is None else nf.num(v if isinstance(v, (int, float)) else float(v))

    return {
        "unit": "state",
        "token": tok,
        "ty": "float" if node._type is float else "int",
        "pad": serialise_pad(node.padding),
        "never_pad": bool(node._never_pad),
        "value": w(node._value),
        "og": w(node._og_value),
        "is_neg_id": bool(node._is_neg_id),
        "is_neg_val": bool(node._is_neg_val),
        "is_neg": (None if getattr(node, "_is_neg", None) is None else bool(node._is_neg)),
    }


# API-level cases: a real card through the real lexer/parser, a real setter, the real writer.
# kind -> (template with {t} for the token and {g} for the gap after it, index of the word in the output)
API_KINDS = {
    "pz_location": ("1 PZ {t}", 2),
    "cz_radius": ("1 CZ {t}", 2),
    "c_z_radius": ("1 C/Z 0.5 -1 {t}", 4),
    "p_constants": ("1 P {t}{g}0.5 -1 {t}", 2),
    "cell_atom_density": ("1 1 {t}{g}-1 imp:n=1", 2),
    "cell_mass_density": ("1 1 {t}{g}-1 imp:n=1", 2),
    "cell_volume": ("1 0 -1 imp:n=1 vol={t}", 6),
    "cell_importance": ("1 0 -1 imp:n={t}{g}vol=1", 4),
    "tr_displacement": ("tr1 {t}{g}2.0 3.0", 1),
    "material_fraction": ("m1 1001.80c {t}{g}8016.80c 0.5", 2),
    # no token at all: the quantity is not in the card that was read, its node is made when the card is written
    "tr_rotation_new": ("tr1 {t}{g}2.0 3.0", 4),
    "tr_rotation_more": ("tr1 {t}{g}2.0 3.0 1 0 0 0 1", 9),
    "cell_volume_new": ("1 0 -1 imp:n={t}", 6),
    "cell_importance_new": ("1 0 -1 vol={t}", 6),
}
# kinds whose quantity has no original token (the {t} of the template is another quantity, left alone)
NO_TOKEN_KINDS = ("tr_rotation_new", "tr_rotation_more", "cell_volume_new", "cell_importance_new")
GAPS = [" ", "  ", "      ", "\n     ", " $ note\n     ", " &\n "]


def run_impl_api(case):
    """Parse a card holding the token, set the quantity through the API, write the card.
    Returns the written word at the quantity's position, the whole text and the live node's own format."""
    mp = _mp()
    montepy = mp.montepy
    kind, tok, x = case["kind"], case["token"], nf.unnum(case["x"])
    tmpl, idx = API_KINDS[kind]
    text = tmpl.format(t=tok, g=case["gap"])
    out = {"card": text}
    with warnings.catch_warnings():
        warnings.simplefilter("ignore")
        try:
            if kind in ("pz_location", "cz_radius", "c_z_radius", "p_constants"):
                obj = mp.surface_from(text)
            elif kind.startswith("cell"):
                obj = mp.cell_from(text)
                if "density" in kind:
                    obj.material = mp.data_from("m1 1001.80c 1.0")
            else:
                obj = mp.data_from(text)
        except Exception as e:  # noqa: BLE001 - a card MontePy does not read is not C05's business
            return dict(out, skip="parse:" + type(e).__name__)
        want = x
        try:
            if kind == "pz_location":
                obj.location = x
                node = obj._surface_constants[0]
            elif kind == "cz_radius":
                obj.radius = x
                node = obj._surface_constants[0]
            elif kind == "c_z_radius":
                obj.radius = x
                node = obj._surface_constants[2]
            elif kind == "p_constants":
                obj.surface_constants = [x, 0.5, -1.0, obj.surface_constants[3]]
                node = obj._surface_constants[0]
            elif kind == "cell_atom_density":
                obj.atom_density = x
                node = obj._density_node
            elif kind == "cell_mass_density":
                obj.mass_density = x
                node = obj._density_node
                want = -x
            elif kind == "cell_volume":
                obj.volume = x
                node = obj._volume._volume
            elif kind == "cell_importance":
                obj.importance.neutron = x
                node = None
            elif kind == "tr_displacement":
                import numpy as np

                v = obj.displacement_vector.copy()
                v[0] = x
                obj.displacement_vector = v
                node = None
            elif kind == "material_fraction":
                comp = list(obj.material_components.values())[0]
                comp.fraction = x
                node = None
            elif kind == "tr_rotation_new":
                import numpy as np

                obj.rotation_matrix = np.array([x, 0.5, 0.25, -0.5, 1.0, 0.0, 0.125, 0.0, 1.0])
                node = None
            elif kind == "tr_rotation_more":
                import numpy as np

                obj.rotation_matrix = np.array([1.0, 0.0, 0.0, 0.0, 1.0, x, 0.0, 0.5, 1.0])
                node = None
            elif kind == "cell_volume_new":
                obj.volume = x
                node = None
            elif kind == "cell_importance_new":
                obj.importance.neutron = x
                node = None
        except (TypeError, ValueError) as e:  # the setter refuses the value (e.g. a negative radius): nothing written
            return dict(out, skip="setter:" + type(e).__name__)
        out["want"] = nf.num(float(want))
        state = None
        try:
            # only where a live node is compared with the model: format_for_mcnp_input must see the object as the
            # API call left it (a second _update_values would re-assign values to nodes the first one created)
            if node is not None:
                obj.validate()
                obj._update_values()  # what format_for_mcnp_input does first (e.g. the sign flag of a density)
        except Exception:  # noqa: BLE001 - reported by format_for_mcnp_input below
            node = None
        if node is not None:
            try:
                state = serialise_node(node)
            except Exception:  # noqa: BLE001
                state = None
        out["state"] = state
        try:
            lines = obj.format_for_mcnp_input((6, 2, 0))
        except montepy.errors.IllegalState as e:  # validate() refuses the object (e.g. a radius of 0): nothing is written
            return dict(out, skip="validate:" + type(e).__name__)
        except Exception as e:  # noqa: BLE001
            return dict(out, raised=type(e).__name__)
        if state is not None:
            try:
                out["node_text"] = node.format()
            except Exception as e:  # noqa: BLE001
                out["node_text"] = "raised:" + type(e).__name__
    words = []
    for line in lines:
        line = line.split("$")[0].rstrip("&")
        if line[:5].strip().lower() == "c" or line.lower().startswith("c "):
            continue
        words += [w for w in line.replace("=", " ").split() if w != "&"]
    out["lines"] = lines
    out["words"] = words
    out["word"] = words[idx] if idx < len(words) else None
    out["nwords"] = len(words)
    return out


# --------------------------------------------------------------------------- TR inputs: jumps, unit, vectors
# MCNP 6.2 manual 3.3.1.3: an entry of TRn that is jumped over takes the default, no displacement and no rotation,
# spelled in the unit of the card (cosines for TR, degrees for *TR).  Written down here from the manual, not from the code.
TR_DEFAULTS = {
    False: (0, 0, 0, 1, 0, 0, 0, 1, 0, 0, 0, 1),
    True: (0, 0, 0, 0, 90, 90, 90, 0, 90, 90, 90, 0),
}
TR_CARD_WORDS = ["0", "1", "90", "0.0", "1.0", "90.0", "0.5", "-1", "45", "30", "60", "2.5", "-0.5", "0.866", "89", "91", "180"]
TR_VALUES = [0.0, 1.0, 90.0, -1.0, 0.5, -0.5, 45.0, 30.0, 60.0, 89.0, 91.0, 180.0, 2.5, 1e-3, 0.8660254037844387,
             0.7071067811865476, -0.4999999999999998, 12.345678901234]


def _tr_layout(deg, number, words):
    """The card text: modifier, name, the words; a continuation line when the card gets long."""
    head = ("*" if deg else "") + "tr" + str(number)
    line, lines = head, []
    for w in words:
        if len(line) + 1 + len(w) > 70:
            lines.append(line)
            line = "     " + w
        else:
            line += " " + w
    lines.append(line)
    return "\n".join(lines)


def _gen_tr_card(rng, i):
    """A TR / *TR input with jumps (single or nJ, anywhere among the up to 13 entries): (card, in degrees, entries)."""
    deg0 = rng.random() < 0.5
    n = [12, 3, 12, 8, 13, 9, 12, 13][i % 8]
    pj = rng.choice([0.15, 0.4, 0.7, 1.0])
    entries = []
    for p in range(min(n, 12)):
        if rng.random() < pj:
            entries.append(None)
        elif rng.random() < 0.5:
            entries.append(rng.choice(["{}", "{}.0"] if p >= 3 else ["{}"]).format(TR_DEFAULTS[deg0][p]))
        else:
            entries.append(rng.choice(TR_CARD_WORDS))
    if all(e is None for e in entries[:3]) and rng.random() < 0.7:
        entries[rng.randrange(3)] = rng.choice(TR_CARD_WORDS)
    words, run = [], 0
    for e in entries + ["end"]:
        if e is None:
            run += 1
            continue
        while run:
            k = run if rng.random() < 0.6 else rng.randint(1, run)
            words.append("j" if k == 1 and rng.random() < 0.8 else f"{k}j")
            run -= k
        if e != "end":
            words.append(e)
    m13 = None
    if n == 13:
        m13 = rng.choice(["1", "-1", "j"])
        words.append(m13)
    card = _tr_layout(deg0, rng.choice([1, 2, 5, 17, 999]), words)
    return card, deg0, n


def gen_tr_case(rng, i):
    """A TR / *TR input with jumps (single or nJ, anywhere among the up to 13 entries), then a history of
    is_in_degrees / rotation_matrix / displacement_vector assignments and writes."""
    card, deg0, n = _gen_tr_card(rng, i)
    ops, deg = [], deg0
    for rnd in range(2 if rng.random() < 0.15 else 1):
        step = []
        if rng.random() < 0.75:
            step.append("deg")
        if rng.random() < 0.7:
            step.append("rot")
        if rng.random() < 0.4:
            step.append("disp")
        if not step and rnd == 0:
            step = ["deg", "rot"]
        rng.shuffle(step)
        for name in step:
            if name == "deg":
                new = (not deg) if rng.random() < 0.8 else deg
                ops.append(["deg", new])
            elif name == "rot":
                # the unit the matrix is meant in: the one the transform has when it is written
                final = deg
                if "deg" in step[step.index(name):]:
                    final = None  # decided by the later op: draw for either unit
                ln = 9 if n == 13 else rng.choice([9, 9, 9, 5, 6])
                vals = []
                for k in range(ln):
                    r = rng.random()
                    u = final if final is not None else (rng.random() < 0.5)
                    if r < 0.35:
                        vals.append(float(TR_DEFAULTS[u][k + 3]))
                    elif r < 0.65:
                        vals.append(float(TR_DEFAULTS[not u][k + 3]))
                    elif r < 0.9:
                        vals.append(rng.choice(TR_VALUES))
                    else:
                        vals.append(round(rng.uniform(-1, 1) if not u else rng.uniform(0, 180), rng.choice([2, 6, 15])))
                if not any(vals):  # MontePy takes an all-zero matrix for "no matrix"; it is no rotation either
                    vals[0] = 1.0
                ops.append(["rot", [nf.num(v) for v in vals]])
            else:
                ops.append(["disp", [nf.num(0.0 if rng.random() < 0.4 else rng.choice(TR_VALUES)) for _ in range(3)]])
            if name == "deg":
                deg = ops[-1][1]
        ops.append(["format"])
        if rng.random() < 0.1:
            ops.append(["format"])
    return {"unit": "transform", "card": card, "ops": ops}


def _tr_entry_value(rng, pos, deg):
    """A value for entry `pos` of the 12 numbers: the default of either unit, the pool, or a random number."""
    r = rng.random()
    if r < 0.25:
        return float(TR_DEFAULTS[deg][pos])
    if r < 0.45:
        return float(TR_DEFAULTS[not deg][pos])
    if r < 0.85:
        return rng.choice(TR_VALUES)
    return round(rng.uniform(-1, 1) if not deg else rng.uniform(0, 180), rng.choice([2, 6, 15]))


def gen_tr_inplace_case(rng, i):
    """Edits through the mutable values the public getters hand out, between writes: a TR / *TR input (jumps anywhere)
    is optionally edited through the setters and written (a check point), then in each further round entries of
    `rotation_matrix` / `displacement_vector` are assigned IN the array the getter returns (`t.rotation_matrix[k] = v`,
    `t.displacement_vector[k] = v`) or the array is fetched, modified and handed back through the setter
    (`m = t.rotation_matrix; m[k] = v; t.rotation_matrix = m`), alone or next to ordinary assignments, and the input
    is written again."""
    card, deg0, n = _gen_tr_card(rng, i)
    ops, deg = [], deg0
    if rng.random() < 0.45:  # something assigned through the setters before the first write
        for name in rng.sample(["deg", "rot", "disp"], rng.choice([1, 1, 2])):
            if name == "deg":
                deg = (not deg) if rng.random() < 0.7 else deg
                ops.append(["deg", deg])
            elif name == "rot":
                vals = [_tr_entry_value(rng, k + 3, deg) for k in range(9 if n == 13 else rng.choice([9, 9, 5, 6]))]
                if not any(vals):
                    vals[0] = 1.0
                ops.append(["rot", [nf.num(v) for v in vals]])
            else:
                ops.append(["disp", [nf.num(0.0 if rng.random() < 0.4 else rng.choice(TR_VALUES)) for _ in range(3)]])
    if rng.random() < 0.85:
        ops.append(["format"])
    for rnd in range(rng.choice([1, 1, 1, 2, 2, 3])):
        for _ in range(rng.choice([1, 1, 1, 2, 3])):
            r = rng.random()
            if r < 0.5:
                k = rng.randrange(9)
                ops.append(["rot_at", k, nf.num(_tr_entry_value(rng, k + 3, deg))])
            elif r < 0.7:
                ks = sorted(rng.sample(range(9), rng.choice([1, 2, 9])))
                ops.append(["rot_back", [[k, nf.num(_tr_entry_value(rng, k + 3, deg))] for k in ks]])
            elif r < 0.9:
                ops.append(["disp_at", rng.randrange(3), nf.num(0.0 if rng.random() < 0.2 else rng.choice(TR_VALUES))])
            elif r < 0.95:
                deg = not deg
                ops.append(["deg", deg])
            else:
                ops.append(["disp", [nf.num(rng.choice(TR_VALUES)) for _ in range(3)]])
        ops.append(["format"])
    return {"unit": "transform", "card": card, "ops": ops}


def _tr_state(obj):
    """The live transform just before it is written, for the model (read-only observation of public properties
    and of the values of the nodes of the card)."""
    def w(v):
        return None if v is None else nf.num(v if isinstance(v, int) and not isinstance(v, bool) else float(v))

    return {
        "unit": "transform",
        "deg": bool(obj.is_in_degrees),
        "m2a": bool(obj.is_main_to_aux),
        "nodes": [w(node.value) for node in obj.data],
        "disp": [w(v) for v in obj.displacement_vector],
        "rot": [w(v) for v in obj.rotation_matrix],
    }


def read_tr_card(lines):
    """What MCNP reads on the written lines: (in degrees, entries) with an entry a Fraction or None for a jump;
    None when the text is not a TR card of numbers.  Independent of MontePy (vlib.shortcut_ref, MCNP manual 2.8.1)."""
    from vlib import shortcut_ref

    words = []
    for line in lines:
        for piece in line.split("\n"):
            piece = piece.split("$")[0]
            if piece[:5].strip().lower() == "c" and (len(piece.strip()) == 1 or piece.strip()[1:2] == " "):
                continue
            words += [x for x in piece.split() if x != "&"]
    if not words or not re.fullmatch(r"\*?tr\d+", words[0].lower()):
        return None
    ent = shortcut_ref.expand(" ".join(words[1:]))
    if ent is None:
        return None
    out = []
    for v, _kind in ent:
        if isinstance(v, tuple):
            if v[0] != "lin":
                return None
            _, a, b, cnt, k = v
            v = a + (b - a) * k / (cnt + 1)
        out.append(v)
    return words[0].startswith("*"), out


def run_impl_tr(case):
    """Parse the TR card, apply the history through the public setters, write with format_for_mcnp_input."""
    mp = _mp()
    import numpy as np

    out = {"card": case["card"]}
    with warnings.catch_warnings():
        warnings.simplefilter("ignore")
        try:
            obj = mp.data_from(case["card"])
        except Exception as e:  # noqa: BLE001 - a card MontePy does not read: counted, C12's business
            return dict(out, skip="parse:" + type(e).__name__)
        try:
            out["state0"] = _tr_state(obj)  # the transform as it was read (read-only observation)
        except Exception:  # noqa: BLE001 - no history comparison for this case
            out["state0"] = None
        outs = []
        applied = []  # the in-place operations that found their entry (a card without matrix has no entry to assign)
        out["applied"] = applied
        for n_op, op in enumerate(case["ops"]):
            try:
                if op[0] == "deg":
                    obj.is_in_degrees = op[1]
                elif op[0] == "rot":
                    obj.rotation_matrix = np.array([float(nf.unnum(v)) for v in op[1]])
                elif op[0] == "disp":
                    obj.displacement_vector = np.array([float(nf.unnum(v)) for v in op[1]])
                elif op[0] == "rot_at":  # an entry assigned in the array the public getter hands out
                    if op[1] < len(obj.rotation_matrix):
                        obj.rotation_matrix[op[1]] = float(nf.unnum(op[2]))
                        applied.append(n_op)
                elif op[0] == "disp_at":
                    if op[1] < len(obj.displacement_vector):
                        obj.displacement_vector[op[1]] = float(nf.unnum(op[2]))
                        applied.append(n_op)
                elif op[0] == "rot_back":  # fetched, modified, handed back through the setter (the same array object)
                    matrix = obj.rotation_matrix
                    if len(matrix) >= 5:
                        for k, v in op[1]:
                            if k < len(matrix):
                                matrix[k] = float(nf.unnum(v))
                        obj.rotation_matrix = matrix
                        applied.append(n_op)
                else:
                    o = {}
                    try:
                        o["state"] = _tr_state(obj)
                    except Exception:  # noqa: BLE001 - no model comparison for this write
                        o["state"] = None
                    try:
                        o["lines"] = obj.format_for_mcnp_input((6, 2, 0))
                    except Exception as e:  # noqa: BLE001 - a verdict of this case
                        o["raised"] = type(e).__name__
                        outs.append(o)
                        break
                    outs.append(o)
            except (TypeError, ValueError) as e:
                return dict(out, skip="setter:" + type(e).__name__)
    out["outs"] = outs
    return out


def judge_tr(case, res, notes=None):
    """C05 on a TR input: every number of a vector assigned through the API is, at its position of the written card
    and read the way MCNP reads that card (a jump = the default of the unit the card is written in), the number
    that was assigned.  An entry is assigned by the setter of its vector, or by an assignment into the array the public
    getter hands out (`t.rotation_matrix[k] = v`); an entry assigned before an earlier write is still assigned.
    Returns (signature, what) of the first violation or None; reasons for not judging a write go to `notes`."""
    if "skip" in res:
        return None
    base = {"mechanism": "transform-entry"}
    # position within the vector -> (value assigned through the API, how)
    set_vec = {"disp": {}, "rot": {}}
    applied = set(res.get("applied", []))
    switched = False
    k = -1
    for n_op, op in enumerate(case["ops"]):
        if op[0] == "deg":
            switched = True
            continue
        if op[0] in set_vec:
            set_vec[op[0]] = {j: (float(nf.unnum(v)), "setter") for j, v in enumerate(op[1])}
            continue
        if op[0] in ("rot_at", "disp_at"):
            if n_op in applied:
                set_vec[op[0][:-3]][op[1]] = (float(nf.unnum(op[2])), "in-place")
            continue
        if op[0] == "rot_back":
            if n_op in applied:
                for j, v in op[1]:
                    set_vec["rot"][j] = (float(nf.unnum(v)), "in-place")
            continue
        k += 1
        if k >= len(res["outs"]):
            break
        o = res["outs"][k]
        sig = dict(base, unit_assigned=switched)
        if "raised" in o:
            return dict(sig, **{"class": "raises", "site": "tr"}), f"writing {case['card']!r} raised {o['raised']}"
        if not set_vec["disp"] and not set_vec["rot"]:
            continue
        rd = read_tr_card(o["lines"])
        if rd is None:
            return dict(sig, **{"class": "unreadable", "site": "tr"}), f"wrote {o['lines']!r}: not a TR input of numbers"
        deg_w, ent = rd
        st = o.get("state")
        for site, start in (("disp", 0), ("rot", 3)):
            vec = set_vec[site]
            if not vec:
                continue
            if site == "rot" and any(how == "in-place" for _, how in vec.values()):
                # in-place assignments can leave a matrix of zeros only, which MontePy takes for "no matrix"
                # (the setter histories never assign one); and entries behind the end of the matrix do not exist
                if st is None or not any(nf.unnum(v) != 0 for v in st["rot"]):
                    if notes is not None:
                        notes.append("skipped:matrix-of-zeros" if st is not None else "skipped:no-state")
                    continue
                vec = {j: e for j, e in vec.items() if j < len(st["rot"])}
            for j in sorted(vec):
                v, how = vec[j]
                p = start + j
                sg = dict(sig, site="tr_" + ("displacement" if site == "disp" else "rotation"))
                if how == "in-place":
                    sg["edit"] = "in-place"
                # an entry left off at the end of the card is for MCNP what a jump is: the default
                y = ent[p] if p < len(ent) else None
                as_jump = y is None
                if as_jump:
                    y = Fraction(TR_DEFAULTS[deg_w][p])
                if not nf.close_pinned(y, v):
                    cls = "jump-for-value" if as_jump else "precision-lost"
                    return dict(sg, **{"class": cls}), (
                        f"{'*TR' if deg_w else 'TR'} entry {p} set to {v!r}{' in the array the getter returns' if how == 'in-place' else ''} is written "
                        f"{('as a jump' if p < len(ent) else 'by leaving the entry off') + ', which MCNP reads as ' + str(y) if as_jump else 'as ' + str(to_float_str(y))} "
                        f"(card {case['card']!r} written {o['lines']!r})")
    return None


def to_float_str(y):
    return repr(nf.to_float(y))


def tr_compare_model(o, m):
    """U-transform: the jump pattern and the numbers of the written card against the model's entries.
    Returns None when they agree, else a short description."""
    rd = read_tr_card(o["lines"])
    if rd is None:
        return "written card unreadable"
    deg_w, ent = rd
    if deg_w != o["state"]["deg"]:
        return "modifier"
    want = [nf.unrat(e) for e in m["entries"]]
    # jumps at the end of the card are left off by ListNode.update_with_new_values (C08's model): the same for MCNP
    got = ent[: len(want)] + [None] * (len(want) - len(ent))
    for p, (a, b) in enumerate(zip(got, want)):
        if (a is None) != (b is None):
            return f"entry {p}: written {'jump' if a is None else 'number'}, model {'jump' if b is None else 'number'}"
        if a is not None and not nf.close_pinned(a, nf.to_float(b)):
            return f"entry {p}: written {nf.to_float(a)!r}, model {nf.to_float(b)!r}"
    return None


def tr_history_case(case, res):
    """The history of one transform case for the model (driver unit transform-history): the transform as it was read,
    the steps that took effect, and for every write the nodes it left (observed before the next write).  None when
    a state could not be observed or a write raised."""
    st0, outs = res.get("state0"), res.get("outs", [])
    if "skip" in res or st0 is None or any(o.get("state") is None or "lines" not in o for o in outs):
        return None
    applied = set(res.get("applied", []))
    ops, k = [], 0
    for n_op, op in enumerate(case["ops"]):
        if op[0] in ("deg", "rot", "disp"):
            ops.append(op)
        elif op[0] in ("rot_at", "disp_at"):
            if n_op in applied:
                ops.append(op)
        elif op[0] == "rot_back":
            if n_op in applied:  # handing the same array back through the setter: the assignments into it are the edit
                ops += [["rot_at", j, v] for j, v in op[1] if j < 9]
        else:
            if k >= len(outs):
                break
            ops.append(["write", outs[k + 1]["state"]["nodes"] if k + 1 < len(outs) else []])
            k += 1
    if k != len(outs):
        return None
    return dict(st0, unit="transform-history", ops=ops)


def tr_history_compare(res, m):
    """U-transform-history: at every write, what the model holds after the same steps (unit, both vectors: exact) and
    the entries it writes against the live transform and the written card.  None when they agree."""
    if "error" in m or len(m.get("writes", [])) != len(res["outs"]):
        return "model: " + str(m.get("error", "number of writes"))
    for k, (o, w) in enumerate(zip(res["outs"], m["writes"])):
        st = o["state"]
        if w["read"] != w["held"]:
            return f"write {k}: C05_transform_history evaluated on the executable model fails"
        if w["deg"] != st["deg"]:
            return f"write {k}: unit held"
        for name in ("disp", "rot"):
            if [nf.unrat(x) for x in w[name]] != [Fraction(nf.unnum(x)) for x in st[name]]:
                return f"write {k}: {name} held: impl {[float(nf.unnum(x)) for x in st[name]]}, model {[float(nf.unrat(x)) for x in w[name]]}"
        d = tr_compare_model(o, w)
        if d is not None:
            return f"write {k}: {d}"
    return None


def _tr_history_disagreement(drv, case):
    res = run_impl_tr(case)
    if "skip" in res or judge_tr(case, res) is not None:
        return None
    h = tr_history_case(case, res)
    return None if h is None else tr_history_compare(res, drv.batch([h])[0])


def shrink_tr_case(case, still_fails):
    cur = case

    def attempt(c):
        nonlocal cur
        if canon(c) != canon(cur) and still_fails(c):
            cur = c
            return True
        return False

    # fewer operations (the last write stays)
    progress = True
    while progress:
        progress = False
        for j in range(len(cur["ops"]) - 1):
            if attempt(dict(cur, ops=cur["ops"][:j] + cur["ops"][j + 1:])):
                progress = True
                break
    # a plainer card: one line, single jumps, entries at the default of the card's unit
    first = cur["card"].split()[0]
    deg0 = first.startswith("*")
    flat = []
    for w in cur["card"].split()[1:]:
        mt = re.fullmatch(r"(\d*)j", w.lower())
        flat += ["j"] * int(mt.group(1) or 1) if mt else [w]
    attempt(dict(cur, card=" ".join([first] + flat)))
    attempt(dict(cur, card=" ".join([re.sub(r"\d+", "1", first)] + cur["card"].split()[1:])))
    words = cur["card"].split()
    if all(not re.fullmatch(r"\d+j", w.lower()) for w in words[1:]):
        while len(words) > 4 and attempt(dict(cur, card=" ".join(words[:-1]))):  # fewer entries
            words = cur["card"].split()
        for j in range(1, min(len(words), 13)):  # the other entries at the default of the card's unit
            if words[j].lower() != "j" and words[j] != str(TR_DEFAULTS[deg0][j - 1]):
                w2 = list(words)
                w2[j] = str(TR_DEFAULTS[deg0][j - 1])
                if attempt(dict(cur, card=" ".join(w2))):
                    words = w2
    # plainer values: the default of the unit at write time does not matter here, try 0 / 1 / 90
    for j, op in enumerate(cur["ops"]):
        if op[0] in ("rot", "disp"):
            for q in range(len(op[1])):
                for simple in (0.0, 1.0, 90.0):
                    if nf.unnum(cur["ops"][j][1][q]) in (0.0, 1.0, 90.0):
                        break
                    vec = list(cur["ops"][j][1])
                    vec[q] = nf.num(simple)
                    ops2 = list(cur["ops"])
                    ops2[j] = [op[0], vec]
                    if attempt(dict(cur, ops=ops2)):
                        break
        elif op[0] in ("rot_at", "disp_at") and nf.unnum(op[2]) not in (0.0, 1.0, 90.0, 0.5):
            for simple in (0.5, 0.0, 1.0, 90.0):
                ops2 = list(cur["ops"])
                ops2[j] = [op[0], op[1], nf.num(simple)]
                if attempt(dict(cur, ops=ops2)):
                    break
        elif op[0] == "rot_back" and len(op[1]) > 1:
            for q in range(len(op[1]) - 1, -1, -1):  # fewer entries modified before the array is handed back
                pairs = cur["ops"][j][1]
                if len(pairs) > 1:
                    ops2 = list(cur["ops"])
                    ops2[j] = [op[0], pairs[:q] + pairs[q + 1:]]
                    attempt(dict(cur, ops=ops2))
    return cur


# minimised histories of past failures on TR inputs (run first, independent of the seed)
TR_CORPUS = [
    # seeded/C05e: the jump test used the defaults of the unit the card was READ in
    {"unit": "transform", "card": "*tr1 1 2 3 j 90 90 90 j 90 90 90 j",
     "ops": [["deg", False], ["rot", [nf.num(v) for v in (0.0, 1.0, 0.0, -1.0, 0.0, 0.0, 0.0, 0.0, 1.0)]], ["format"]]},
    {"unit": "transform", "card": "tr2 4 5 6 j 0 0 0 j 0 0 0 j",
     "ops": [["rot", [nf.num(v) for v in (1.0, 91.0, 90.0, 89.0, 1.0, 90.0, 90.0, 90.0, 0.0)]], ["deg", True], ["format"], ["format"]]},
    {"unit": "transform", "card": "tr5 1 2j 9j", "ops": [["deg", True], ["format"]]},
    {"unit": "transform", "card": "*tr5 j 2 j 3j 45 5j -1",
     "ops": [["disp", [nf.num(v) for v in (0.0, 0.0, 2.5)]], ["rot", [nf.num(v) for v in (0.0, 90.0, 90.0, 90.0, 45.0, 45.0, 90.0, 135.0, 45.0)]], ["format"]]},
    # fixed eb991ca: a write drops the jumps at the end of the input; the displacement entries that were left off
    # have to come back when they, or a rotation behind them, are needed
    {"unit": "transform", "card": "*tr1 8j",
     "ops": [["disp", [nf.num(v) for v in (1.0, 0.0, 0.0)]], ["format"], ["deg", True], ["format"]]},
    {"unit": "transform", "card": "tr1 0 2j",
     "ops": [["disp", [nf.num(v) for v in (0.0, 1.0, 0.0)]], ["format"], ["disp", [nf.num(v) for v in (0.0, 0.0, 5.0)]], ["format"], ["format"]]},
]


# --------------------------------------------------------------------------- oracle (the property itself)
def token_class(case):
    tok = case.get("token")
    if case.get("ty") == "int":
        return "int"
    if tok is None or isinstance(tok, dict) and "jump" in tok:
        return "new"
    t = model_token(tok).lower()
    body = t.lstrip("+-")
    if "e" in body or "+" in body or "-" in body:
        return "sci"
    if "." in body:
        return "fixed"
    return "intlike"


def pad_text(items):
    if not items:
        return ""
    return "".join(" " * it[1] if it[0] == "s" else "\n" if it[0] == "n" else it[1] for it in items)


def expected_value(case, upto):
    """The signed number the user of the node has set before op number `upto`, and whether any value was assigned.
    Documented meaning of ValueNode: `value` is the number; on a negatable node whose sign is known
    (`is_negative` is not None) `value` is the magnitude and `is_negative` the sign."""
    og = original_value(case)
    val = og
    negatable = case["negatable"] != "no"
    is_neg = (og < 0) if (negatable and og is not None) else None
    if is_neg is not None:
        val = abs(val)
    was_set = False
    for op in case["ops"][:upto]:
        if op[0] == "value":
            val = nf.unnum(op[1])
            was_set = True
            if is_neg is not None and val is not None:
                val = abs(val)
        elif op[0] == "neg" and negatable:
            is_neg = op[1]
    if val is not None and is_neg:
        val = -val
    return val, was_set


def original_value(case):
    tok = case["token"]
    if tok is None or isinstance(tok, dict) and "jump" in tok:
        return None
    return nf.read_fortran(model_token(tok).strip())


def judge_node(case, res):
    """First violation of C05 in the observations of the real code, or None. Returns (op index, signature, what)."""
    if res.get("init") != "ok":
        return None
    base = {"mechanism": "value-format", "branch": token_class(case)}
    k = -1
    for i, op in enumerate(case["ops"]):
        if op[0] != "format":
            continue
        k += 1
        if k >= len(res["outs"]):
            break
        out = res["outs"][k]
        want, was_set = expected_value(case, i)
        if "raised" in out:
            return i, dict(base, **{"class": "raises"}), f"format() raised {out['raised']}"
        text = out["text"]
        og = original_value(case)
        if want is None:
            continue  # nothing numeric to write (None / jump): not C05's business
        if not isinstance(want, Fraction) and not math.isfinite(want):
            continue
        word = nf.first_word(text)
        y = nf.read_fortran(word)
        unchanged = og is not None and Fraction(want) == og
        if unchanged:
            tok = model_token(case["token"])
            if text != tok + pad_text(case["pad"]):
                return i, dict(base, **{"class": "respelled-unchanged"}), f"unchanged value written {text!r} for token {tok!r}"
            continue
        if y is None:
            return i, dict(base, **{"class": "unreadable"}), f"{text!r} does not start with a number (value {want!r})"
        if case["ty"] == "int" and isinstance(want, int):
            if y != want or not word.lstrip("+-").isdigit():
                return i, dict(base, **{"class": "int-inexact"}), f"integer {want} written {word!r}"
        elif not nf.close_pinned(y, float(want)):
            return i, dict(base, **{"class": "precision-lost"}), f"{float(want)!r} written {word!r} (token {case['token']!r})"
        # no fusion with the following word: a padded node must end its number before the next word
        # (a node that had no value and no padding gets a blank from the value setter unless never_pad)
        has_sep = pad_text(case["pad"]) != "" or (og is None and case["pad"] is None and not case["never_pad"])
        if has_sep and nf.first_word(text + "9") != word:
            return i, dict(base, **{"class": "fused"}), f"{text!r} would fuse with the next word"
    return None


def judge_api(case, res):
    if "skip" in res:
        return None
    base = {"mechanism": "value-format", "branch": token_class({"token": case["token"], "ty": "float"}), "site": case["kind"]}
    if "raised" in res:
        return dict(base, **{"class": "raises"}), f"{case['kind']}: writing raised {res['raised']} for card {res['card']!r}"
    want = nf.unnum(res["want"])
    tmpl, idx = API_KINDS[case["kind"]]
    twords = tmpl.format(t=case["token"] if case["kind"] in NO_TOKEN_KINDS else "1", g=" ").replace("=", " ").split()
    # a number fused with the word after it is a word that does not read back (checked below); what happens to the
    # words *after* the number (comments, continuation lines) is the business of C01/C10, not of this property
    npre = min(idx, len(twords))  # (a quantity that was not in the card is written after the words that were)
    if res["word"] is None or [w.lower() for w in res["words"][:npre]] != [w.lower() for w in twords[:npre]]:
        return dict(base, **{"class": "fused"}), f"{case['kind']}: wrote {res['lines']!r}: the words before the number changed"
    y = nf.read_fortran(res["word"])
    if y is None:
        return dict(base, **{"class": "unreadable"}), f"{case['kind']}: wrote {res['word']!r} in {res['lines']!r}"
    og = None if case["kind"] in NO_TOKEN_KINDS else nf.read_fortran(case["token"])
    if og is not None and Fraction(want) == og:
        if res["word"] != case["token"]:
            return dict(base, **{"class": "respelled-unchanged"}), f"{case['kind']}: unchanged {case['token']!r} written {res['word']!r}"
        return None
    if not nf.close_pinned(y, want):
        return dict(base, **{"class": "precision-lost"}), f"{case['kind']}: {want!r} written {res['word']!r} (card {res['card']!r})"
    return None


# --------------------------------------------------------------------------- generators
def gen_node_case(rng, i):
    r = rng.random()
    ty = "float"
    negatable = "no"
    if r < 0.06:
        token = None
    elif r < 0.10:
        token = {"jump": True}
    elif r < 0.13:
        token = {"float": repr(rng.choice([1.23, 0.5, 100.0, 1e-5, 2.5e22, -3.75]))}
    elif r < 0.25:
        ty = "int"
        token = rng.choice(["", "", "-", "+"]) + rng.choice(["", "", "0", "000"]) + str(rng.choice([0, 1, 2, 7, 10, 42, 999, 12345]))
    else:
        token = nf.gen_spelling(rng)
    pad = rng.choice(nf.PADDINGS)
    never_pad = rng.random() < 0.08
    if ty == "int" and rng.random() < 0.3:
        negatable = "id"
    elif ty == "float" and rng.random() < 0.12:
        negatable = "float"
    og = None
    prec = None
    if isinstance(token, str) and ty == "float":
        ogf = nf.read_fortran(token)
        og = nf.to_float(ogf) if ogf is not None else None
        if "." in token:
            prec = len(token.split(".")[1].split("e")[0].split("E")[0].split("+")[0].split("-")[0])
    ops = []
    nsets = rng.choice([1, 1, 1, 1, 2, 0])
    for s in range(max(nsets, 0)):
        if ty == "int":
            v = rng.choice([0, 1, -1, 5, 10, 99, 100, 12345, -7, 10**9, 10**12, 2**63]) if rng.random() < 0.9 else float(rng.randint(-5, 50))
            if negatable == "id" and isinstance(v, int):
                v = abs(v)
        else:
            v = nf.gen_value(rng, og, prec)
            if rng.random() < 0.04:
                v = int(rng.choice([0, 1, 2, 25, -3, 1000]))
        ops.append(["value", nf.num(v)])
        if negatable != "no" and rng.random() < 0.7:
            ops.append(["neg", rng.random() < 0.5])
        ops.append(["format"])
        if rng.random() < 0.1:
            ops.append(["format"])
    if nsets == 0:
        if negatable != "no" and rng.random() < 0.5:
            ops.append(["neg", rng.random() < 0.5])
        ops.append(["format"])
    return {"token": token, "ty": ty, "pad": pad, "never_pad": never_pad, "negatable": negatable, "ops": ops}


def gen_exhaustive_nodes(spellings, values, paddings):
    for tok in spellings:
        for x in values:
            for pad in paddings:
                yield {"token": tok, "ty": "float", "pad": pad, "never_pad": False, "negatable": "no", "ops": [["value", nf.num(x)], ["format"]]}


def gen_pyformat_case(rng, i):
    style = rng.choice("ffeegggd")
    x = nf.gen_value(rng, None, rng.randint(0, 17))
    if style == "d":
        x = float(rng.randint(-10**6, 10**6)) if rng.random() < 0.5 else float(int(max(min(x, 1e30), -1e30)))
        p = 0
    else:
        p = rng.randint(0, 17) if rng.random() < 0.92 else rng.choice([18, 20, 25, 30])
    if style == "f" and abs(x) > 1e60 and rng.random() < 0.8:
        x = x / 1e50 if abs(x) < 1e100 else math.copysign(1.5, x)
    return {"unit": "pyformat", "style": style, "p": p, "sign": rng.choice("--+ "), "width": rng.choice([0, 0, 0, 3, 5, 8, 12, 20]), "x": nf.num(x)}


def run_impl_pyformat(case):
    x = nf.unnum(case["x"])
    if case["style"] == "d":
        return "{v:0={s}{w}d}".format(v=int(x), s=case["sign"], w=case["width"])
    return "{v:0={s}0{w}.{p}{t}}".format(v=x, s=case["sign"], w=case["width"], p=case["p"], t=case["style"])


WORD_POOL = ["", ".", "+", "-", "e5", "1e", "1e+", "1.5+", "1..5", "1.5.2", "1e5e3", "1+5-3", "1 5", " 1.5", "1.5 ", "--1", "+-1", "1d5", "1.5D-3",
             "1_0", "inf", "nan", "0x10", "1,5", "J", "2J", "1.5e3.0", ".e5", "5.e3", "+.5", "-.5-2", "00.00", "1e0000005"]


def _small_exponent(w):
    """no digit run after an exponent marker longer than 3 significant digits (10**(10**6) is not a test of anything)"""
    return all(len(m.group(1).lstrip("0")) <= 3 for m in re.finditer(r"(?<=.)[eEdD+\-]+(\d+)", w))


def gen_read_case(rng, i):
    if i < len(WORD_POOL):
        return {"unit": "read", "word": WORD_POOL[i]}
    w = nf.gen_spelling(rng, max_exp=rng.choice([60, 200, 300]))
    if rng.random() < 0.15 and w:
        j = rng.randrange(len(w))
        w2 = w[:j] + rng.choice("+-.eE5 dx") + w[j + rng.choice([0, 1]) :]
        if _small_exponent(w2):
            w = w2
    return {"unit": "read", "word": w}


def run_impl_read(case):
    _mp()
    from montepy.utilities import fortran_float

    w = case["word"]
    try:
        v = fortran_float(w)
        ff = None if not math.isfinite(v) else v
        ffs = "nonfinite" if ff is None else "ok"
    except ValueError:
        ff, ffs = None, "ValueError"
    try:
        iv = int(w)
    except ValueError:
        iv = None
    return {"ff": ff, "ffs": ffs, "int": iv}


def gen_api_case(rng, i):
    kinds = sorted(API_KINDS)
    kind = kinds[i % len(kinds)]
    tok = nf.gen_spelling(rng, max_exp=30)
    ogf = nf.read_fortran(tok)
    og = nf.to_float(ogf)
    prec = None
    x = nf.gen_value(rng, og, prec)
    if kind in ("cz_radius", "c_z_radius", "cell_atom_density", "cell_mass_density", "cell_volume", "cell_importance", "material_fraction",
                "cell_volume_new", "cell_importance_new"):
        x = abs(x)
        tok = tok.lstrip("-")
        if x == 0 and ("density" in kind or "radius" in kind):
            x = 0.5
    if kind in ("cell_atom_density", "cell_mass_density", "cz_radius", "c_z_radius", "material_fraction") and nf.read_fortran(tok) == 0:
        tok = "1" + tok
    if abs(x) > 1e100 or (x != 0 and abs(x) < 1e-100):
        x = math.copysign(rng.uniform(0.1, 10), x if x != 0 else 1.0)
    return {"unit": "api", "kind": kind, "token": tok, "gap": rng.choice(GAPS), "x": nf.num(float(x))}


API_CORPUS = [
    # seeded/C05b: a rotation entry that the TR input did not hold is spelled from the value when the card is written
    {"unit": "api", "kind": "tr_rotation_new", "token": "1.0", "gap": " ", "x": nf.num(0.8660254037844387)},
    {"unit": "api", "kind": "tr_rotation_more", "token": "1.0", "gap": " ", "x": nf.num(-0.4999999999999998)},
    {"unit": "api", "kind": "cell_volume_new", "token": "1", "gap": " ", "x": nf.num(1234.56789012345)},
    {"unit": "api", "kind": "cell_importance_new", "token": "1", "gap": " ", "x": nf.num(0.3333333333333333)},
    {"unit": "api", "kind": "pz_location", "token": "1.5", "gap": " ", "x": nf.num(2.75)},
    {"unit": "api", "kind": "pz_location", "token": "-1.5e3", "gap": " ", "x": nf.num(2500.0)},
    {"unit": "api", "kind": "cell_atom_density", "token": "0.5", "gap": " ", "x": nf.num(0.0123456)},
    {"unit": "api", "kind": "cell_mass_density", "token": "-0.5", "gap": " ", "x": nf.num(2.123456)},
    {"unit": "api", "kind": "tr_displacement", "token": "1.0", "gap": " ", "x": nf.num(1e-7)},
    {"unit": "api", "kind": "p_constants", "token": "1", "gap": " ", "x": nf.num(2.9999999999)},
    {"unit": "api", "kind": "material_fraction", "token": "0.5", "gap": " ", "x": nf.num(1 / 3)},
]


def _node(tok, x, pad=None, ty="float", negatable="no", extra=None):
    ops = [["value", nf.num(x)]] + (extra or []) + [["format"]]
    return {"token": tok, "ty": ty, "pad": pad, "never_pad": False, "negatable": negatable, "ops": ops}


# minimised inputs of the defects repaired by the fix: commits (known_findings.json "fixed"), and edge cases
NODE_CORPUS = [
    _node("1.5", 2.75),
    _node("1.0", 1e-7),
    _node("1.", 3.25),
    _node("1e3", 1234.5678),
    _node(None, 1 / 3),
    _node("1", 1234.5678),
    _node(".5", 0.25),
    _node("1", 2.9999999999),
    _node("1", -2.9999999999),
    _node("-1.5e3", 2500.0),
    _node("-1.5-3", 2.5),
    _node("1", 1.00000001),
    _node("1.5", 25.0, [["s", 1]]),
    _node("1.5", 25.123, [["s", 1], ["n"]]),
    _node("1.5", 25.123, [["s", 1], ["c", "$ hi"], ["n"]]),
    _node({"jump": True}, 5.4),
    _node({"jump": True}, 5.4, [["s", 1]]),
    _node({"float": "1.23"}, 4.56),
    _node("1.602-0019", 6.02e23),
    _node("1.5", 1e-20),
    _node("1.5", 1e300),
    _node("0.5", -0.0),
    _node("0.5", 0.0),
    _node("-0.5", 2.123456, [["s", 1]], negatable="float", extra=[["neg", True]]),
    _node("-0.5", 0.1234, [["s", 1]], negatable="float", extra=[["neg", False]]),
    _node("5", 12, ty="int"),
    _node("-5", 12, ty="int", negatable="id", extra=[["neg", True]]),
    _node("0005", 12345, [["s", 1]], ty="int"),
    _node("+5", -3, ty="int"),
    {"token": "1.5", "ty": "float", "pad": [["s", 2]], "never_pad": False, "negatable": "no", "ops": [["format"]]},
    {"token": "1.5", "ty": "float", "pad": None, "never_pad": False, "negatable": "no", "ops": [["value", nf.num(1.5)], ["format"]]},
]


def load_corpus():
    """Minimised past failures committed under corpus/C05/*.json (replay format); they run first."""
    import glob
    import json
    import os

    from vlib.core import VERIF

    nodes, api, tr = [], [], []
    for path in sorted(glob.glob(os.path.join(VERIF, "corpus", "C05", "*.json"))):
        with open(path) as fh:
            c = json.load(fh).get("case", {})
        c = c.get("case", c)
        (api if c.get("unit") == "api" else tr if c.get("unit") == "transform" else nodes).append(c)
    return nodes, api, tr


# --------------------------------------------------------------------------- model side
def model_case(case):
    c = dict(case)
    c["token"] = model_token(case["token"])
    # the double of the token, computed here by the independent reader (U-read checks fortran_float agrees)
    if isinstance(c["token"], str) and case["ty"] == "float":
        v = nf.read_fortran(c["token"].strip())
        c["og_double"] = None if v is None else nf.num(nf.to_float(v))
    return c


def batch_par(drv, cases, workers=WORKERS):
    """drv.batch sharded over worker processes (each its own driver process); results in input order."""
    if not drv.ok:
        return None
    if len(cases) < 4000:
        return drv.batch(cases, timeout=7200)
    import multiprocessing as mpx

    n = max(2, min(workers, len(cases) // 2000))
    size = min(20000, (len(cases) + n - 1) // n)  # bounded chunks: bounded memory per driver call
    chunks = [cases[i : i + size] for i in range(0, len(cases), size)]
    ctx = mpx.get_context("fork")
    with ctx.Pool(n) as pool:
        outs = pool.map(_BatchCall(drv), chunks, chunksize=1)
    return [r for ch in outs for r in ch]


class _BatchCall:
    def __init__(self, drv):
        self.drv = drv

    def __call__(self, chunk):
        return self.drv.batch(chunk, timeout=7200)


def node_texts(res):
    if res.get("init") != "ok":
        return res.get("init")
    return [o.get("text", "raised:" + str(o.get("raised"))) for o in res["outs"]]


def node_band(case, impl, model):
    """True when a model/implementation difference is explained by the isclose threshold band (DESIGN 1.3):
    the two texts are both readable and some relative error involved sits within 1e-6 of the tolerance."""
    vals = [nf.unnum(op[1]) for op in case["ops"] if op[0] == "value" and op[1] is not None]
    og = original_value(case)
    cands = []
    for ti, tm in zip(node_texts(impl) or [], node_texts(model) or []):
        if ti == tm:
            continue
        for t in (ti, tm):
            y = nf.read_fortran(nf.first_word(t))
            if y is None:
                continue
            for v in vals:
                if isinstance(v, (int, float)) and math.isfinite(v):
                    cands.append(nf.rel_err(y, abs(v) if y >= 0 else -abs(v)))
    for v in vals:
        if isinstance(v, (int, float)) and math.isfinite(v):
            if og is not None:
                cands.append(nf.rel_err(abs(og), abs(Fraction(v))))
            cands.append(nf.rel_err(Fraction(round(v)), Fraction(v)))
            # candidates of every precision: the loop of _format_float stops at the first that reads back
            for p in range(0, 18):
                for spec in (f".{p}f", f".{p}e", f".{p}g"):
                    cands.append(nf.rel_err(Fraction(format(v, spec)), Fraction(v)))
    return any(nf.in_band(r) for r in cands)


# --------------------------------------------------------------------------- shrinking
def shrink_node_case(case, still_fails):
    """Greedy simplification of a failing node case (each step keeps the failure)."""
    cur = case

    def attempt(c):
        nonlocal cur
        if canon(c) != canon(cur) and still_fails(c):
            cur = c
            return True
        return False

    # keep only the last value (+ neg) + format
    ops = cur["ops"]
    last_fmt = max((i for i, op in enumerate(ops) if op[0] == "format"), default=None)
    if last_fmt is not None:
        vals = [i for i, op in enumerate(ops[:last_fmt]) if op[0] == "value"]
        if vals:
            attempt(dict(cur, ops=ops[vals[-1] : last_fmt + 1]))
        attempt(dict(cur, ops=[op for op in cur["ops"] if op[0] != "neg"]))
    for pad in (None, [["s", 1]]):
        attempt(dict(cur, pad=pad))
    attempt(dict(cur, never_pad=False))
    attempt(dict(cur, negatable="no"))
    # fewer digits in the value
    for j, op in enumerate(cur["ops"]):
        if op[0] == "value" and op[1] is not None and not op[1][3]:
            v = nf.unnum(op[1])
            if math.isfinite(v) and v != 0:
                for nd in range(1, 17):
                    v2 = float(f"{v:.{nd - 1}e}")
                    ops2 = list(cur["ops"])
                    ops2[j] = ["value", nf.num(v2)]
                    if attempt(dict(cur, ops=ops2)):
                        break
    # a simpler token
    tok = cur["token"]
    if isinstance(tok, str):
        for t2 in ("1", "1.5", "1.0", "1e3", "1.5e3", "-1.5", "-1.5e3", "1.5-3", tok.lstrip("+-0") or "0", tok.lstrip("+-")):
            if attempt(dict(cur, token=t2)):
                break
    return cur


# --------------------------------------------------------------------------- the check
def _check_node_slice(chk, drv, cases):
    """U-valueformat correspondence and the oracle on one slice of node cases (bounded memory)."""
    both = pmap(_impl_node_and_judge, cases, workers=WORKERS, chunksize=500)
    model = batch_par(drv, [model_case(c) for c in cases])
    # the written words of the real code, re-read by the Lean Spec
    words, where = [], []
    for i, (res, _) in enumerate(both):
        if res.get("init") == "ok":
            for k, o in enumerate(res["outs"]):
                if "text" in o:
                    words.append({"unit": "read", "word": nf.first_word(o["text"])})
                    where.append((i, k))
    spec_words = batch_par(drv, words)
    for (i, k), wcase, rm in zip(where, words, spec_words or []):
        if nf.unrat(rm["spec"]) != nf.read_fortran(wcase["word"]):
            chk.broken_obligation("correspondence", "U-read (Spec.parseNumber vs independent reader)", {"word": wcase["word"], "spec": rm["spec"]}, wcase)

    for i, (case, (ri, verdict)) in enumerate(zip(cases, both)):
        rm = model[i] if model is not None else None
        tag = None
        if rm is not None and rm.get("init") == "ok" and rm["outs"]:
            tag = rm["outs"][-1]["branch"]
        nontrivial = tag is not None and tag not in ("unchanged", "none")
        chk.note_case(case, nontrivial, sample_every=40000)
        chk.count("token:" + token_class(case))
        chk.count("pad:" + ("none" if case["pad"] is None else "items%d" % len(case["pad"])))
        if tag:
            t = tag.split(":")
            chk.count("branch:" + (t[0] if t[0] != "float" else "float-" + t[1] + ("" if t[3] == "+0" else "-raised")))
        if ri.get("init") != "ok":
            chk.count("init:" + str(ri.get("init")))
        if verdict is not None:
            # confirm in this process before reporting
            r2 = run_impl_node(case)
            v2 = judge_node(case, r2)
            if v2 is None or v2[1] != verdict[1]:
                chk.count("flaky:judge")
            else:
                sig = verdict[1]

                def fails(c, sig=sig):
                    v = judge_node(c, run_impl_node(c))
                    return v is not None and v[1] == sig

                mc = shrink_node_case(case, fails)
                rr = run_impl_node(mc)
                vv = judge_node(mc, rr)
                chk.violation(sig, vv[2] if vv else verdict[2], {"case": mc, "impl": rr})
                continue
        if rm is not None and rm.get("init") == "ok" and any(o.get("render_ok") is False for o in rm["outs"]):
            chk.broken_obligation("correspondence", RENDER_OK, {"model": rm}, case)
        if rm is not None:
            chk.traces_validated += 1
            a, b = node_texts(ri), node_texts(rm)
            if a != b:
                if chk.disagreements_checked >= MAX_CONFIRM:
                    # enough confirmed and minimised evidence for the report: the rest is only counted
                    chk.count("disagreement-not-rechecked:valueformat")
                    continue
                if node_band(case, ri, rm):
                    chk.count("band:valueformat")
                    continue
                r2 = node_texts(run_impl_node(case))
                m2 = node_texts(drv.batch([model_case(case)])[0])
                if r2 != a or m2 != b or r2 == m2:
                    chk.count("flaky:valueformat")
                    continue
                chk.disagreements_checked += 1

                def differs(c):
                    return node_texts(run_impl_node(c)) != node_texts(drv.batch([model_case(c)])[0]) and not node_band(c, run_impl_node(c), drv.batch([model_case(c)])[0])

                mc = shrink_node_case(case, differs) if len(chk.broken) < 3 else case
                chk.broken_obligation(
                    "correspondence",
                    "U-valueformat (Model/ValueFormat.lean vs syntax_node.ValueNode)",
                    {"impl": node_texts(run_impl_node(mc)), "model": node_texts(drv.batch([model_case(mc)])[0])},
                    mc,
                )



def _tr_disagreement(drv, case):
    """First difference between the written card and the model over the writes of one transform history, or None."""
    res = run_impl_tr(case)
    if "skip" in res or judge_tr(case, res) is not None:
        return None
    for o in res.get("outs", []):
        if o.get("state") is None or "lines" not in o:
            return None
        m = drv.batch([o["state"]])[0]
        if "error" in m:
            return None
        d = tr_compare_model(o, m)
        if d is not None:
            return d
    return None


def _impl_node_and_judge(case):
    res = run_impl_node(case)
    return res, judge_node(case, res)


def run(chk):
    chk.rule = (
        "a case is one ValueNode built from a token spelling (Real rule of DESIGN 5.2 with signs, leading zeros, "
        "e/E/letter-less exponents; None; Jump; float objects; int tokens) with a padding, followed by value / "
        "is_negative assignments and format() calls; API cases parse a real surface/cell/transform/material card, "
        "assign through the public setter and write the card; transform cases parse a TR / *TR input with jumps (j, nJ) "
        "anywhere among its up to 13 entries, assign is_in_degrees / rotation_matrix / displacement_vector in any order "
        "(values drawn from the defaults of either unit, a pool and random numbers), and write once or twice; in-place histories "
        "write the input, then assign entries IN the arrays the getters hand out (t.rotation_matrix[k] = v, t.displacement_vector[k] = v, "
        "fetch / modify / hand back through the setter), alone or next to setter assignments, and write again, for 1-3 rounds. Values: integers, halves, 1-17 digit decimals over "
        "1e-300..1e300, ties +- ulps, near-integers, near the old value, +-0.0, random doubles. A case is non-trivial "
        "when a changed value has to be written (not the unchanged-token shortcut); distinct = distinct canonical JSON."
    )
    chk.assumptions = [
        "model numbers are exact rationals; the implementation's math.isclose works in doubles: model and code may decide differently "
        "only when a relative error is within 1e-6 (relative) of the 1e-9 threshold; such cases are counted (band:*) and not compared",
        "inf/nan values, str/enum typed nodes, int objects as tokens of float nodes and underscores in numbers are not modelled",
        "the oracle pins the tolerance to the property's 1e-9 (not to constants.rel_tol)",
        "an entry of a TR input that is jumped over, or left off at the end, is read as the entry of 'no transformation' in the unit of "
        "the card (cosines 1 0 0 0 1 0 0 0 1, degrees 0 90 90 90 0 90 90 90 0; the reading the repair 488762e adopted); MCNP's completion of a "
        "partially given rotation matrix is not modelled; only vectors assigned through the API are judged",
    ]
    chk.trusted_base = [
        "Lean 4.33.0 kernel",
        "Spec lean/MontePyVerif/Spec/Number.lean as a faithful reading of MCNP's (Fortran) number syntax; cross-checked on every run against "
        "the independent Python reader tools/vlib/numfmt.py:read_fortran",
        "hand-written model lean/MontePyVerif/Model/ValueFormat.lean, tied to the code by the correspondences of this run "
        "(U-pyformat validates the exact-rational model of CPython's format against CPython itself)",
        "Spec lean/MontePyVerif/Spec/Transform.lean (defaults of a jumped-over TR entry; written down a second time, from the manual, as "
        "TR_DEFAULTS of tools/props/c05.py for the oracle) and hand-written model lean/MontePyVerif/Model/TransformWrite.lean, tied to "
        "Transform._update_values by U-transform; vlib/shortcut_ref.py as the reader of the written TR card",
        "translator plug-in tools/extractors/valueformat.py (Gen/ValueFormat.lean) and tools/extract.py (Gen/Constants.lean)",
        "harness tools/props/c05.py (calls the real ValueNode, the real parsers and setters in-process)",
    ]
    leanio.prove(chk, "MontePyVerif.Props.C05", THEOREMS, "MontePyVerif.C05")
    drv = leanio.Driver(chk, "drv_c05")

    # ------------------------------------------------------------------ U-pyformat
    rng = chk.rng("pyformat")
    pf = [gen_pyformat_case(rng, i) for i in range(chk.pick(12000, 500000))]
    pf_impl = pmap(run_impl_pyformat, pf, workers=WORKERS, chunksize=500)
    pf_model = batch_par(drv, pf)
    bad = 0
    for case, ti, rm in zip(pf, pf_impl, pf_model or []):
        chk.count("pyformat:" + case["style"])
        if rm.get("text") != ti:
            if chk.disagreements_checked >= MAX_CONFIRM:
                chk.count("disagreement-not-rechecked:pyformat")
            elif run_impl_pyformat(case) == ti and drv.batch([case])[0].get("text") != ti:
                bad += 1
                chk.disagreements_checked += 1
                chk.broken_obligation("correspondence", "U-pyformat (Model pyFormat vs CPython format)", {"impl": ti, "model": rm}, case)
            else:
                chk.count("flaky:pyformat")
        else:
            if rm.get("render_ok") is False:
                chk.broken_obligation("correspondence", RENDER_OK, {"text": ti}, case)
            # the model's text read by the Spec must be what the independent reader reads
            y = nf.read_fortran(nf.first_word(ti))
            if nf.unrat(rm.get("spec")) != y:
                chk.broken_obligation("correspondence", "U-read (Spec.parseNumber vs independent reader)", {"text": ti, "spec": rm.get("spec"), "py": str(y)}, case)
        chk.traces_validated += 1
    chk.units["U-pyformat"] = {"random": len(pf), "disagreements": bad}

    # ------------------------------------------------------------------ U-read, U-isclose
    rng = chk.rng("read")
    rd = [gen_read_case(rng, i) for i in range(chk.pick(4000, 60000))]
    rd_impl = pmap(run_impl_read, rd, workers=WORKERS, chunksize=500)
    rd_model = batch_par(drv, rd)
    for case, ri, rm in zip(rd, rd_impl, rd_model or []):
        w = case["word"]
        chk.traces_validated += 1
        spec, ff = nf.unrat(rm["spec"]), nf.unrat(rm["fortran_float"])
        py = nf.read_fortran(w)
        probs = []
        if spec != py:
            probs.append(("U-read (Spec.parseNumber vs independent reader)", {"word": w, "spec": str(spec), "py": str(py)}))
        if ri["ffs"] == "ValueError" and ff is not None or ri["ffs"] == "ok" and (ff is None or nf.to_float(ff) != ri["ff"]):
            if not (ri["ffs"] == "ValueError" and "_" in w) and not (ri["ffs"] == "ok" and ("_" in w or w.strip().lower().lstrip("+-") in ("inf", "nan", "infinity"))):
                probs.append(("U-read (Model fortranFloat vs utilities.fortran_float)", {"word": w, "impl": ri, "model": str(ff)}))
        mi = None if rm["int"] is None else int(rm["int"])
        if mi != ri["int"] and "_" not in w:
            probs.append(("U-read (Model pyInt vs int())", {"word": w, "impl": ri["int"], "model": mi}))
        for name, detail in probs:
            chk.disagreements_checked += 1
            chk.broken_obligation("correspondence", name, detail, case)
    chk.units["U-read"] = {"words": len(rd)}

    # ------------------------------------------------------------------ U-repr (samples the named assumption ReprExact)
    rng = chk.rng("repr")
    rp = []
    for i in range(chk.pick(2000, 50000)):
        v = nf.gen_value(rng)
        if math.isfinite(v):
            rp.append({"unit": "read", "word": str(v), "v": nf.num(v)})
    rp_model = batch_par(drv, [{"unit": "read", "word": c["word"]} for c in rp])
    for case, rm in zip(rp, rp_model or []):
        chk.traces_validated += 1
        y = nf.read_fortran(case["word"])  # str(v) must be a number of the Real rule ...
        spec = nf.unrat(rm["spec"])
        ff = nf.unrat(rm["fortran_float"])
        v = nf.unnum(case["v"])
        # ... that both readers of the model read alike, and whose nearest double is v (CPython's repr guarantee)
        if y is None or spec != y or ff != y or nf.to_float(y) != v:
            chk.disagreements_checked += 1
            chk.broken_obligation("correspondence", "U-repr (ReprExact: str(v) is a decimal literal whose nearest double is v)",
                                  {"str": case["word"], "independent": str(y), "spec": rm["spec"], "fortran_float": rm["fortran_float"]}, case)
    chk.units["U-repr"] = {"values": len(rp)}

    rng = chk.rng("isclose")
    ic = []
    for i in range(chk.pick(2000, 20000)):
        a = nf.gen_value(rng)
        f = rng.choice([0.0, 1e-12, 1e-10, 3e-10, 9e-10, 1.1e-9, 3e-9, 1e-8, 1e-6, 0.5, -1e-10, -2e-9])
        b = a * (1 + f) if rng.random() < 0.8 else nf.gen_value(rng)
        if not (math.isfinite(a) and math.isfinite(b)):
            continue
        ic.append({"unit": "isclose", "a": nf.num(a), "b": nf.num(b)})
    ic_model = batch_par(drv, ic)
    from vlib import mp  # noqa: F401

    from montepy import constants as mconst

    for case, rm in zip(ic, ic_model or []):
        a, b = nf.unnum(case["a"]), nf.unnum(case["b"])
        want = math.isclose(a, b, rel_tol=mconst.rel_tol, abs_tol=mconst.abs_tol)
        r = nf.rel_err(Fraction(a), b)
        chk.traces_validated += 1
        if (rm["model"] != want or rm["spec"] != want) and not nf.in_band(r):
            chk.disagreements_checked += 1
            chk.broken_obligation("correspondence", "U-isclose (Model/Spec isClose vs math.isclose)", {"impl": want, "model": rm}, case)
    chk.units["U-isclose"] = {"pairs": len(ic)}

    # ------------------------------------------------------------------ U-valueformat + oracle
    rng = chk.rng("nodes")
    file_nodes, file_api, file_tr = load_corpus()
    corpus_cases = file_nodes + list(NODE_CORPUS)
    ncorpus = len(corpus_cases)
    nrandom = chk.pick(20000, 2000000)
    if chk.thorough:
        exh = list(gen_exhaustive_nodes(nf.FIXED_SPELLINGS, nf.FIXED_VALUES + [-v for v in nf.FIXED_VALUES[2:40]], [None, [["s", 1]]]))
    else:
        exh = list(gen_exhaustive_nodes(nf.FIXED_SPELLINGS[::2], nf.FIXED_VALUES[::2], [None if chk.seed % 2 == 0 else [["s", 1]]]))
    chk.units["U-valueformat"] = {"corpus": ncorpus, "random": nrandom, "exhaustive_small": len(exh)}
    chk.exhaustive = False
    _check_node_slice(chk, drv, corpus_cases + exh)  # the corpus of past failures runs first
    SLICE = 250000  # generated slice by slice (one rng stream): bounded memory
    for lo in range(0, nrandom, SLICE):
        _check_node_slice(chk, drv, [gen_node_case(rng, i) for i in range(lo, min(lo + SLICE, nrandom))])
    # ------------------------------------------------------------------ API level (real parsers, setters, writer)
    rng = chk.rng("api")
    api = file_api + list(API_CORPUS) + [gen_api_case(rng, i) for i in range(chk.pick(2500, 40000))]
    api_res = pmap(run_impl_api, api, workers=WORKERS, chunksize=100)
    states = [(i, r["state"]) for i, r in enumerate(api_res) if r.get("state") and "node_text" in r]
    st_model = batch_par(drv, [s for _, s in states])
    st_by_i = {i: m for (i, _), m in zip(states, st_model or [])}
    for i, (case, res) in enumerate(zip(api, api_res)):
        chk.note_case(case, "skip" not in res, sample_every=8000)
        chk.count("api:" + case["kind"] + (":skip" if "skip" in res else ""))
        v = judge_api(case, res)
        if v is not None:
            r2 = run_impl_api(case)
            v2 = judge_api(case, r2)
            if v2 is None or v2[0] != v[0]:
                chk.count("flaky:judge-api")
            else:
                best = case

                def api_fails(c2, sig=v[0]):
                    vv = judge_api(c2, run_impl_api(c2))
                    return vv is not None and vv[0] == sig

                if case["gap"] != " " and api_fails(dict(best, gap=" ")):
                    best = dict(best, gap=" ")
                x0 = nf.unnum(best["x"])
                if math.isfinite(x0) and x0 != 0:
                    for nd in range(1, 17):  # fewest significant digits that still fail
                        c2 = dict(best, x=nf.num(float(f"{x0:.{nd - 1}e}")))
                        if api_fails(c2):
                            best = c2
                            break
                for t2 in ("1", "1.5", "1.0", "1e3", "1.5e3", "-1.5e3", "1.5-3"):
                    if api_fails(dict(best, token=t2)):
                        best = dict(best, token=t2)
                        break
                rr = run_impl_api(best)
                chk.violation(v[0], judge_api(best, rr)[1], {"case": best, "impl": rr})
                continue
        if i in st_by_i:
            chk.traces_validated += 1
            m = st_by_i[i]
            if m.get("text") != res["node_text"]:
                if chk.disagreements_checked >= MAX_CONFIRM:
                    chk.count("disagreement-not-rechecked:api")
                    continue
                fake = {"token": case["token"], "ty": "float", "pad": None, "never_pad": False, "negatable": "no", "ops": [["value", case["x"]], ["format"]]}
                if node_band(fake, {"init": "ok", "outs": [{"text": res["node_text"]}]}, {"init": "ok", "outs": [{"text": m.get("text", "")}]}):
                    chk.count("band:api")
                    continue
                r2 = run_impl_api(case)
                if r2.get("node_text") != res["node_text"] or drv.batch([res["state"]])[0].get("text") != m.get("text"):
                    chk.count("flaky:api")
                    continue
                chk.disagreements_checked += 1
                chk.broken_obligation(
                    "correspondence",
                    "U-valueformat on live nodes (Model format vs ValueNode.format after an API call)",
                    {"impl": res["node_text"], "model": m.get("text"), "state": res["state"]},
                    case,
                )
    chk.units["U-api"] = {"corpus": len(API_CORPUS) + len(file_api), "random": len(api) - len(API_CORPUS) - len(file_api), "live_nodes_compared": len(states)}

    # ------------------------------------------------------------------ TR inputs read with jumps: unit and vectors set through the API
    rng = chk.rng("transform")
    tr = file_tr + list(TR_CORPUS) + [gen_tr_case(rng, i) for i in range(chk.pick(4000, 80000))]
    # edits through the arrays the getters hand out (element assignment, fetch / modify / hand back), between writes
    rng = chk.rng("transform-inplace")
    tr += [gen_tr_inplace_case(rng, i) for i in range(chk.pick(3000, 60000))]
    tr_res = pmap(run_impl_tr, tr, workers=WORKERS, chunksize=100)
    tstates, twhere = [], []
    for i, r in enumerate(tr_res):
        for k, o in enumerate(r.get("outs", [])):
            if o.get("state") is not None and "lines" in o:
                tstates.append(o["state"])
                twhere.append((i, k))
    tr_model = batch_par(drv, tstates)
    model_by = dict(zip(twhere, tr_model or []))
    hist = [(i, h) for i, h in ((i, tr_history_case(c, r)) for i, (c, r) in enumerate(zip(tr, tr_res))) if h is not None]
    hist_model = batch_par(drv, [h for _, h in hist])
    hist_by = {i: m for (i, _), m in zip(hist, hist_model or [])}
    shrunk = {}
    for i, (case, res) in enumerate(zip(tr, tr_res)):
        assigned = any(op[0] in ("rot", "disp", "rot_at", "disp_at", "rot_back") for op in case["ops"])
        chk.note_case(case, "skip" not in res and assigned, sample_every=10000)
        chk.count("transform:" + ("skipped:" + res["skip"] if "skip" in res else "vector-assigned" if assigned else "unit-only"))
        if "skip" not in res and any(op[0] == "deg" for op in case["ops"]):
            chk.count("transform:unit-assigned")
        inplace = [n_op for n_op, op in enumerate(case["ops"]) if op[0] in ("rot_at", "disp_at", "rot_back")]
        if inplace and "skip" not in res:
            chk.count("transform:in-place-edit" + ("" if set(inplace) & set(res.get("applied", [])) else ":no-entry-to-assign"))
            fm = [n_op for n_op, op in enumerate(case["ops"]) if op[0] == "format"]
            if any(fm[0] < n_op < fm[-1] for n_op in res.get("applied", [])):
                chk.count("transform:in-place-edit-between-writes")
        notes = []
        v = judge_tr(case, res, notes)
        for note in notes:
            chk.count("transform:" + note)
        if v is not None:
            r2 = run_impl_tr(case)
            v2 = judge_tr(case, r2)
            if v2 is None or v2[0] != v[0]:
                chk.count("flaky:judge-transform")
                continue
            key = canon(v[0])
            shrunk[key] = shrunk.get(key, 0) + 1
            mc, rr, what = case, r2, v2[1]
            if shrunk[key] <= 4:

                def tr_fails(c2, sig=v[0]):
                    vv = judge_tr(c2, run_impl_tr(c2))
                    return vv is not None and vv[0] == sig

                mc = shrink_tr_case(case, tr_fails)
                rr = run_impl_tr(mc)
                what = judge_tr(mc, rr)[1]
            chk.violation(v[0], what, {"case": mc, "impl": rr})
            continue  # the state of this case is not compared any further
        if i in hist_by:
            chk.traces_validated += 1
            d = tr_history_compare(res, hist_by[i])
            if d is not None:
                if chk.disagreements_checked >= MAX_CONFIRM:
                    chk.count("disagreement-not-rechecked:transform-history")
                elif _tr_history_disagreement(drv, case) != d:
                    chk.count("flaky:transform-history")
                else:
                    chk.disagreements_checked += 1

                    def hist_differs(c2):
                        return _tr_history_disagreement(drv, c2) is not None

                    mc = shrink_tr_case(case, hist_differs) if len(chk.broken) < 3 else case
                    chk.broken_obligation(
                        "correspondence",
                        "U-transform-history (Model/TransformWrite.lean run/writesOf vs the live Transform over setters, in-place assignments and writes)",
                        {"difference": _tr_history_disagreement(drv, mc) or d, "impl": run_impl_tr(mc).get("outs")},
                        mc,
                    )
                continue
        for k, o in enumerate(res.get("outs", [])):
            m = model_by.get((i, k))
            if m is None:
                continue
            chk.traces_validated += 1
            if "error" in m or m.get("read") != m.get("held"):
                chk.broken_obligation("correspondence", "C05_transform_written evaluated on the executable model", {"model": m}, o["state"])
                break
            d = tr_compare_model(o, m)
            if d is None:
                continue
            if chk.disagreements_checked >= MAX_CONFIRM:
                chk.count("disagreement-not-rechecked:transform")
                break
            r2 = run_impl_tr(case)
            o2 = r2.get("outs", [])[k] if k < len(r2.get("outs", [])) else None
            if o2 is None or o2.get("state") is None or "lines" not in o2 or tr_compare_model(o2, drv.batch([o2["state"]])[0]) != d:
                chk.count("flaky:transform")
                break
            chk.disagreements_checked += 1

            def tr_differs(c2):
                return _tr_disagreement(drv, c2) is not None

            mc = shrink_tr_case(case, tr_differs) if len(chk.broken) < 3 else case
            chk.broken_obligation(
                "correspondence",
                "U-transform (Model/TransformWrite.lean vs Transform._update_values: which entries of a TR input stay a jump)",
                {"difference": _tr_disagreement(drv, mc) or d, "impl": run_impl_tr(mc).get("outs")},
                mc,
            )
            break
    chk.units["U-transform-history"] = {"histories_compared": len(hist)}
    chk.units["U-transform"] = {"corpus": len(TR_CORPUS) + len(file_tr), "random": len(tr) - len(TR_CORPUS) - len(file_tr), "writes_compared": len(tstates)}
    if chk.thorough and not chk.broken:
        leanio.leanchecker(chk, ["MontePyVerif.Props.C05"])


def replay(chk, payload):
    case = payload.get("case", {})
    if payload.get("verdict") == "no-failing-input-found":
        case = payload["no_longer_checks"][0]["case"]
    elif "case" in case:
        case = case["case"]
    chk.rule = "replay of one stored case"
    drv = leanio.Driver(chk, "drv_c05")
    chk.note_case(case)
    unit = case.get("unit")
    if unit == "api":
        res = run_impl_api(case)
        v = judge_api(case, res)
        if v is not None:
            chk.violation(v[0], v[1], {"case": case, "impl": res})
    elif unit == "transform":
        res = run_impl_tr(case)
        v = judge_tr(case, res)
        if v is not None:
            chk.violation(v[0], v[1], {"case": case, "impl": res})
        elif drv.ok:
            d = _tr_disagreement(drv, case)
            if d is not None:
                chk.broken_obligation("correspondence", "U-transform", {"difference": d, "impl": res.get("outs")}, case)
    elif unit == "pyformat":
        ti = run_impl_pyformat(case)
        rm = drv.batch([case])[0] if drv.ok else None
        if rm is not None and rm.get("text") != ti:
            chk.broken_obligation("correspondence", "U-pyformat", {"impl": ti, "model": rm}, case)
    elif unit in ("read", "isclose"):
        pass
    else:
        res = run_impl_node(case)
        v = judge_node(case, res)
        if v is not None:
            chk.violation(v[1], v[2], {"case": case, "impl": res})
        elif drv.ok:
            rm = drv.batch([model_case(case)])[0]
            if node_texts(rm) != node_texts(res) and not node_band(case, res, rm):
                chk.broken_obligation("correspondence", "U-valueformat", {"impl": node_texts(res), "model": node_texts(rm)}, case)
    chk.add_obligation("replay", True)
