"""C06 — numbered collections never hold two objects with one number; lookups are current.

prove       : lean/MontePyVerif/Props/C06.lean (invariant by induction over operation histories)
correspond  : unit U-collection — Model/Collection.lean vs montepy.numbered_object_collection + number setters
judge       : the property's own statements evaluated on the live collection after every operation
"""

import signal

from vlib import leanio
from vlib.core import canon
from vlib.par import pmap, shrink_list

META = {
    "property_id": "C06",
    "technique": "Lean 4 proof: invariant by induction over operation histories of a hand-written model; differential correspondence model vs implementation",
    "design_ref": "6 C06",
}

THEOREMS = [
    "C06_init",
    "C06_step",
    "C06_reachable",
    "C06_get",
    "C06_get_none",
    "C06_request_free",
    "C06_next_free",
    "C06_request_first",
    "C06_offer_ignores_cache",
    "C06_conflict_noop",
    "C06_request_terminates",
    "C06_free_standing_refuted",
    "C06_free_standing_partial",
]

KINDS = ["cell", "surface", "material", "transform", "universe"]
PROBES = list(range(-1, 10))
ERRS = {"TypeError", "ValueError", "NumberConflictError", "KeyError", "IndexError"}


# --------------------------------------------------------------------------- implementation side
def make_pool(kind, numbers, content=None, foreign=None):
    """content[i]: value class of object i (objects of one class are == when their numbers are equal: a clone is a
    deepcopy-like twin built from the same text); foreign[i]: the object starts linked to ANOTHER problem."""
    from vlib import mp

    montepy = mp.montepy
    objs = []
    other = None
    for i, n in enumerate(numbers):
        i_content = i if not content else content[i]
        if kind == "cell":
            o = montepy.Cell()
            o._number.value = n  # initial numbers bypass the validator (a parsed object gets its number the same way)
        elif kind == "surface":
            o = mp.surface_from(f"{max(n, 1)} PZ {i_content}.5")  # same constants <=> same value class
            o._number.value = n
        elif kind == "material":
            o = mp.data_from(f"m{max(n, 1)} 1001.80c 0.{i_content + 1}")  # same fraction <=> same value class
            o._number.value = n
        elif kind == "transform":
            o = mp.data_from(f"tr{max(n, 1)} 0 0 {i}.5")
            o._number.value = n
        elif kind == "universe":
            o = montepy.Universe(max(n, 0))
            o._number = n
        if foreign and foreign[i]:
            if other is None:
                other = montepy.MCNP_Problem("verif-c06-other")
            o.link_to_problem(other)
        objs.append(o)
    return objs


def make_collection(kind, owned, init_objs):
    from vlib import mp

    montepy = mp.montepy
    if owned:
        p = montepy.MCNP_Problem("verif-c06")
        return p, {"cell": p.cells, "surface": p.surfaces, "material": p.materials, "transform": p.transforms, "universe": p.universes}[kind]
    cls = {
        "cell": montepy.cells.Cells,
        "surface": montepy.surface_collection.Surfaces,
        "material": montepy.materials.Materials,
        "transform": montepy.transforms.Transforms,
        "universe": montepy.universes.Universes,
    }[kind]
    return None, cls(list(init_objs))


class _Hang(Exception):
    pass


def _alarm(*a):
    raise _Hang()


def run_impl(case):
    """Execute the case on the real code; same JSON shape as the Lean driver."""
    kind, owned = case["kind"], case["owned"]
    pool = make_pool(kind, case["pool"], case.get("content"), case.get("foreign"))
    ident = {id(o): i for i, o in enumerate(pool)}

    def idx(o):
        if o is None:
            return None
        return ident.get(id(o), "foreign")

    try:
        problem, coll = make_collection(kind, owned, [pool[i] for i in case["init"]])
    except Exception as e:  # noqa: BLE001
        return {"init": type(e).__name__}

    def observe():
        if case.get("quiet"):
            # observation that cannot touch the number cache: iteration over the members only, no look-up
            # (a look-up after every step repairs a stale cache entry before the next operation can meet it:
            # seeded change C16a)
            objs = list(coll)
            return {"keys": [o.number for o in objs], "members": [idx(o) for o in objs], "gets": []}
        return {
            "keys": list(coll.keys()),
            "members": [idx(o) for o in coll.values()],
            "gets": [idx(coll.get(n)) for n in case["probes"]],
        }

    def do(op):
        nonlocal coll
        name = op[0]
        if name == "append":
            coll.append(pool[op[1]])
        elif name == "setitem":
            coll[pool[op[1]].number] = pool[op[1]]
        elif name == "append_renumber":
            return {"t": "int", "v": coll.append_renumber(pool[op[1]], op[2])}
        elif name == "extend":
            coll.extend([pool[i] for i in op[1]])
        elif name == "iadd":
            coll += [pool[i] for i in op[1]]
        elif name == "remove":
            coll.remove(pool[op[1]])
        elif name == "pop":
            return {"t": "obj", "v": idx(coll.pop(op[1]))}
        elif name == "delitem":
            del coll[op[1]]
        elif name == "clear":
            coll.clear()
        elif name == "setnum":
            pool[op[1]].number = op[2]
        elif name == "get":
            return {"t": "obj", "v": idx(coll.get(op[1]))}
        elif name == "getitem":
            return {"t": "obj", "v": idx(coll[op[1]])}
        elif name == "contains":
            return {"t": "bool", "v": pool[op[1]] in coll}
        elif name == "numbers":
            return {"t": "ints", "v": list(coll.numbers)}
        elif name == "keys":
            return {"t": "ints", "v": list(coll.keys())}
        elif name == "items":
            return {"t": "objs", "v": [idx(o) for _, o in coll.items()]}
        elif name == "len":
            return {"t": "int", "v": len(coll)}
        elif name == "check_number":
            coll.check_number(op[1])
        elif name == "request_number":
            return {"t": "int", "v": coll.request_number(op[1], op[2])}
        elif name == "next_number":
            return {"t": "int", "v": coll.next_number(op[1])}
        elif name == "slice":
            return {"t": "objs", "v": [idx(o) for o in coll[op[1] : op[2]].values()]}
        else:
            raise AssertionError(name)
        return {"t": "ok"}

    res = {"init": observe(), "steps": []}
    old = signal.signal(signal.SIGALRM, _alarm)
    try:
        for op in case["ops"]:
            signal.setitimer(signal.ITIMER_REAL, 30.0)  # generous: the machine may be heavily loaded
            try:
                out = do(op)
            except _Hang:
                out = {"t": "hang"}
            except Exception as e:  # noqa: BLE001
                n = type(e).__name__
                out = {"t": "err", "v": n if n in ERRS else "leak:" + n}
            finally:
                signal.setitimer(signal.ITIMER_REAL, 0)
            res["steps"].append({"out": out, "obs": observe()})
            if out["t"] == "hang":
                break
    finally:
        signal.signal(signal.SIGALRM, old)
    return res


# --------------------------------------------------------------------------- oracle (the property itself)
def judge(case, res):
    """First violation of C06's own statements on the observations of the real code, or None."""
    if not isinstance(res.get("init"), dict):
        return None
    prev = res["init"]
    base = {"mechanism": "collection", "kind_owned": "owned" if case["owned"] else "free-standing"}
    for k, (op, st) in enumerate(zip(case["ops"], res["steps"])):
        out, obs = st["out"], st["obs"]
        keys, members = obs["keys"], obs["members"]
        sig = None
        if len(set(keys)) != len(keys) or len(set(map(str, members))) != len(members):
            sig = dict(base, **{"class": "duplicate-number", "op": op[0]})
        else:
            for n, g in zip(case["probes"], obs["gets"]):
                want = members[keys.index(n)] if n in keys else None
                if g != want:
                    sig = dict(base, **{"class": "stale-lookup", "op": op[0]})
                    break
        if sig is None and op[0] in ("request_number", "next_number") and out["t"] == "int" and out["v"] in keys:
            sig = dict(base, **{"class": "offered-number-in-use", "op": op[0]})
        if sig is None and out == {"t": "err", "v": "NumberConflictError"}:
            if prev["members"] != members or prev["keys"] != keys or prev["gets"] != obs["gets"]:
                sig = dict(base, **{"class": "conflict-not-noop", "op": op[0]})
        if sig is None and op[0] == "contains" and out["t"] == "bool":
            # members of the state BEFORE the step (contains changes nothing)
            if out["v"] != (op[1] in prev["members"]) and not case.get("content"):
                sig = dict(base, **{"class": "stale-lookup", "op": "contains"})
        if sig is None and op[0] == "get" and out["t"] == "obj":
            want = members[keys.index(op[1])] if op[1] in keys else None
            if out["v"] != want:
                sig = dict(base, **{"class": "stale-lookup", "op": "get"})
        if sig is not None:
            return k, sig
        prev = obs
    return None


# --------------------------------------------------------------------------- generators
def op_alphabet(nobj, numbers):
    ops = []
    for o in range(nobj):
        ops += [["append", o], ["remove", o], ["append_renumber", o, 1], ["contains", o]]
        for n in numbers:
            ops.append(["setnum", o, n])
    for n in numbers:
        ops += [["get", n], ["delitem", n], ["check_number", n], ["request_number", n, 1]]
    ops += [["pop", -1], ["pop", 0], ["clear"], ["numbers"], ["next_number", 1]]
    ops += [["extend", [0, 1]], ["iadd", [1, 2]], ["extend", [2, 2]], ["iadd", [0, 0]]]
    return ops


def gen_random_case(rng, i):
    kind = KINDS[i % len(KINDS)]
    owned = rng.random() < 0.7
    nobj = rng.randint(3, 6)
    pool = [rng.randint(1, 5) for _ in range(nobj)]
    init = []
    if not owned:
        cand = list(range(nobj))
        rng.shuffle(cand)
        seen = set()
        for o in cand[: rng.randint(0, nobj)]:
            if pool[o] not in seen or rng.random() < 0.05:
                init.append(o)
                seen.add(pool[o])
    content = list(range(nobj))
    if kind in ("surface", "material") and rng.random() < 0.5:
        # value-equal twins: Surface/Material compare by value, so `remove`, `in`, `index` can pick the twin
        for o in range(1, nobj):
            if rng.random() < 0.35:
                content[o] = content[rng.randrange(o)]
                if rng.random() < 0.7:
                    pool[o] = pool[content.index(content[o])]
    foreign = [False] * nobj
    if owned and rng.random() < 0.3:
        # objects that arrive linked to another problem (moved between problems, deep copies)
        foreign = [rng.random() < 0.4 and o not in init for o in range(nobj)]
    ops = []
    for _ in range(rng.randint(1, 30)):
        r = rng.random()
        o = rng.randrange(nobj)
        n = rng.choice([1, 2, 3, 4, 5, 6, 7, 0, -1]) if rng.random() < 0.9 else rng.randint(-2, 9)
        if r < 0.16:
            ops.append(["append", o])
        elif r < 0.20:
            ops.append(["setitem", o])
        elif r < 0.28:
            ops.append(["append_renumber", o, rng.choice([1, 1, 2, 3, -1, 0, 5])])
        elif r < 0.36:
            ops.append(["extend", [rng.randrange(nobj) for _ in range(rng.randint(0, 3))]])
        elif r < 0.44:
            ops.append(["iadd", [rng.randrange(nobj) for _ in range(rng.randint(0, 3))]])
        elif r < 0.50:
            ops.append(["remove", o])
        elif r < 0.55:
            ops.append(["pop", rng.choice([-1, 0, 1, -2, 5, -7])])
        elif r < 0.60:
            ops.append(["delitem", n])
        elif r < 0.62:
            ops.append(["clear"])
        elif r < 0.80:
            # free-standing member renumbering is the known finding C06-F1: keep it rare so it does not mask the rest
            if owned or rng.random() < 0.15:
                ops.append(["setnum", o, n])
            else:
                ops.append(["get", n])
        elif r < 0.84:
            ops.append(["get", n])
        elif r < 0.86:
            ops.append(["getitem", n])
        elif r < 0.88:
            ops.append(["contains", o])
        elif r < 0.90:
            ops.append([rng.choice(["numbers", "keys", "items", "len"])])
        elif r < 0.92:
            ops.append(["check_number", n])
        elif r < 0.95:
            ops.append(["request_number", n, rng.choice([1, 1, 2, -1, 0, 3])])
        elif r < 0.97:
            ops.append(["next_number", rng.choice([1, 2, 0, -1, 5])])
        else:
            a = rng.randint(-1, 5)
            ops.append(["slice", a, a + rng.randint(-1, 6)])
    case = {"kind": kind, "owned": owned, "pool": pool, "init": init, "probes": PROBES, "ops": ops}
    if i % 3 == 1:
        # no look-ups between the steps: what an operation leaves in the cache is met by the next operation
        case["quiet"] = True
        case["probes"] = []
        case["ops"] = [op if rng.random() < 0.7 else ["contains", rng.randrange(nobj)] for op in ops] + [["contains", o] for o in range(nobj)]
    if content != list(range(nobj)):
        case["content"] = content
        # a free-standing collection cannot start with two == members of one number: keep init consistent
        seen = set()
        case["init"] = [o for o in init if (pool[o]) not in seen and not seen.add(pool[o])]
    if any(foreign):
        case["foreign"] = foreign
    return case


def gen_exhaustive(depth, kinds, prefix=(), quiet=False):
    """All histories of length <= depth over the alphabet; with `prefix` they start from a populated collection;
    `quiet` = no look-up between the steps (what one operation leaves in the cache is met by the next)."""
    pool = [1, 1, 2]
    alpha = op_alphabet(3, [1, 2, 3])

    def rec(prefix, d):
        if d == 0:
            yield prefix
            return
        for op in alpha:
            yield from rec(prefix + [op], d - 1)

    for kind in kinds:
        for d in range(1, depth + 1):
            for ops in rec([], d):
                case = {"kind": kind, "owned": True, "pool": pool, "init": [], "probes": [0, 1, 2, 3, 4], "ops": [list(op) for op in prefix] + ops}
                if quiet:
                    case["quiet"] = True
                    case["probes"] = []
                yield case


# the doors through which a collection gets its members (each leaves the number cache in a different state:
# append and += cache every new member, extend caches none, append_renumber caches under the final number)
def _populate(rng, members):
    r = rng.random()
    if r < 0.35:
        return [["append", o] for o in members]
    if r < 0.55:
        return [["extend", list(members)]]
    if r < 0.70:
        return [["iadd", list(members)]]
    if r < 0.85:
        k = rng.randint(0, len(members))
        return [["append", o] for o in members[:k]] + ([["extend", list(members[k:])]] if members[k:] else [])
    return [["append_renumber", o, 1] for o in members]


def gen_edit_then_query(rng, i):
    """An edit followed at once by queries aimed at the numbers the edit touched, with NOTHING in between that walks
    the collection (quiet case: members are read by iteration only). Every answer of the collection that may come
    from the number cache (get, [], del, slices, `in`, check_number, request_number, next_number, append_renumber)
    is asked in the window in which the cache still describes the state before the edit (seeded C06e: request_number
    answered from the cache right after a number assignment). Owned collections mostly; members have distinct
    numbers; the pool keeps free objects for the entry doors."""
    kind = KINDS[i % len(KINDS)]
    owned = rng.random() < 0.85
    nobj = rng.randint(3, 6)
    pool = rng.sample(range(1, 8), nobj) if rng.random() < 0.8 else [rng.randint(1, 5) for _ in range(nobj)]
    nmem = rng.randint(1, nobj - 1) if rng.random() < 0.8 else nobj
    order = list(range(nobj))
    rng.shuffle(order)
    members, seen = [], set()
    for o in order[:nmem]:
        if pool[o] not in seen:
            members.append(o)
            seen.add(pool[o])
    init, ops = [], []
    if owned:
        ops += _populate(rng, members)
    else:
        init = list(members)
    # the harness's own book-keeping of the numbers (only to aim the queries; verdicts come from the observations)
    num = {o: pool[o] for o in range(nobj)}
    mem = list(members)

    def free_number():
        used = {num[o] for o in mem}
        cand = [n for n in range(1, 10) if n not in used]
        return rng.choice(cand) if cand and rng.random() < 0.85 else rng.randint(1, 9)

    for _ in range(rng.randint(1, 5)):
        touched = []
        r = rng.random()
        if r < 0.55 and mem and (owned or rng.random() < 0.3):
            o = rng.choice(mem)
            n = free_number()
            if rng.random() < 0.3:
                # close a gap / compact: the member takes the lowest number the collection would offer
                used = {num[x] for x in mem}
                n = next(k for k in range(1, 20) if k not in used)
            ops.append(["setnum", o, n])
            touched += [num[o], n]
            if n not in {num[x] for x in mem if x != o}:
                num[o] = n
        elif r < 0.65 and mem:
            o = rng.choice(mem)
            ops.append(["remove", o])
            touched.append(num[o])
            mem.remove(o)
        elif r < 0.72 and mem:
            pos = rng.choice([-1, 0])
            ops.append(["pop", pos])
            o = mem.pop(pos)
            touched.append(num[o])
        elif r < 0.78 and mem:
            o = rng.choice(mem)
            ops.append(["delitem", num[o]])
            touched.append(num[o])
            mem.remove(o)
        elif r < 0.90:
            out = [o for o in range(nobj) if o not in mem]
            if out:
                o = rng.choice(out)
                door = rng.choice(["append", "setitem", "append_renumber", "extend", "iadd"])
                used = {num[x] for x in mem}
                touched.append(num[o])
                if door == "append_renumber":
                    k = rng.choice([1, 1, 2])
                    ops.append([door, o, k])
                    while num[o] in used:
                        num[o] += k
                    touched.append(num[o])
                    mem.append(o)
                else:
                    ops.append([door, [o]] if door in ("extend", "iadd") else [door, o])
                    if num[o] not in used:
                        mem.append(o)
            else:
                ops.append(["clear"])
                touched += [num[x] for x in mem]
                mem = []
        else:
            o = rng.randrange(nobj)
            n = free_number()
            ops.append(["setnum", o, n])
            touched += [num[o], n]
            if o not in mem or n not in {num[x] for x in mem if x != o}:
                num[o] = n
        touched = touched or [1]
        for _ in range(rng.randint(1, 3)):
            t = rng.choice(touched)
            q = rng.random()
            if q < 0.40:
                # a walk that starts at the touched number, or below it and reaches it by steps
                k = rng.choice([1, 1, 1, 2, -1])
                back = rng.choice([0, 0, 1, 2, 3]) if rng.random() < 0.7 else t - 1
                ops.append(["request_number", t - k * back, k])
            elif q < 0.50:
                ops.append(["next_number", rng.choice([1, 1, 2])])
            elif q < 0.60:
                ops.append(["check_number", t])
            elif q < 0.72:
                ops.append(["get", t])
            elif q < 0.78:
                ops.append(["getitem", t])
            elif q < 0.84:
                ops.append(["slice", t - rng.randint(0, 1), t + rng.randint(0, 2)])
            elif q < 0.92:
                ops.append(["contains", rng.randrange(nobj)])
            else:
                out = [o for o in range(nobj) if o not in mem]
                if out:
                    o = rng.choice(out)
                    ops.append(["append_renumber", o, 1])
                    used = {num[x] for x in mem}
                    while num[o] in used:
                        num[o] += 1
                    mem.append(o)
                else:
                    ops.append(["request_number", 1, 1])
    ops += [["contains", o] for o in range(nobj)]
    return {"kind": kind, "owned": owned, "pool": pool, "init": init, "probes": [], "quiet": True, "ops": ops}


CORPUS = [
    # seeded C16a: membership answered from a number cache that a renumbering left stale (no look-up in between)
    {"kind": "surface", "owned": True, "pool": [1, 2], "init": [], "probes": [], "quiet": True,
     "ops": [["append", 0], ["append", 1], ["contains", 0], ["contains", 1], ["setnum", 0, 7], ["setnum", 1, 1], ["contains", 1], ["contains", 0]]},
    {"kind": "cell", "owned": True, "pool": [1, 2, 3], "init": [], "probes": [], "quiet": True,
     "ops": [["extend", [0, 1, 2]], ["contains", 2], ["setnum", 0, 9], ["setnum", 2, 1], ["contains", 2], ["remove", 2], ["contains", 2]]},
    # minimised histories of the defects repaired by the fix: commits (see known_findings.json "fixed")
    {"kind": "cell", "owned": True, "pool": [1, 1], "init": [], "probes": PROBES, "ops": [["extend", [0, 1]]]},
    {"kind": "cell", "owned": True, "pool": [2, 5, 2], "init": [], "probes": PROBES, "ops": [["append", 0], ["iadd", [1, 2]], ["get", 5]]},
    {"kind": "cell", "owned": True, "pool": [1, 5], "init": [], "probes": [9], "ops": [["append", 0], ["append", 1], ["get", 5], ["setnum", 1, 7], ["remove", 1], ["setnum", 1, 5], ["get", 5]]},
    {"kind": "surface", "owned": True, "pool": [1, 2], "init": [], "probes": PROBES, "ops": [["append", 0], ["append", 1], ["setnum", 1, 1]]},
    {"kind": "transform", "owned": True, "pool": [1, 2], "init": [], "probes": PROBES, "ops": [["append", 0], ["append", 1], ["setnum", 1, 1]]},
    {"kind": "cell", "owned": True, "pool": [1], "init": [], "probes": PROBES, "ops": [["append", 0], ["request_number", 1, 0]]},
    {"kind": "cell", "owned": True, "pool": [1], "init": [], "probes": PROBES, "ops": [["next_number", 1]]},
    {"kind": "cell", "owned": True, "pool": [3], "init": [], "probes": PROBES, "ops": [["append", 0], ["append_renumber", 0, 1]]},
    # seeded/C06a: remove() given an equal twin must drop the member it found, not the argument, from the cache
    {"kind": "surface", "owned": True, "pool": [5, 5], "content": [0, 0], "init": [], "probes": PROBES, "ops": [["append", 0], ["get", 5], ["remove", 1], ["get", 5]]},
    {"kind": "material", "owned": True, "pool": [2, 2], "content": [0, 0], "init": [], "probes": PROBES, "ops": [["append", 0], ["get", 2], ["remove", 1], ["get", 2], ["contains", 0]]},
    # seeded/C06b: an object that arrives linked to another problem is re-linked on append
    {"kind": "cell", "owned": True, "pool": [1, 2, 10], "foreign": [False, False, True], "init": [], "probes": PROBES, "ops": [["append", 0], ["append", 1], ["append", 2], ["setnum", 2, 2]]},
    {"kind": "surface", "owned": True, "pool": [1, 10], "foreign": [False, True], "init": [], "probes": PROBES, "ops": [["append", 0], ["setitem", 1], ["setnum", 1, 1]]},
    # seeded C06e: request_number answered from the number cache right after a number assignment (the cache still
    # holds the old number and not the new one; nothing walked the collection in between): same start; reached by
    # steps; closing a gap with the lowest free number and asking again; members that came in through extend
    {"kind": "cell", "owned": True, "pool": [4], "init": [], "probes": [], "quiet": True,
     "ops": [["append", 0], ["setnum", 0, 6], ["request_number", 6, 1]]},
    {"kind": "surface", "owned": True, "pool": [1, 2, 5], "init": [], "probes": [], "quiet": True,
     "ops": [["extend", [0, 1, 2]], ["setnum", 2, 3], ["request_number", 1, 1], ["next_number", 1]]},
    {"kind": "material", "owned": True, "pool": [1, 3], "init": [], "probes": [], "quiet": True,
     "ops": [["append", 0], ["append", 1], ["setnum", 1, 10], ["request_number", 10, 1], ["request_number", 3, 1]]},
    {"kind": "transform", "owned": True, "pool": [1, 2, 7, 3], "init": [], "probes": [], "quiet": True,
     "ops": [["iadd", [0, 1, 2]], ["setnum", 2, 3], ["request_number", 1, 2], ["append_renumber", 3, 1], ["contains", 3]]},
    # known finding C06-F1
    {"kind": "cell", "owned": False, "pool": [1, 2], "init": [0, 1], "probes": PROBES, "ops": [["setnum", 1, 1]]},
]


def _nontrivial(case):
    muts = {"append", "setitem", "append_renumber", "extend", "iadd", "remove", "pop", "delitem", "clear", "setnum"}
    return sum(1 for op in case["ops"] if op[0] in muts) >= 2 or len(case["ops"]) >= 2


# --------------------------------------------------------------------------- the check
def run(chk):
    chk.rule = (
        "cases are operation histories on a pool of 3-6 objects with colliding numbers, on all five collection "
        "types, owned by a problem or free-standing; after every operation keys(), values() and get(n) for "
        "n in -1..9 are observed (a third of the random cases and the families 'edit then query' / 'populated, quiet' "
        "read the members by iteration only, so that a query meets the cache exactly as the edit before it left it). "
        "A case is non-trivial if it has >= 2 operations; distinct = distinct canonical JSON."
    )
    chk.assumptions = [
        "Python == on members is modelled by value classes (St.content): surfaces/materials of one class are == while their numbers are equal; other kinds compare by identity",
        "objects linked to another problem are linked to an EMPTY other problem (its collection never rejects a number)",
        "a collection owned by a problem starts empty (as MCNP_Problem.__init__ creates it); NumberedObjectCollection(objects, problem) with a non-empty list is not in the model",
        "slices are modelled for step 1 with both ends given",
    ]
    chk.trusted_base = [
        "Lean 4.33.0 kernel",
        "hand-written model lean/MontePyVerif/Model/Collection.lean, tied to the code by the U-collection correspondence of this run",
        "harness tools/props/c06.py (calls the real collection methods and number setters in-process)",
    ]
    leanio.prove(chk, "MontePyVerif.Props.C06", THEOREMS, "MontePyVerif.Collection")
    if chk.thorough:
        leanio.leanchecker(chk, ["MontePyVerif.Props.C06"])
    drv = leanio.Driver(chk, "drv_c06")

    rng = chk.rng("random")
    cases = list(CORPUS)
    ncorpus = len(cases)
    cases += [gen_random_case(rng, i) for i in range(chk.pick(3000, 120000))]
    nrandom = len(cases) - ncorpus
    rng2 = chk.rng("edit-then-query")
    etq = [gen_edit_then_query(rng2, i) for i in range(chk.pick(2000, 60000))]
    cases += etq
    exh = list(gen_exhaustive(chk.pick(2, 3), chk.pick(["cell", "surface", "universe"], KINDS)))
    if chk.thorough:
        # depth 3 over the full alphabet is 50^3 per kind: keep every kind at depth 2 and a strided sample of depth 3
        exh = [c for j, c in enumerate(exh) if len(c["ops"]) < 3 or j % 7 == chk.seed % 7]
    cases += exh
    # every (edit, query) pair of the alphabet on a populated collection with no look-up in between, for each entry door
    exq = []
    for prefix in ([["append", 0], ["append", 2]], [["extend", [0, 2]]]):
        exq += [c for c in gen_exhaustive(2, chk.pick(["cell", "surface", "universe"], KINDS), prefix, quiet=True) if len(c["ops"]) == len(prefix) + 2]
    cases += exq
    chk.units["U-collection"] = {"corpus": ncorpus, "random": nrandom, "edit_then_query": len(etq), "exhaustive_small": len(exh), "exhaustive_populated_quiet": len(exq)}
    chk.exhaustive = False

    impl = pmap(run_impl, cases)
    model = drv.batch(cases)

    nsig, ndis = {}, 0
    for i, (case, ri) in enumerate(zip(cases, impl)):
        chk.note_case(case, _nontrivial(case), sample_every=5000)
        chk.count("kind:" + case["kind"])
        chk.count("owned" if case["owned"] else "free-standing")
        for op, st in zip(case["ops"], ri.get("steps", [])):
            chk.count("op:" + op[0])
            o = st["out"]
            chk.count("out:" + (o["v"] if o["t"] == "err" else o["t"]))
        verdict = judge(case, ri)
        if verdict is not None:
            # confirm in this process before reporting (a loaded machine must not produce a verdict)
            ri = run_impl(case)
            verdict = judge(case, ri)
            if verdict is None:
                chk.count("flaky:violation-not-reproduced")
        judged_upto = len(case["ops"])
        if verdict is not None:
            k, sig = verdict
            judged_upto = k + 1

            def fails(ops, sig=sig, case=case):
                c = dict(case, ops=ops)
                v = judge(c, run_impl(c))
                return v is not None and v[1] == sig

            # minimise the first few histories of a signature; later ones are counted (and kept if shorter)
            nsig[canon(sig)] = nsig.get(canon(sig), 0) + 1
            ops = shrink_list(case["ops"][: k + 1], fails) if nsig[canon(sig)] <= 4 else case["ops"][: k + 1]
            mc = dict(case, ops=ops)
            chk.violation(sig, f"{sig['class']} after {sig['op']} on a {sig['kind_owned']} collection", {"case": mc, "impl": run_impl(mc)})
        if model is not None:
            chk.traces_validated += 1
            rm = model[i]
            # once the property itself is violated (known finding or new), the rest of the history is not compared
            a = _truncate(ri, judged_upto)
            b = _truncate(rm, judged_upto)
            if a != b:
                chk.disagreements_checked += 1
                ri2 = run_impl(case)
                if _truncate(ri2, judged_upto) == b:
                    chk.count("flaky:disagreement-not-reproduced")
                    continue

                def differs(ops, case=case):
                    c = dict(case, ops=ops)
                    return run_impl(c) != drv.batch([c])[0]

                # (chk.broken merges by unit name: count here, so that only the first few disagreements are minimised)
                ndis += 1
                ops = shrink_list(case["ops"][:judged_upto], differs) if ndis <= 3 else case["ops"][:judged_upto]
                mc = dict(case, ops=ops)
                chk.broken_obligation(
                    "correspondence",
                    "U-collection (Model/Collection.lean vs numbered_object_collection.py)",
                    {"impl": run_impl(mc), "model": drv.batch([mc])[0]},
                    mc,
                )


def _truncate(res, n):
    if not isinstance(res.get("init"), dict):
        return res
    return {"init": res["init"], "steps": res["steps"][:n]}


def replay(chk, payload):
    case = payload.get("case", {}).get("case") or payload.get("case")
    if case is None and "ops" in payload and "kind" in payload:
        case = payload  # a bare case, as stored under corpus/C06/
    if payload.get("verdict") == "no-failing-input-found":
        case = payload["no_longer_checks"][0]["case"]
    chk.rule = "replay of one stored case"
    drv = leanio.Driver(chk, "drv_c06")
    ri = run_impl(case)
    chk.note_case(case)
    v = judge(case, ri)
    if v is not None:
        chk.violation(v[1], f"{v[1]['class']} after {v[1]['op']}", {"case": case, "impl": ri})
    elif drv.ok and drv.batch([case])[0] != ri:
        chk.broken_obligation("correspondence", "U-collection", {"impl": ri, "model": drv.batch([case])[0]}, case)
    chk.add_obligation("replay", True)
