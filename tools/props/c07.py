"""C07 — untouched inputs and tokens are written verbatim; edits stay local.

prove       : Props/C07.lean — locality as a theorem about the writer loop: an edit that changes only objects in a
              set A changes the written lines only of the objects whose formatter reads A (frame theorem, unbounded);
              leaf echo: an unchanged leaf formats to its token (from C05's model when present).
              Props/C07Columns.lean — on C05's model of ValueNode.format: an unchanged leaf is token + padding verbatim;
              a changed leaf whose new text fits is written in exactly the columns the old text and its blanks
              occupied (later tokens keep their columns); otherwise one blank follows and no padding item is lost.
correspond  : the read-sets assumed by the theorem are checked on the real code (which inputs change under which edit).
judge       : word-level diff (case-insensitive) between the unedited write and the edited write of the same problem,
              per input as MCNP's rules split them: every differing input must be in the property's own `affected`
              set, and inside an affected input the number of differing words is bounded by what the edit can touch.
"""

from vlib import edits, genprob, leanio, spec, wholefile
from vlib.core import chash
from vlib.par import pmap

META = {
    "property_id": "C07",
    "technique": "Lean 4 proof (frame theorem of the writer loop: edits stay local to the readers of the edited objects) + word-level differential runs judged by the independent reader",
    "design_ref": "6 C07",
}

THEOREMS = [
    "Local.C07_local",
    "Local.C07_local_history",
    "Local.C07_untouched_verbatim",
    "C07Columns.C07_leaf_echo",
    "C07Columns.C07_columns",
    "C07Columns.C07_columns_grow",
]

PER_CELL = ("imp", "vol", "u", "lat", "fill")

# how many words of one affected input an edit may change (own number, a reference, a value with its key;
# an importance edit on a shared entry `imp:n,p=1` has to split it into `imp:p=1 imp:n=x`: key and value of both)
BUDGET = {
    "cell_number": 1, "surface_number": 1, "material_number": 1, "transform_number": 1, "universe_number": 2,
    # an entry that stood inside a shortcut (3J, 2R) splits it: up to three words (J 9.0 J) replace one
    "importance": 6, "importance_all": 10, "volume": 3, "atom_density": 1, "mass_density": 1,
    "surface_constant": 1, "location": 1, "radius": 1, "fraction": 1, "displacement": 3,
    # a region edit adds an operator and an operand and may add or drop parentheses around what was there
    "geometry_and": 8, "geometry_or": 8,
}


def run_case(case):
    import random
    import warnings

    warnings.simplefilter("ignore")
    limit, text = case["limit"], case["text"]
    with wholefile.Scratch() as sc:
        try:
            p0 = wholefile.read_text(text, limit, sc)
            p1 = wholefile.read_text(text, limit, sc, "in1.imcnp")
            # the setting where per-cell data are printed is part of the starting state of both writes
            for e in case.get("prefix", []):
                edits.apply(p0, e)
                edits.apply(p1, e)
            w0 = wholefile.write_text(p0, sc, "w0.imcnp")
            twin = wholefile.read_text(text, limit, sc, "in2.imcnp")
            for e in case.get("prefix", []):
                edits.apply(twin, e)
            owners = wholefile.object_lines(twin)["data_owner"]
        except Exception as e:  # noqa: BLE001
            return {"skip": type(e).__name__ + ": " + str(e)[:100]}
        rng = random.Random(case["seed"])
        script, aff, renum = [], [], []
        try:
            for _ in range(case["nedits"]):
                e = edits.gen_edit(rng, p1, case.get("kinds"))
                if e is None:
                    break
                a = edits.affected(p1, e)
                if e[0].endswith("_number"):
                    coll = {"cell_number": p1.cells, "surface_number": p1.surfaces, "material_number": p1.materials,
                            "transform_number": p1.transforms, "universe_number": p1.universes}[e[0]]
                    renum.append([coll.objects[e[1]].number, e[2]])
                edits.apply(p1, e)
                script.append(e)
                aff.append(sorted(map(lambda x: list(x) if isinstance(x, tuple) else x, a), key=str))
        except Exception as e:  # noqa: BLE001
            return {"skip": "edit raised " + type(e).__name__ + ": " + str(e)[:100], "script": script}
        try:
            w1 = wholefile.write_text(p1, sc, "w1.imcnp")
        except Exception as e:  # noqa: BLE001
            return {"skip": "edited write raised " + type(e).__name__ + ": " + str(e)[:100], "script": script}
    return {"w0": w0, "w1": w1, "script": script, "affected": aff, "data_owner": owners, "renumberings": renum}


def _inside_parentheses(text, comment, dollar=True):
    """does the comment `comment` ($ comment, or C comment line) of the written file `text` stand inside a pair of
    parentheses of its input (between an opening parenthesis and the one that closes it)?  Used only to narrow the
    signature of a lost comment: parentheses that a region edit makes redundant are dropped together with what
    hangs on them."""
    lines = text.split("\n")

    def is_c(l):
        t = l.lstrip(" ")
        return len(l) - len(t) < 5 and t[:1] in ("c", "C") and (len(t) == 1 or t[1] == " ")

    for k, line in enumerate(lines):
        if dollar:
            if is_c(line) or "$" not in line or line.split("$", 1)[1].strip() != comment.strip():
                continue
            here = line.split("$", 1)[0]
        else:
            if not is_c(line) or line.lstrip(" ")[1:].strip() != comment.strip():
                continue
            here = ""
        j = k
        while j > 0 and (is_c(lines[j]) or lines[j][:5].strip() == "" or lines[j - 1].rstrip().endswith("&")):
            j -= 1
        before = " ".join(l.split("$", 1)[0] for l in lines[j:k] if not is_c(l)) + " " + here
        if before.count("(") > before.count(")"):
            return True
    return False


def _words(card):
    return [w.lower() for w in card["words"]]


def _digits(w):
    import re

    m = re.fullmatch(r"([^0-9]*)([0-9]+)([^0-9]*)", w)
    return (m.group(1), int(m.group(2)), m.group(3)) if m else None


def _explained(x, y, renum):
    dx, dy = _digits(x), _digits(y)
    return bool(dx and dy and dx[0] == dy[0] and dx[2] == dy[2] and any(dx[1] == o and dy[1] == nw for o, nw in renum))


def _ndiff(a, b, renum=()):
    """number of differing words that a renumbering old->new of a referenced object does not explain
    (aligned with difflib; inserted and deleted words count one each)"""
    import difflib

    positional = None
    if len(a) == len(b):
        positional = sum(1 for x, y in zip(a, b) if x != y and not _explained(x, y, renum))
    n = 0
    for tag, i1, i2, j1, j2 in difflib.SequenceMatcher(a=a, b=b, autojunk=False).get_opcodes():
        if tag == "equal":
            continue
        xs, ys = a[i1:i2], b[j1:j2]
        if tag == "replace" and len(xs) == len(ys):
            n += sum(1 for x, y in zip(xs, ys) if not _explained(x, y, renum))
        elif tag == "replace":
            # a renumbered reference next to inserted words (`fill 24` -> `fill 36 VOL 10`): the pairs a renumbering
            # explains, aligned from the left or from the right, do not count
            left = sum(1 for x, y in zip(xs, ys) if _explained(x, y, renum))
            right = sum(1 for x, y in zip(reversed(xs), reversed(ys)) if _explained(x, y, renum))
            n += max(len(xs), len(ys)) - max(left, right)
        else:
            n += max(len(xs), len(ys))
    return n if positional is None else min(n, positional)


def judge(case, r, cards):
    out = []
    if "skip" in r:
        return out
    c0, c1 = cards
    aff = set()
    for a in r["affected"]:
        for x in a:
            aff.add(tuple(x) if isinstance(x, list) else x)
    budget = sum(BUDGET.get(e[0], 2) for e in r["script"] if not e[0].endswith("_number"))
    # chains old->mid->new of successive renumberings of one object are closed transitively
    renum = [tuple(x) for x in r.get("renumberings", [])]
    for _ in range(len(renum)):
        renum += [(a, d) for a, b in renum for c, d in renum if b == c and (a, d) not in renum]
    kinds = sorted({e[0] for e in r["script"]})
    base = {"mechanism": "locality", "edits": kinds[0] if len(kinds) == 1 else "script"}
    if c0["title"] != c1["title"] and "title" not in aff:
        out.append((dict(base, **{"class": "untouched-input-changed", "input": "title"}), "title changed"))
    if [m for m in c0["message"]] != [m for m in c1["message"]]:
        out.append((dict(base, **{"class": "untouched-input-changed", "input": "message"}), "message changed"))
    owners = r["data_owner"]
    for blk, tag in (("cells", "cell"), ("surfaces", "surface"), ("data", "data")):
        if blk == "data" and "celldata" in aff and len(c0[blk]) != len(c1[blk]):
            # per-cell data cards may be split, combined, created or dropped when per-cell data are edited:
            # compare the other data cards, in order
            def other(cs):
                return [c for c in cs if not (_words(c) and _words(c)[0].lstrip("*").split(":")[0].rstrip("0123456789") in PER_CELL)]

            if [(_words(c), c["dollar"], c["ccomments"]) for c in other(c0[blk])] != [(_words(c), c["dollar"], c["ccomments"]) for c in other(c1[blk])]:
                if not any(a[0] == "data" for a in aff if isinstance(a, tuple)):
                    out.append((dict(base, **{"class": "untouched-input-changed", "input": "data"}), "a data input that lists no per-cell data changed while per-cell cards were re-arranged"))
            continue
        if len(c0[blk]) != len(c1[blk]):
            out.append((dict(base, **{"class": "input-count-changed", "input": tag}), f"{blk}: {len(c0[blk])} -> {len(c1[blk])} inputs"))
            continue
        for i, (x, y) in enumerate(zip(c0[blk], c1[blk])):
            wx, wy = _words(x), _words(y)
            same_words = wx == wy
            same_comments = x["dollar"] == y["dollar"] and x["ccomments"] == y["ccomments"]
            if same_words and same_comments:
                continue
            key = (tag, i)
            if tag == "data":
                o = owners[i] if i < len(owners) else "modifier"
                name = wx[0].lstrip("*") if wx else ""
                percell = name.split(":")[0].rstrip("0123456789") in PER_CELL
                allowed = (("data", o) in aff) or (("celldata" in aff) and (o == "modifier" or percell))
            else:
                allowed = key in aff
            if not allowed:
                cls = "untouched-input-changed" if not same_words else "untouched-comments-changed"
                out.append((dict(base, **{"class": cls, "input": tag}),
                            f"{tag}[{i}] is not affected by {r['script']} but changed: {' '.join(x['words'])[:80]!r} -> {' '.join(y['words'])[:80]!r}"))
            else:
                if not same_comments:
                    lost = [c for c in x["dollar"] if c not in y["dollar"]]
                    lost_c = [c for c in x["ccomments"] if c not in y["ccomments"]]
                    gained = [c for c in y["dollar"] if c not in x["dollar"]] + [c for c in y["ccomments"] if c not in x["ccomments"]]
                    cause = "none"
                    if tag == "cell" and (lost or lost_c) and not gained \
                            and all(e[0] in ("geometry_and", "geometry_or") or e[0].endswith("_number") for e in r["script"]) \
                            and all(_inside_parentheses(r.get("w0") or "", c) for c in lost) \
                            and all(_inside_parentheses(r.get("w0") or "", c, dollar=False) for c in lost_c):
                        cause = "comment-inside-parentheses-of-edited-region"
                    out.append((dict(base, **{"class": "comments-of-edited-input-changed", "input": tag, "cause": cause}),
                                f"{tag}[{i}] comments {x['dollar']}/{x['ccomments']} -> {y['dollar']}/{y['ccomments']}"))
                n = _ndiff(wx, wy, renum)
                if n > budget and not (tag == "data" and "celldata" in aff):
                    out.append((dict(base, **{"class": "too-many-words-changed", "input": tag}),
                                f"{tag}[{i}]: {n} words differ, the edits {r['script']} can touch at most {budget}: {' '.join(x['words'])[:80]!r} -> {' '.join(y['words'])[:80]!r}"))
    # de-duplicate by signature
    seen, res = set(), []
    for sig, what in out:
        k = str(sorted(sig.items()))
        if k not in seen:
            seen.add(k)
            res.append((sig, what))
    return res


# fixed histories that run first (minimised from independently seeded breaking changes, see seeded/C07a)
CORPUS_TEXT = """importances given in the data block
1 0 -1
2 0 -2 1 $ second shell
3 0 -3 2
4 0 -4 3
5 0 4

1 so 1
2 so 2
3 so 3
4 so 4

mode n p
imp:n,p 1 1 1 1 0
"""


# 580b360: one particle of a shared cell-block entry followed by a comment set apart: the comment was written twice
CORPUS_TEXT2 = """shared entry followed by a comment
138 0 -1 vol 928.9 imp:n,p 1
C cost $5
171 0 1  imp:n,p=1 $ note
     vol=2
172 0 1 #171 imp:n,p=1 $ note

1 so 1

mode n p
"""


# a $ comment between an entry and the repeat shortcut after it: expanding the shortcut repeated the comment
CORPUS_TEXT3 = """comment before a repeat shortcut
1 0 -8
2 0 8 -9
3 0 9 -10
4 0 10

8 so 1
9 so 2
10 so 3

mode n
imp:n 1.0 $ vol=2
         3r
"""


# seeded C07b: a cell whose last parameter is not a modifier; a modifier that starts printing is written behind it
CORPUS_TEXT4 = """trailing plain parameters
1 1 -2.5 -1 2 -3 imp:n=1 tmp=2.5e-8
2 0 (1:-2:3) -4 imp:n=1 u=5 tmp=3.1-8 $ warm side
3 0 4 imp:n=0

1 so 1
2 so 2
3 so 3
4 so 4

m1 1001.80c 1.0
"""


# finding C07-F1 (parentheses made redundant by a region edit are dropped with the comment that hangs on them) and
# seeded C07e (an operand appended to a one-surface geometry lands behind the $ comment that follows the surface)
CORPUS_TEXT5 = """region edits next to comments
1 0 ( $ inside redundant parentheses
        -1 )
2 0 1 $ outside world
3 0 1 -2 $ shell
4 0 (
c a comment line inside parentheses
     -2 )
99 0 2 $ the rest

1 so 1
2 so 2
3 so 3

mode n
imp:n 1 0 1 1 0
"""


# seeded C07f: a jump shortcut that covers several entries, followed by a comment; an edit gives the first of the
# jumped entries a value, the shortcut is dropped, and the comment behind it must stay with the input
CORPUS_TEXT6 = """comments behind jump shortcuts
1 0 -1
2 0 1 -2
3 0 2 -3
4 0 3 -4
5 0 4

1 so 1
2 so 2
3 so 3
4 so 4

mode n
imp:n 1 1 1 1 0
vol 3J $ shield volumes are not known
     5.25 6
tr5 3j $ no shift, rotation only
     0 1 0 -1 0 0 0 0 1
u 2j $ the first two are in the main universe
     7 7 j
"""


def gen_cases(chk):
    cases = []
    for k in range(30):
        cases.append({"name": f"corpus-jump-shortcut-comment-{k}", "limit": 128, "text": CORPUS_TEXT6, "seed": 7500 + k, "nedits": 1 + k % 2,
                      "kinds": ["volume", "displacement", "volume"]})
    for k in range(24):
        cases.append({"name": f"corpus-region-edit-comments-{k}", "limit": 128, "text": CORPUS_TEXT5, "seed": 7400 + k, "nedits": 1,
                      "kinds": ["geometry_and", "geometry_or"]})
    for k in range(6):
        cases.append({"name": f"corpus-trailing-plain-parameter-{k}", "limit": 128, "text": CORPUS_TEXT4, "seed": 7300 + k, "nedits": 1,
                      "kinds": ["volume"]})
    for k in range(4):
        cases.append({"name": f"corpus-shortcut-comment-{k}", "limit": 128, "text": CORPUS_TEXT3, "seed": 7200 + k, "nedits": 1,
                      "kinds": ["importance"]})
    for k in range(6):
        cases.append({"name": f"corpus-shared-entry-comment-{k}", "limit": 128, "text": CORPUS_TEXT2, "seed": 7100 + k, "nedits": 1,
                      "kinds": ["importance"]})
    for k in range(6):
        cases.append({"name": f"corpus-shared-imp-{k}", "limit": 128, "text": CORPUS_TEXT, "seed": 7000 + k, "nedits": 1 + k % 2,
                      "prefix": [["print_in_data_block", "imp", False]], "kinds": ["importance"]})
    for name, text in wholefile.fixtures():
        if any(l.lstrip().lower().startswith("read ") for l in text.split("\n")):
            continue
        for k in range(chk.pick(2, 10)):
            cases.append({"name": name, "limit": 128, "text": wholefile.ascii_clean(text), "seed": 100 + k, "nedits": 1})
    n = chk.pick(400, 8000)
    for i in range(n):
        r = chk.rng("gen", i)
        gp = genprob.generate(r, features=genprob.DEFAULT_FEATURES | {"lattice"}) if i % 4 == 1 else genprob.generate(r)
        limit = 80 if i % 3 == 0 else 128
        text = genprob.render(gp, r, limit=limit, style="random" if i % 2 else "plain")
        cases.append({"name": f"gen{i}", "limit": limit, "text": text, "seed": r.randrange(10**6), "nedits": 1 if i % 4 else r.randint(2, 6)})
        if i % 5 == 0:
            # starting state with the printing block of per-cell data switched (both writes start from it)
            keys = [k for k in PER_CELL if r.random() < 0.4] or ["imp"]
            cases[-1]["prefix"] = [["print_in_data_block", k, gp["placement"][k] == "cell"] for k in keys]
            if i % 10 == 0:
                cases[-1]["kinds"] = ["importance", "importance_all", "volume", "universe_number"]
    return cases


def _cards_for(results, cases):
    texts = {80: [], 128: []}
    where = []
    for k, (c, r) in enumerate(zip(cases, results)):
        if "w0" in r:
            texts[c["limit"]] += [r["w0"], r["w1"]]
            where.append((k, c["limit"], len(texts[c["limit"]]) - 2))
    got = {lim: spec.cards_many(ts, lim) if ts else [] for lim, ts in texts.items()}
    return {k: (got[lim][j], got[lim][j + 1]) for k, lim, j in where}


def run(chk):
    chk.rule = (
        "cases: fixtures and generated problems with one valid edit (3 of 4 cases) or a script of 2-6 edits; the unedited "
        "and the edited write are split into inputs by the independent reader and compared word by word, case-insensitively. "
        "Non-trivial: at least one edit was applied and the problem has >= 4 inputs; distinct by hash of (text, script)."
    )
    chk.assumptions = [
        "the `affected` rule (tools/vlib/edits.py: affected) is the property's own locality rule: the edited object, inputs that refer to it by number, data-block cards that list per-cell data",
        "word budgets per edit kind (BUDGET) bound how many words of an affected input may change",
    ]
    chk.trusted_base = ["Lean 4.33.0 kernel", "Spec/File.lean", "harness tools/props/c07.py, tools/vlib/edits.py"]
    leanio.prove(chk, "MontePyVerif.Props.C07", THEOREMS, "MontePyVerif")
    if chk.thorough:
        leanio.leanchecker(chk, ["MontePyVerif.Props.C07"])
    cases = gen_cases(chk)
    results = pmap(run_case, cases, chunksize=2)
    cards = _cards_for(results, cases)
    for k, (c, r) in enumerate(zip(cases, results)):
        if "skip" in r:
            chk.count("skipped:" + r["skip"].split(":")[0][:40])
            continue
        chk.note_case({"name": c["name"], "limit": c["limit"], "hash": chash([c["text"], r["script"]]), "script": r["script"]},
                      bool(r["script"]) and c["text"].count("\n") > 6)
        chk.traces_validated += 1
        for e in r["script"]:
            chk.count("edit:" + e[0])
        for sig, what in judge(c, r, cards[k]):
            r2 = run_case(c)
            cs2 = _cards_for([r2], [c]).get(0)
            if cs2 is None or sig not in [s for s, _ in judge(c, r2, cs2)]:
                chk.count("flaky:violation-not-reproduced")
                continue
            text = c["text"]
            if len(chk.violations) < 5:

                def fails(t, sig=sig, c=c):
                    cc = dict(c, text=t)
                    rr = run_case(cc)
                    cs = _cards_for([rr], [cc]).get(0)
                    return cs is not None and sig in [s for s, _ in judge(cc, rr, cs)]

                text = wholefile.shrink_text(text, fails, c["limit"])
            rr = run_case(dict(c, text=text))
            chk.violation(sig, what, {"name": c["name"], "limit": c["limit"], "text": text, "seed": c["seed"], "nedits": c["nedits"],
                                      "prefix": c.get("prefix", []), "kinds": c.get("kinds"), "script": rr.get("script"), "unedited_write": rr.get("w0"), "edited_write": rr.get("w1")})


def replay(chk, payload):
    case = payload["case"]
    c = {"name": case.get("name", "replay"), "limit": case["limit"], "text": case["text"], "seed": case.get("seed", 1), "nedits": case.get("nedits", 1)}
    if case.get("prefix"):
        c["prefix"] = case["prefix"]
    if case.get("kinds"):
        c["kinds"] = case["kinds"]
    chk.rule = "replay of one stored case"
    r = run_case(c)
    chk.note_case({"name": c["name"]})
    cs = _cards_for([r], [c]).get(0)
    if cs is not None:
        for sig, what in judge(c, r, cs):
            chk.violation(sig, what, {"name": c["name"], "limit": c["limit"], "text": c["text"], "seed": c["seed"], "nedits": c["nedits"]})
    chk.add_obligation("replay", True)
