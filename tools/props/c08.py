"""C08 — shortcuts expand as MCNP defines and re-compress without changing values.

prove       : lean/MontePyVerif/Props/C08.lean
correspond  : unit U-listnode — Model/ListNode.lean + Model/Shortcut.lean vs ListNode.update_with_new_values / format
              (node list, covered node ids, written text), lists parsed by the real MCNP_Parser grammar;
              unit U-parse — Model/ShortcutParse.lean vs the node list the real parser builds (structure and values)
judge       : the written list read by two independent MCNP-rules readers (Lean Spec through the driver, and
              tools/vlib/shortcut_ref.py) against the values the API holds; also parse-time expansion against the Spec;
              real cards (data-block IMP / VOL, TR) through read_input -> edit -> write_to_file
"""

import copy
import itertools
import json
import os
import re
import shutil
import tempfile
import warnings
from fractions import Fraction

from vlib import leanio
from vlib import shortcut_ref as ref
from vlib.core import MachineryError, canon
from vlib.par import pmap, shrink_list

META = {
    "property_id": "C08",
    "technique": "Lean 4 proof over an executable model of ListNode/ShortcutNode re-compression and an independent MCNP shortcut reader (Spec); differential correspondence model vs implementation; Spec oracle on the text written by the real code",
    "design_ref": "6 C08",
}

THEOREMS = [
    "C08_recompress_full",
    "C08_keep_own_values",
    "C08_keep_own_unedited",
    "C08_keep_own_idempotent",
    "C08_unedited_no_regroup",
    "C08_unedited_runs_within",
    "C08_expand",
    "C08_expand_zero_count_refuted",
    "C08_recompress",
    "C08_grow_shrink",
    "C08_consume_inv",
    "C08_wellformed",
    "C08_format_sound",
    "C08_jump_only_none",
    "C08_repeat_matches_first",
    "C08_repeat_front_matches_all",
    "C08_multiply_at_most_two",
    "C08_run_append",
    "C08_spec_repeat",
    "C08_spec_jump",
    "C08_spec_multiply",
    "C08_tables",
]

WORKERS = 8
_FIX = None


# --------------------------------------------------------------------------- implementation side
def _mp():
    from vlib import mp

    return mp


def parser():
    """The grammar of parser_base.py (number_sequence / shortcut_phrase / shortcut_sequence) with nothing added."""
    global _FIX
    if _FIX is None:
        mp = _mp()
        from montepy.input_parser.parser_base import MCNP_Parser

        ns = {}
        src = (
            "class ListFixture(MCNP_Parser):\n"
            "    debugfile = None\n"
            "    @_('number_sequence')\n"
            "    def top(self, p):\n"
            "        return p[0]\n"
        )
        exec(src, {"MCNP_Parser": MCNP_Parser}, ns)
        _FIX = ns["ListFixture"]
    return _FIX()


def parse_list(text):
    mp = _mp()
    return parser().parse(mp.Input([text], mp.BlockType.DATA).tokenize())


def rat(v):
    if v is None:
        return None
    f = Fraction(v)
    return [f.numerator, f.denominator]


KIND = {"r": "rep", "j": "jmp", "m": "mul", "i": "lin", "ilog": "log"}
KIND_LONG = {"rep": "repeat", "jmp": "jump", "mul": "multiply", "lin": "interpolate", "log": "log_interpolate"}


def ser_shortcut(sc, sid, idof):
    kind = KIND[sc._type.value]
    orig = sc._original
    n = len(orig)
    if kind == "jmp":
        letter = "j" if n > 0 and "j" in orig[0] else "J"
        omit1 = n == 0 or "1" not in orig[0]
    elif kind == "rep":
        letter = "r" if n >= 2 and "r" in orig[1] else "R"
        omit1 = n >= 2 and "1" not in orig[1]
    elif kind == "mul":
        letter = "M" if n > 0 and "M" in orig[-1] else "m"
        omit1 = False
    else:
        letter = "ILOG" if kind == "log" else "I"
        if n > 0:
            m = re.match(r"\d*(\w+)", orig[1])
            if m:
                letter = m.group(1)
        omit1 = n >= 2 and "1" not in orig[1]
    num = sc._num_node
    d = {
        "sid": sid,
        "kind": kind,
        "nodes": [idof(x) for x in sc.nodes],
        "full": bool(sc._full),
        "lN": 0,
        "origLen": n,
        "letter": letter,
        "omit1": bool(omit1),
        "numTok": None if num._token is None else str(num._token),
        "numOg": num._og_value if isinstance(num._og_value, int) else None,
        "midPad": orig[2].format() if n >= 3 else " ",
        "endPad": sc.end_padding.format() if sc.end_padding else "",
        "mulTxt": "",
        "mulWritten": None,
        "ownStart": bool(getattr(sc, "_own_start", False)),
        "mulOg": rat(num._og_value) if kind == "mul" and isinstance(num._og_value, (int, float)) else None,
    }
    if kind == "lin" and hasattr(sc, "_begin"):
        d["sBegin"], d["sEnd"], d["sSpacing"] = rat(sc._begin), rat(sc._end), rat(sc._spacing)
    if kind == "log" and hasattr(sc, "_begin"):
        try:
            d["lBegin"], d["lEnd"] = rat(10**sc._begin), rat(10**sc._end)
        except (OverflowError, ValueError) as e:
            raise ImplRaised(type(e).__name__)
        d["lN"] = max(0, round((sc._end - sc._begin) / sc._spacing) - 1) if sc._spacing != 0 else 0
    return d


def ser_leaf(node, idof, fresh_ids=None):
    mp = _mp()
    sn = mp.montepy.input_parser.syntax_node
    txt = node.format()
    txt_pad = txt
    if node.padding is None:
        c = copy.deepcopy(node)
        # as ListNode.format does it (6842337): the width worked out earlier is widened by the blank
        if getattr(c, "_is_reversed", False):
            c._formatter["value_length"] += 1
        c.padding = sn.PaddingNode(" ")
        txt_pad = c.format()
    ty = 0 if node.type is float else 1 if node.type is int else 2
    return {
        "id": idof(node),
        "val": rat(node.value) if node.value is not None else None,
        "ty": ty,
        "txt": txt,
        "txtPad": txt_pad,
        "padNone": node.padding is None,
        "neverPad": bool(node.never_pad),
        "fresh": True if fresh_ids is None else id(node) in fresh_ids,
    }


def apply_edits(vals, edits):
    mp = _mp()
    sn = mp.montepy.input_parser.syntax_node
    vals = list(vals)
    for e in edits:
        op = e[0]
        if op in ("set", "none", "del") and not (0 <= e[1] < len(vals)):
            continue
        if op == "set":
            vals[e[1]].value = float(e[2])
        elif op == "none":
            vals[e[1]].value = None
        elif op == "del":
            del vals[e[1]]
        elif op == "ins":
            vals.insert(min(e[1], len(vals)), sn.ValueNode(e[2], float))
        elif op == "insdup":
            # a NEW node in front of an existing one, holding the very value of the node it displaces
            if 0 <= e[1] < len(vals):
                old = vals[e[1]]
                new = sn.ValueNode(mp.montepy.Jump(), float) if old.value is None else sn.ValueNode(repr(float(old.value)), float)
                vals.insert(e[1], new)
        elif op == "copyall":
            # what the data-block importances do: hand in copies of the nodes, none of them a node of the list
            vals = [copy.deepcopy(v) for v in vals]
        elif op == "insj":
            vals.insert(min(e[1], len(vals)), sn.ValueNode(mp.montepy.Jump(), float))
    return vals


def run_impl(case):
    _mp()  # montepy resets the warning filters when it is imported: import it first
    with warnings.catch_warnings():
        warnings.simplefilter("ignore")
        return _run_impl(case)


def _run_impl(case):
    """Parse the list with the real grammar, then per round: edit the values, update_with_new_values, format."""
    mp = _mp()
    sn = mp.montepy.input_parser.syntax_node
    res = {"rounds": [], "text": case["text"]}
    try:
        ln = parse_list(case["text"])
        if ln is None:
            raise ValueError("parser returned None")
        parsed = [n.value for n in ln]
    except Exception as e:  # noqa: BLE001
        name = type(e).__name__
        res["parse_err"] = name if name in ("ValueError", "ParsingError", "MalformedInputError") else "raises:" + name
        return res
    res["parsed"] = [rat(v) for v in parsed]
    res["pnodes"] = [
        {"sc": KIND[n._type.value], "vals": [rat(x.value) if x.value is not None else None for x in n.nodes]}
        if isinstance(n, sn.ShortcutNode)
        else {"v": rat(n.value)}
        for n in ln.nodes
    ]
    ids = {}
    keep = []

    def idof(node):
        if id(node) not in ids:
            ids[id(node)] = len(ids)
            keep.append(node)
        return ids[id(node)]

    def rebuild(vals):
        """one update_with_new_values + format on the real list; everything the implementation raises is an observation"""
        part = {}
        try:
            shortcuts = list(ln._shortcuts)
            sidof = {id(s): k for k, s in enumerate(shortcuts)}
            own = list(ln)
            mcase = {"op": "update", "shortcuts": [ser_shortcut(s, k, idof) for k, s in enumerate(shortcuts)]}
        except ImplRaised as e:
            return {"err": "raises:" + e.name, "site": "state"}
        try:
            ln.update_with_new_values(vals)
        except Exception as e:  # noqa: BLE001
            _only_impl(e)
            return {"err": "raises:" + type(e).__name__, "site": "consume"}
        try:
            fresh_ids = getattr(ln, "_fresh_ids", None)
            mcase["vals"] = [ser_leaf(v, idof, fresh_ids) for v in vals]
            mcase["own"] = [ser_leaf(v, idof, fresh_ids) for v in own]
        except Exception as e:  # noqa: BLE001  ValueNode.format of a node raised
            _only_impl(e)
            return {"err": "raises:" + type(e).__name__, "site": "format"}
        part["items"] = [
            {"sc": sidof.get(id(n), -1), "kind": KIND[n._type.value], "nodes": [idof(x) for x in n.nodes]}
            if isinstance(n, sn.ShortcutNode)
            else {"leaf": idof(n)}
            for n in ln.nodes
        ]
        # ValueNode.format may adapt its formatter while printing: keep the count nodes as they are BEFORE the write
        numcopies = {
            id(n): copy.deepcopy(n._num_node)
            for n in ln.nodes
            if isinstance(n, sn.ShortcutNode) and KIND[n._type.value] == "mul"
        }
        try:
            part["text"] = ln.format()
        except Exception as e:  # noqa: BLE001
            _only_impl(e)
            return dict(part, err="raises:" + type(e).__name__, site="format")
        try:
            for n in ln.nodes:
                if isinstance(n, sn.ShortcutNode) and KIND[n._type.value] == "mul" and id(n) in sidof:
                    c = numcopies[id(n)]
                    c.value = n._num_node.value  # the factor the real write computed
                    t = c.format().strip()
                    d = mcase["shortcuts"][sidof[id(n)]]
                    d["mulTxt"] = t
                    d["mulWritten"] = rat(ref.parse_number(t)) if ref.parse_number(t) is not None else None
            # observation is pure: formatting again gives the same bytes
            part["text_again"] = ln.format()
        except Exception as e:  # noqa: BLE001
            _only_impl(e)
            return dict(part, err="raises:" + type(e).__name__, site="format-again")
        part["model_case"] = mcase
        return part

    for edits in case["rounds"]:
        try:
            vals = apply_edits(list(ln), edits)
        except Exception as e:  # noqa: BLE001
            _only_impl(e)
            res["rounds"].append({"values": [], "err": "raises:" + type(e).__name__, "site": "edit"})
            break
        ob = {"values": [rat(v.value) if v.value is not None else None for v in vals]}
        if len(res["rounds"]) == 0 and all(e[0] == "copyall" for e in edits):
            ob["source"] = case["text"]  # nothing edited: the rebuild must give back the text that was read
        ob.update(rebuild(vals))
        if "err" not in ob:
            # standing check: rebuilding again from the same values gives the same list and the same bytes
            second = rebuild(vals)
            ob["second"] = second
        res["rounds"].append(ob)
        if "err" in ob or "err" in ob.get("second", {}):
            break
    # standing check: the text does not depend on whether the list was rebuilt (written) between the edits
    rounds = res["rounds"]
    if len(case["rounds"]) >= 2 and len(rounds) == len(case["rounds"]) and all("err" not in o and "err" not in o.get("second", {}) for o in rounds):
        try:
            ln2 = parse_list(case["text"])
            vals2 = list(ln2)
            same_positions = True
            for edits, o in zip(case["rounds"], rounds):
                vals2 = apply_edits(vals2, edits)
                # a trailing jump the list drops changes the positions later edits refer to: not comparable
                if len(vals2) == 0 or len(vals2) != len(o["values"]) or [rat(v.value) if v.value is not None else None for v in vals2] != o["values"]:
                    same_positions = False
                    break
            if same_positions:
                ln2.update_with_new_values(vals2)
                res["merged_text"] = ln2.format()
        except Exception as e:  # noqa: BLE001
            _only_impl(e)
            res["merged_text"] = "raised " + type(e).__name__
    return res


class ImplRaised(Exception):
    """the state of an implementation object cannot even be read (e.g. 10**_begin overflows)"""

    def __init__(self, name):
        super().__init__(name)
        self.name = name


def _only_impl(e):
    """an exception is an observation of the implementation only if it was raised inside MontePy (or by the
    interpreter on MontePy's behalf); anything raised by the harness' own code is a machinery failure"""
    import traceback

    from vlib.core import REPO

    frames = traceback.extract_tb(e.__traceback__)
    if any(os.path.realpath(f.filename).startswith(os.path.realpath(REPO)) for f in frames):
        return
    raise e


def tokens_of(text):
    """the token list the grammar sees (word shapes on which lexer and reader agree), or None"""
    toks = []
    for w in text.split():
        pw = ref.parse_word(w)
        if pw is None:
            return None
        kind, arg = pw
        if kind == "number":
            toks.append(["num", rat(float(arg))])  # the double the lexer's fortran_float yields
        elif kind == "multiply":
            if not re.fullmatch(r"[+-]?\d+[mM]", w):
                return None  # known finding C08-F1: not lexed as a shortcut
            toks.append(["mul", rat(float(arg))])
        else:
            if arg == 0:
                return None  # count 0 is outside G (C08_expand_zero_count_refuted)
            toks.append([{"repeat": "rep", "jump": "jmp", "interpolate": "lin", "log_interpolate": "log"}[kind], arg])
    return toks


def parse_agrees(model_items, res):
    """model's parse-time expansion vs the real parser's node list: structure exactly, numbers inside 1e-12,
    logarithmic interpolates by their defining relation"""
    rejected = "parse_err" in res
    if model_items is None or rejected:
        return (model_items is None) == rejected
    impl = res["pnodes"]
    if len(impl) != len(model_items):
        return False
    for mi, ii in zip(model_items, impl):
        if ("v" in mi) != ("v" in ii):
            return False
        if "v" in mi:
            if Fraction(*mi["v"]) != Fraction(*ii["v"]):
                return False
            continue
        if mi["sc"] != ii["sc"] or len(mi["vals"]) != len(ii["vals"]):
            return False
        for mv, iv in zip(mi["vals"], ii["vals"]):
            if mv == "J" or iv is None:
                if not (mv == "J" and iv is None):
                    return False
            elif isinstance(mv, dict):
                a, b, n, k = mv["log"]
                if not ref.matches(("log", Fraction(*a), Fraction(*b), n, k), Fraction(*iv)):
                    return False
            elif not ref.close(Fraction(*mv), Fraction(*iv), Fraction(1, 10**12)):
                # an interpolate near 0: doubles vs exact rationals differ by ~1e-16 of the interpolation's scale
                nums = [abs(Fraction(*x)) for x in mi["vals"] if isinstance(x, list)]
                if not (mi["sc"] == "lin" and abs(Fraction(*mv) - Fraction(*iv)) <= Fraction(1, 10**12) * max(nums)):
                    return False
    return True


# --------------------------------------------------------------------------- oracle
def _decomment(text):
    """MCNP's comment rules for the text of a list: `$` to the end of the line, and lines whose first non-blank within
    the first five columns is a lone `c`"""
    out = []
    for k, line in enumerate(text.split("\n")):
        if k > 0 and re.match(r"^ {0,4}[cC]( |$)", line):
            continue
        out.append(line.split("$")[0])
    return "\n".join(out)


def _floats(values):
    return [None if v is None else Fraction(v[0], v[1]) for v in values]


def _held_kinds(ob):
    return [sc["kind"] for sc in ob.get("model_case", {}).get("shortcuts", [])]


def judge_round(ob):
    """The property on one write of the real code: (signature, detail) or None."""
    if "err" in ob:
        return ({"mechanism": "shortcut", "class": ob["err"], "kind": "list", "site": ob["site"]}, ob["err"])
    if "items" in ob:
        # judged before anything is indexed by position: the rebuilt list holds one node per value handed in
        # (only trailing jumps may have been dropped)
        held = sum(len(it["nodes"]) if "sc" in it else 1 for it in ob["items"])
        vals_ = ob["values"]
        if held > len(vals_) or any(v is not None for v in vals_[held:]):
            return ({"mechanism": "shortcut", "class": "length-changed", "kind": "list", "site": "consume"}, f"{len(vals_)} values handed in, the rebuilt list holds {held} nodes; text {ob.get('text')!r}")
    bad = ref.compare(_decomment(ob["text"]), _floats(ob["values"]))
    if bad is not None:
        cls, kind, detail = bad
        return ({"mechanism": "shortcut", "class": cls, "kind": kind, "site": "format"}, f"{detail}; text {ob['text']!r}")
    kinds = [pw[0] for w in ob["text"].split() for pw in [ref.parse_word(w)] if pw and pw[0] != "number"]
    kind = kinds[0] if kinds else "list"
    if "source" in ob and ob["text"] != ob["source"]:
        return ({"mechanism": "shortcut", "class": "unedited-rebuild-differs", "kind": kind, "site": "format"}, f"read {ob['source']!r}, rebuilt from its own values and written {ob['text']!r}")
    if ob.get("text_again") != ob["text"]:
        return ({"mechanism": "shortcut", "class": "observation-not-pure", "kind": kind, "site": "format-again"}, f"format() {ob['text']!r}, format() again {ob.get('text_again')!r}")
    second = ob.get("second")
    if second is not None:
        if "err" in second:
            return ({"mechanism": "shortcut", "class": second["err"], "kind": kind, "site": "second-" + second["site"]}, f"second rebuild from the same values: {second['err']}")
        if second["text"] != ob["text"] or second.get("text_again") != second["text"]:
            sig = {"mechanism": "shortcut", "class": "second-write-differs", "kind": kind, "site": "format"}
            nums = sorted(v for v in _floats(ob["values"]) if v is not None)
            # distinct values within rel_tol of each other: closeness is not transitive along such a chain
            if any(0 < (w - v) <= Fraction(1, 10**9) * max(abs(v), abs(w)) for v, w in zip(nums, nums[1:])):
                sig["tolerance_chain"] = True
            return (sig, f"first {ob['text']!r}, again {second['text']!r}")
    return None


def judge_parse(case, res):
    """Parse-time expansion against the independent reader."""
    ex = ref.expand(_decomment(case["text"]))
    kinds = [KIND_LONG.get(k) for k in ("rep", "jmp", "mul", "lin", "log")]
    first = "list"
    for w in case["text"].split():
        pw = ref.parse_word(w)
        if pw and pw[0] != "number":
            first = pw[0]
            break
    extra = {}
    if first == "multiply":
        fw = [w for w in case["text"].split() if ref.parse_word(w) and ref.parse_word(w)[0] == "multiply"][0]
        extra = {"factor": "integer" if re.fullmatch(r"[+-]?\d+[mM]", fw) else "non-integer"}
    if "parse_err" in res:
        if res["parse_err"].startswith("raises:"):
            return ({"mechanism": "shortcut", "class": res["parse_err"], "kind": first, "site": "parse"}, res["parse_err"])
        if ex is not None:
            return (dict({"mechanism": "shortcut", "class": "valid-list-rejected", "kind": first, "site": "parse"}, **extra), f"{case['text']!r} rejected: {res['parse_err']}")
        return None
    if ex is None:
        return None  # accepted although MCNP would not read it: outside the property
    got = _floats(res["parsed"])
    if len(got) != len(ex):
        return ({"mechanism": "shortcut", "class": "expand-wrong", "kind": first, "site": "parse"}, f"{case['text']!r}: {len(got)} values for {len(ex)} entries")
    for i, ((d, kind), g) in enumerate(zip(ex, got)):
        if not ref.matches(d, g):
            return ({"mechanism": "shortcut", "class": "expand-wrong", "kind": kind, "site": "parse"}, f"{case['text']!r} position {i}: read {g!r}, MCNP reads {d!r}")
    return None


# --------------------------------------------------------------------------- generators
NUMS = ["1", "2", "4"]
SHORT_AFTER = ["r", "2r", "3R", "2m", "3M", "j", "2J"]
SHORT_BETWEEN = ["i", "2i", "1I", "ilog", "2ILOG"]
EDIT_VALUES = [1.0, 2.0, 4.0, 3.0, 0.0, 0.5, 8.0, -2.0]


def single_edits(n):
    out = [[]]
    for i in range(n):
        for x in (2.0, 3.0, 0.0):
            out.append([["set", i, x]])
        out.append([["none", i]])
        out.append([["del", i]])
    for i in range(n + 1):
        out.append([["ins", i, "2.0"]])
        out.append([["ins", i, "7.5"]])
        out.append([["insj", i]])
    return out


def gen_exhaustive(maxlen, stride, offset):
    """every list over {1,2,4,J} up to maxlen, one shortcut word at every position, every single edit"""
    k = 0
    for n in range(1, maxlen + 1):
        for base in itertools.product(NUMS + ["J"], repeat=n):
            variants = [list(base)]
            for pos in range(1, n + 1):
                for w in SHORT_AFTER:
                    variants.append(list(base[:pos]) + [w] + list(base[pos:]))
                if pos < n:
                    for w in SHORT_BETWEEN:
                        variants.append(list(base[:pos]) + [w] + list(base[pos:]))
            for words in variants:
                text = " ".join(words)
                ex = ref.expand(text)
                nvals = len(ex) if ex is not None else n
                for edits in single_edits(nvals):
                    k += 1
                    if k % stride == offset % stride:
                        yield {"unit": "listnode", "text": text, "rounds": [edits]}


def gen_random(rng, i):
    n = rng.randint(1, 7)
    words = []
    for _ in range(n):
        r = rng.random()
        if r < 0.12:
            words.append(rng.choice(["j", "J", "2j", "3J", "1j"]))
            continue
        num = rng.choice(["1", "2", "4", "0.5", "3.0", "10", "1e2", "0", "-2", "8", "1.5"])
        words.append(num)
        nsc = rng.choice([0, 0, 1, 1, 2, 3])
        for _ in range(nsc):
            r2 = rng.random()
            if r2 < 0.35:
                words.append(rng.choice(["r", "R", "2r", "3R", "1r", "5r", "10R"]))
            elif r2 < 0.55:
                words.append(rng.choice(["2m", "3m", "-1m", "4M", "2M", "10m", "0.5M" if rng.random() < 0.1 else "5m", "1e1m" if rng.random() < 0.1 else "-3M"]))
            elif r2 < 0.85:
                words.append(rng.choice(["i", "I", "2i", "3I", "1i", "4i", "9i"]))
                words.append(rng.choice(["4", "8", "16", "2.5", "10", "-4", "1"]))
            else:
                words.append(rng.choice(["ilog", "2ilog", "ILOG", "3ILOG", "1ilog", "2log"]))
                words.append(rng.choice(["4", "8", "16", "100", "1e3", "0.25"]))
    text = " ".join(words)
    ex = ref.expand(text)
    nvals = len(ex) if ex is not None else len(words)
    rounds = []
    for _ in range(rng.choice([1, 1, 2, 3])):
        edits = [["copyall"]] if rng.random() < 0.15 else []
        for _ in range(rng.choice([0, 1, 1, 2, 3])):
            r = rng.random()
            pos = rng.randrange(nvals + 1)
            if r < 0.4:
                edits.append(["set", pos, rng.choice(EDIT_VALUES)])
            elif r < 0.5:
                edits.append(["none", pos])
            elif r < 0.7:
                edits.append(["del", pos])
            elif r < 0.9:
                edits.append(["ins", pos, rng.choice(["1.0", "2.0", "4.0", "7.5", "0.0", "3.0", "8.0"])])
            else:
                edits.append(["insj", pos])
        rounds.append(edits)
    return {"unit": "listnode", "text": text, "rounds": rounds}


def gen_produced_edit(rng, i):
    """edit a node that a shortcut PRODUCED (repeat copy, product, interpolate), to its base's / neighbour's value or a
    new one, then write; often a second round, and copies handed in as the importances do"""
    head = rng.choice(["", "50. ", "2 1 ", "j "])
    a = rng.choice(["1.0", "4", "2", "0.5", "8"])
    sc, n = rng.choice([("2m", 1), ("5m", 1), ("2m 3m", 2), ("2m", 1), ("3r", 3), ("r", 1), ("2i 16", 3), ("i 3", 2), ("ilog 64", 2), ("5m 3R", 4), ("2r 2m", 3), ("2m 2i 16", 4)])
    tail = rng.choice(["", " 1 2.", " 7", " j 3"])
    text = f"{head}{a} {sc}{tail}"
    ex = ref.expand(text)
    nv = len(ex) if ex else 4
    first = len(ref.expand(head + a) or [0]) - 1  # position of the base
    rounds = []
    for _ in range(rng.choice([1, 2, 2, 3])):
        edits = [["copyall"]] if rng.random() < 0.4 else []
        pos = first + rng.randint(1, n)
        val = rng.choice([float(a), float(a), 1.0, 2.0, 4.0, 0.0, 20.0])
        edits.append(["set", pos, val])
        if rng.random() < 0.4:
            edits.append(["set", rng.randrange(nv), rng.choice([0.0, 1.0, 2.0, 4.0])])
        rounds.append(edits)
    return {"unit": "listnode", "text": text, "rounds": rounds}


GAPS = [" ", " ", "  ", "      ", "\n     ", "\n        ", " $ x = (y)\n       ", " $ 2r\n     ", "\nc a comment card 3r\n     ", "\n c 2m\n      "]


def gen_layout(rng, i):
    """comments and line breaks inside every gap of a list, also between an entry and the shortcut that follows it;
    unedited (the rebuild must echo the text) or one edit"""
    base = gen_random(rng, i) if rng.random() < 0.5 else gen_coincidence(rng, i)
    words = base["text"].split()
    text = words[0]
    for w in words[1:]:
        text += rng.choice(GAPS) + w
    r = rng.random()
    rounds = [[]] if r < 0.4 else [[["copyall"]]] if r < 0.7 else base["rounds"][:1]
    return {"unit": "listnode", "text": text, "rounds": rounds}


def gen_coincidence(rng, i):
    """value coincidences: the entry after a shortcut is what the shortcut would produce next (run value x factor = next
    entry, repeat value = next entry, interpolation end + step = next entry, jump next to jump), adjacent shortcuts with
    and without a first value of their own"""
    a = rng.choice([1.0, 2.0, 4.0, 0.5, 3.0, 0.0])
    f = rng.choice([2, 3, -1, 5])
    n = rng.randint(1, 4)
    pats = [
        f"{a} {n}r {a}", f"{a} {n}r {a} r", f"{a} {n}r {a} {n}r", f"{a} r {a * f} {f}m", f"{a} {n}r {a * f} {f}m",
        f"{a} {n}r {f}m {a * f * f}", f"{a} {f}m {a * f * f}", f"{a} {f}m {a * f} {f}m", f"{a} {n}r {a * f} {f}m {a * f * f}",
        f"{a} {n}i {a + (n + 1)} {a + (n + 2)}", f"{a} {n}i {a + (n + 1)} {a + (n + 1)} r", f"{a - 1} {a} {n}i {a + n + 1}",
        f"{a} {n}i {a + n + 1} {n}i {a + 2 * (n + 1)}", f"{a + 1} {n}r {a + 1} {n}i {a + 2 + n}", "j j 1 j", f"{a} j 2j j {a}", f"{a} 2j j",
        f"1 ilog 100 1000", f"1 ilog 100 ilog 1e4", f"{a} {f}m {f}m {a * f * f * f}",
    ]
    text = rng.choice(pats)
    ex = ref.expand(text)
    nv = len(ex) if ex else 4
    r = rng.random()
    if r < 0.45:
        rounds = [[]]
    elif r < 0.7:
        rounds = [[["copyall"]], [["copyall"]]]
    else:
        rounds = [[["set", rng.randrange(nv), rng.choice([a, a * f, 1.0, 7.0])]], []]
    return {"unit": "listnode", "text": text, "rounds": rounds}


def gen_equal_insert(rng, i):
    """identity vs equality of nodes: new nodes inserted at the front / in the middle whose values EQUAL the value of the
    node they displace, the original nodes handed in at later positions (a cell inserted in front of existing ones)"""
    base = gen_random(rng, i) if rng.random() < 0.5 else gen_coincidence(rng, i)
    ex = ref.expand(base["text"])
    nv = len(ex) if ex else 3
    rounds = []
    for _ in range(rng.choice([1, 1, 2])):
        edits = []
        for _ in range(rng.choice([1, 1, 2])):
            edits.append(["insdup", rng.choice([0, 0, 1, rng.randrange(nv)])])
        rounds.append(edits)
    return {"unit": "listnode", "text": base["text"], "rounds": rounds}


def gen_drift(rng, i):
    """values that differ from their neighbour by less than rel_tol but drift away from the written value"""
    n = rng.randint(3, 9)
    e = rng.choice([0.4e-9, 0.6e-9, 0.9e-9])
    base = rng.choice([1.0, 2.0, 1000.0, 0.5])
    kind = rng.choice(["rep", "rep", "lin"])
    if kind == "rep":
        text = f"{base!r} {n}r"
        edits = [["del", 1]] * n + [["ins", 1 + k, repr(base * (1 + (k + 1) * e))] for k in range(n)]
    else:
        text = f"1.0 {n}i {float(n + 1)!r}"
        edits = [["del", 1]] * (n + 1) + [["ins", 1 + k, repr((2.0 + k) * (1 + (k + 1) * e))] for k in range(n + 1)]
    return {"unit": "listnode", "text": text, "rounds": [edits]}


CORPUS = [
    # minimised inputs of the defects repaired on branch fix-C08 (known_findings.json "fixed")
    {"unit": "listnode", "text": "1 3r", "rounds": [[["ins", 4, "0.0"]]]},
    {"unit": "listnode", "text": "1 2i 4", "rounds": [[["del", 0]]]},
    {"unit": "listnode", "text": "1.0 5r", "rounds": [[["del", 1]] * 5 + [["ins", 1 + k, repr(1 + (k + 1) * 0.9e-9)] for k in range(5)]]},
    {"unit": "listnode", "text": "1 3r 2", "rounds": [[["none", 0]]]},
    {"unit": "listnode", "text": "1 2i 4 2", "rounds": [[["none", 0]]]},
    {"unit": "listnode", "text": "0 2M", "rounds": [[]]},
    {"unit": "listnode", "text": "1 2m", "rounds": [[["del", 1]]]},
    {"unit": "listnode", "text": "3 2m", "rounds": [[["set", 1, 1.0]]]},
    {"unit": "listnode", "text": "1 2i 4 2r", "rounds": [[["set", 4, 5.0]]]},
    {"unit": "listnode", "text": "1 2r 7 3 2r", "rounds": [[["del", 3]]]},
    {"unit": "listnode", "text": "1 2r 2m", "rounds": [[["set", 2, 3.0]]]},
    {"unit": "listnode", "text": "1 2i 4", "rounds": [[["set", 1, 2.5]]]},
    {"unit": "listnode", "text": "1 2i 4 3m", "rounds": [[["set", 3, 5.0]]]},
    {"unit": "listnode", "text": "1 2i 4 2 2 r", "rounds": [[["set", 2, 2.0], ["set", 3, 2.0]]]},
    # round 8: an unedited list is written back as it was read (C01 witness and its neighbours)
    {"unit": "listnode", "text": "1.0 4r 2 $ x = (y)\n       2m", "rounds": [[["copyall"]]]},
    {"unit": "listnode", "text": "1 2r 1", "rounds": [[]]},
    {"unit": "listnode", "text": "3.0 3R 3.0 R", "rounds": [[]]},
    {"unit": "listnode", "text": "-2 i 2.5 2 1i 1", "rounds": [[]]},
    {"unit": "listnode", "text": "4 9i -4", "rounds": [[]]},
    {"unit": "listnode", "text": "0 2m 1r 4", "rounds": [[]]},
    {"unit": "listnode", "text": "9 9 1 1.0000000009 1.0000000018 r 5", "rounds": [[], []]},
    {"unit": "listnode", "text": "10 1i 16 10 0.5 3J", "rounds": [[], [["ins", 6, "4.0"]]]},
    # round 7: a value assigned to a shortcut-produced node is written; history independence of a multiply
    {"unit": "listnode", "text": "4 5m 3R", "rounds": [[["set", 4, 4.0]]]},
    {"unit": "listnode", "pinned": True, "text": "50. 1.0 2m 1 2.", "rounds": [[["copyall"], ["set", 2, 1.0]], [["copyall"], ["set", 1, 2.0]], [["copyall"], ["set", 4, 0.0]]]},
    # an interpolate that should be 0 (oracle false alarm of round 6: judged on the scale of the interpolation)
    {"unit": "listnode", "text": "-2 3i 1.9999999999999998", "rounds": [[]]},
    {"unit": "listnode", "text": "-2 -1 0 1 1.9999999999999998 4 5m", "rounds": [[["copyall"]], [["set", 5, 4.0]]]},
    # rebuilt twice (fixes 9bda70f, 5d77013, d7a689d)
    {"unit": "listnode", "text": "2.0 1.0 1.0 50.0 0.02m 4 1.0", "rounds": [[["copyall"]], [["copyall"]]]},
    {"unit": "listnode", "text": "1.0 2m 2i 5. 0", "rounds": [[["copyall"]]]},
    {"unit": "listnode", "text": "0 i 10 5m", "rounds": [[["set", 0, 4.0]]]},
    {"unit": "listnode", "text": "2 r J", "rounds": [[["set", 2, 2.0]]]},
    # the list handed in as copies of its own nodes (fix 70989d6)
    {"unit": "listnode", "text": "0.5 1.0 2r 4 1.0 1.0", "rounds": [[["copyall"]]]},
    {"unit": "listnode", "text": "0.5 1.0 2r 4 1.0 1.0", "rounds": [[["copyall"], ["set", 2, 5.0]]]},
    {"unit": "listnode", "text": "1 2i 4 j 2m", "rounds": [[["copyall"]], [["copyall"], ["del", 1]]]},
    # entry behind a line break (fix 3dc089c)
    {"unit": "listnode", "text": "4.\n", "rounds": [[["insj", 1], ["insj", 2], ["ins", 3, "0.5"]]]},
    {"unit": "listnode", "text": "1 2r\n", "rounds": [[["ins", 3, "7.5"]]]},
]


def _nontrivial(case):
    return any(ref.parse_word(w) and ref.parse_word(w)[0] != "number" for w in case["text"].split()) and any(case["rounds"])


# --------------------------------------------------------------------------- real cards (end to end)
CARD = {"imp": "imp:n", "vol": "vol", "tr": "tr1", "u": "u"}

def gen_card_case(rng, i):
    k = rng.randint(2, 7)
    kind = rng.choice(["imp", "vol", "tr", "u"])
    if kind == "imp":
        pool = ["1", "2", "4", "0", "0.5", "8"]
    else:
        pool = ["1", "2", "4", "0.5", "8", "j"]
    if kind == "u":
        pool = ["1", "2", "46", "j", "j"]
    if kind == "tr":
        k = rng.choice([3, 9, 12])
        pool = ["0", "1", "2", "0.5", "-1", "4"]
    # build a list that expands to exactly k entries
    words, count = [], 0
    while count < k:
        left = k - count
        w = rng.choice(pool)
        if w == "j" and rng.random() < 0.5 and left >= 2:
            words.append("2j")
            count += 2
            continue
        words.append(w)
        count += 1
        left -= 1
        if w == "j" or left == 0:
            continue
        r = rng.random()
        if r < 0.35:
            n = rng.randint(1, left)
            words.append(rng.choice(["r", "R"]) if n == 1 and rng.random() < 0.5 else f"{n}{rng.choice('rR')}")
            count += n
        elif r < 0.55 and left >= 2 and w not in ("0",) and kind != "u":
            n = rng.randint(1, left - 1)
            end = rng.choice(["4", "8", "16", "10"])
            words += [f"{n}{rng.choice('iI')}" if n > 1 or rng.random() < 0.5 else "i", end]
            count += n + 1
    edits = []
    for _ in range(rng.choice([0, 1, 1, 2, 3])):
        r = rng.random()
        if kind == "tr":
            edits.append(["set", rng.randrange(min(k, 3)), rng.choice([0.0, 1.0, 2.0, 5.0, -3.0])])
        elif r < 0.5 and kind != "u":
            edits.append(["set", rng.randrange(k), rng.choice([0.0, 1.0, 2.0, 4.0, 3.0])])
        elif r < 0.7:
            edits.append(["remove", rng.randrange(k)])
        elif r < 0.82:
            edits.append(["insert_before", rng.randrange(k)])
        elif r < 0.9:
            edits.append(["append", rng.choice([0.0, 1.0, 2.0])])
    case = {"unit": "cards", "kind": kind, "k": k, "words": words, "edits": edits}
    if rng.random() < 0.35:
        case["comment_after"] = True
        case["indent"] = rng.choice(["", "   "])
    return case


def _card_file(case):
    k = case["k"] if case["kind"] != "tr" else 2
    lines = ["C08 generated problem"]
    for c in range(1, k + 1):
        lines.append(f"{c} 0 -{c}")
    lines.append("")
    for c in range(1, k + 1):
        lines.append(f"{c} so {c}.5")
    lines.append("")
    lines.append("mode n")
    card = CARD[case["kind"]]
    if case.get("raw_card"):
        lines += case["raw_card"]  # the card verbatim (several lines); `words` holds the same entries
    else:
        lines.append(case.get("indent", "") + card + " " + " ".join(case["words"]))
    if case.get("comment_after"):
        # the comment is handed to the next input: the card's last entry is then followed by a bare line break
        lines.append("c a comment behind the card")
    if case["kind"] != "imp":
        lines.append("imp:n 1 " + (f"{k - 1}r" if k > 1 else ""))
    lines.append("")
    return "\n".join(lines) + "\n"


def _read_card(path, card):
    """independent of MontePy: the entries of the data card `card` in the written file"""
    with open(path) as fh:
        lines = fh.read().split("\n")
    blanks = 0
    found = None
    for ln in lines[1:]:
        if ln.strip() == "":
            blanks += 1
            if found is not None:
                break
            continue
        if blanks < 2:
            continue
        body = ln.split("$")[0]
        if re.match(r"^ {0,4}[cC]( |$)", ln):
            continue
        if found is not None:
            if ln.startswith("     "):
                found.append(body)
                continue
            break
        if body.strip().lower().split()[0] == card or body.strip().lower().startswith(card + " "):
            found = [body.strip()[len(card):]]
    if found is None:
        return None
    text = " ".join(found).replace("&", " ")
    words = text.split()
    if card == "vol" and words and words[0].lower() == "no":
        words = words[1:]
    return " ".join(words)


def run_card(case):
    _mp()
    with warnings.catch_warnings():
        warnings.simplefilter("ignore")
        ob = _run_card(case)
        # standing check: the card does not depend on whether the problem was written between the edits
        if len(case["edits"]) >= 2 and "text" in ob and not case.get("write_between"):
            ob2 = _run_card(dict(case, write_between=True))
            if "text" in ob2 and ob2.get("values") == ob.get("values"):
                ob["text_observed"] = ob2["text"]
        return ob


def _run_card(case):
    mp = _mp()
    montepy = mp.montepy
    d = tempfile.mkdtemp(prefix="c08_")
    ob = {}
    try:
        src = os.path.join(d, "in.imcnp")
        with open(src, "w") as fh:
            fh.write(_card_file(case))
        try:
            prob = montepy.read_input(src)
        except Exception as e:  # noqa: BLE001
            ob["read_err"] = type(e).__name__
            return ob
        kind = case["kind"]
        cells = prob.cells

        def values():
            if kind == "imp":
                return [c.importance.neutron for c in cells]
            if kind == "vol":
                return [c.volume if c.volume_is_set else None for c in cells]
            if kind == "u":
                # universe 0 is the default: the card holds a jump for it
                return [c.universe.number if c.universe.number != 0 else None for c in cells]
            t = prob.transforms[1]
            vals = list(t.displacement_vector)
            if len(list(t._tree["data"])) > 3 or t.rotation_matrix.any():
                vals += list(t.rotation_matrix)
            return [float(v) for v in vals]

        try:
            ob["read_values"] = [rat(v) for v in values()]
        except Exception as e:  # noqa: BLE001  the object built from the card does not hold numbers
            ob["read_err"] = "values:" + type(e).__name__
            return ob
        try:
            for ne, e in enumerate(sorted(case["edits"], key=lambda e: e[0] == "unset")):
                if case.get("write_between") and ne > 0:
                    prob.write_to_file(os.path.join(d, f"between{ne}.imcnp"))
                cl = list(cells)
                if e[0] == "set":
                    if kind == "imp":
                        cl[e[1] % len(cl)].importance.neutron = e[2]
                    elif kind == "vol":
                        cl[e[1] % len(cl)].volume = e[2] if e[2] > 0 else 1.0
                    else:
                        t = prob.transforms[1]
                        v = t.displacement_vector
                        v[e[1]] = e[2]
                        t.displacement_vector = v
                elif e[0] == "unset" and kind == "vol":
                    del cl[e[1] % len(cl)].volume
                elif e[0] == "remove" and kind != "tr" and len(cl) > 1:
                    cells.remove(cl[e[1] % len(cl)])
                elif e[0] == "insert_before" and kind != "tr":
                    # a new cell in front of existing ones, holding the same datum as the cell it displaces
                    i0 = e[1] % len(cl)
                    moved = cl[i0:]
                    c = copy.deepcopy(cl[i0])
                    c.number = max(x.number for x in cl) + 1
                    for x in moved:
                        cells.remove(x)
                    cells.append(c)
                    for x in moved:
                        cells.append(x)
                elif e[0] == "append" and kind != "tr":
                    c = copy.deepcopy(cl[-1])
                    c.number = max(x.number for x in cl) + 1
                    cells.append(c)
                    if kind == "imp":
                        c.importance.neutron = e[1]
                    elif kind == "vol" and e[1] > 0:
                        c.volume = e[1]
        except Exception as e:  # noqa: BLE001
            ob["edit_err"] = type(e).__name__  # a setter refused or broke: not a statement about shortcuts
            return ob
        try:
            ob["values"] = [rat(v) for v in values()]
            out = os.path.join(d, "out.imcnp")
            prob.write_to_file(out)
        except Exception as e:  # noqa: BLE001
            ob["err"] = "raises:" + type(e).__name__ if not isinstance(e, (montepy.errors.IllegalState, ValueError, TypeError)) or isinstance(e, (ZeroDivisionError, OverflowError)) else "refused:" + type(e).__name__
            ob["site"] = "format"
            return ob
        ob["text"] = _read_card(out, CARD[kind])
        # standing check: a second write of the same problem gives the same bytes
        out2 = os.path.join(d, "out2.imcnp")
        try:
            for di in prob.data_inputs:  # an observation in between must not change the next write
                di.format_for_mcnp_input((6, 2, 0))
            prob.write_to_file(out2)
            with open(out, "rb") as f1, open(out2, "rb") as f2:
                ob["second_same"] = f1.read() == f2.read()
            if not ob["second_same"]:
                ob["second_text"] = _read_card(out2, CARD[kind])
        except Exception as e:  # noqa: BLE001
            ob["second_same"] = False
            ob["second_text"] = "raised " + type(e).__name__
        if case.get("keep"):
            with open(out) as fh:
                ob["kept"] = case["keep"] in fh.read()
        return ob
    finally:
        shutil.rmtree(d, ignore_errors=True)


def judge_card(case, ob):
    kind_sig = {"mechanism": "shortcut", "card": case["kind"]}
    first = "list"
    for w in case["words"]:
        pw = ref.parse_word(w)
        if pw and pw[0] != "number":
            first = pw[0]
            break
    if "read_err" in ob:
        if ref.expand(" ".join(case["words"])) is not None:
            deliberate = ob["read_err"] in ("MalformedInputError", "ParsingError", "ValueError", "IllegalState", "UnsupportedFeature")
            cls = "valid-list-rejected" if deliberate else "raises:" + ob["read_err"]
            if ob["read_err"].startswith("values:"):
                cls = "expand-wrong"  # the card was accepted but the object holds something that is not a number
            return (dict(kind_sig, **{"class": cls, "kind": first, "site": "parse", "parser": "DataParser"}), f"{case['words']} rejected: {ob['read_err']}")
        return None
    ex = ref.expand(" ".join(case["words"]))
    if ex is not None and "read_values" in ob:
        got = _floats(ob["read_values"])
        for i, (d, kd) in enumerate(ex):
            g = got[i] if i < len(got) else None
            if case["kind"] == "tr" and i >= len(got):
                break
            if not ref.matches(d, g):
                return (dict(kind_sig, **{"class": "expand-wrong", "kind": kd, "site": "parse"}), f"{case['words']} position {i}: API {g!r}, MCNP reads {d!r}")
    if "edit_err" in ob:
        return None
    if "err" in ob:
        if ob["err"].startswith("raises:"):
            return (dict(kind_sig, **{"class": ob["err"], "kind": "list", "site": ob["site"]}), ob["err"])
        return None
    if ob.get("text") is None:
        vals = _floats(ob["values"])
        if all(v is None for v in vals):
            return None
        return (dict(kind_sig, **{"class": "card-missing", "kind": "list", "site": "format"}), "card not written")
    vals = _floats(ob["values"])
    if case["kind"] == "imp":
        vals = vals  # every cell has an importance
    bad = ref.compare(ob["text"], vals)
    if bad is None:
        if "text_observed" in ob and ob["text_observed"] != ob["text"]:
            return (dict(kind_sig, **{"class": "history-dependent", "kind": first, "site": "format", "pinned": bool(case.get("pinned"))}), f"written once at the end {ob['text']!r}, written after every edit {ob['text_observed']!r}")
        if ob.get("second_same") is False:
            return (dict(kind_sig, **{"class": "second-write-differs", "kind": first, "site": "format"}), f"first write {ob['text']!r}, second write {ob.get('second_text')!r}")
        if ob.get("kept") is False:
            return (dict(kind_sig, **{"class": "comment-lost", "kind": first, "site": "consume"}), f"{case['keep']!r} is no longer in the written file")
        return None
    cls, kd, detail = bad
    return (dict(kind_sig, **{"class": cls, "kind": kd, "site": "format"}), f"{detail}; card text {ob['text']!r}")


# --------------------------------------------------------------------------- the check
def _model_results(drv, impl):
    batch, where = [], []
    for ci, ri in enumerate(impl):
        toks = tokens_of(_decomment(ri.get("text", ""))) if "text" in ri else None
        if toks is not None:
            batch.append({"op": "parse", "toks": toks})
            where.append((ci, -1, "parse"))
        for k, ob in enumerate(ri.get("rounds", [])):
            if "model_case" in ob:
                batch.append(ob["model_case"])
                where.append((ci, k, "model"))
            if "text" in ob:
                batch.append({"op": "spec", "text": _decomment(ob["text"]), "vals": ob["values"]})
                where.append((ci, k, "spec"))
            if "model_case" in ob.get("second", {}):
                batch.append(ob["second"]["model_case"])
                where.append((ci, k, "model2"))
    out = drv.batch(batch, timeout=3600) if batch else []
    table = {}
    if out is not None:
        for w, o in zip(where, out):
            table[w] = o
    return table


def check_listnode_case(chk, drv, case, ri, table, ci, confirm=True):
    """judge + correspond one case; returns True if something was reported"""
    v = judge_parse(case, ri)
    if v is not None:
        if confirm and judge_parse(case, run_impl(case)) is None:
            chk.count("flaky:parse")
            return True
        mc = case
        if confirm:
            # minimise the list word by word; the signature is taken from the minimised list
            def fails(ws, cls=v[0]["class"]):
                if not any(ref.parse_word(w) and ref.parse_word(w)[0] != "number" for w in ws):
                    return False
                c = dict(case, text=" ".join(ws), rounds=[])
                x = judge_parse(c, run_impl(c))
                return x is not None and x[0]["class"] == cls

            ws = shrink_list(case["text"].split(), fails)
            mc = dict(case, text=" ".join(ws), rounds=[])
            v = judge_parse(mc, run_impl(mc)) or v
        chk.violation(v[0], v[1], {"case": mc, "impl": _strip(run_impl(mc))})
        return True
    pm = table.get((ci, -1, "parse"))
    if pm is not None:
        if "error" in pm:
            raise MachineryError(f"model driver error: {pm['error']}")
        chk.traces_validated += 1
        if not parse_agrees(pm["items"], ri):
            chk.disagreements_checked += 1
            r2 = run_impl(case)
            m2 = drv.batch([{"op": "parse", "toks": tokens_of(_decomment(case["text"]))}])[0]
            if parse_agrees(m2["items"], r2):
                chk.count("flaky:parse-correspondence")
            else:
                chk.broken_obligation(
                    "correspondence",
                    "U-parse (Model/ShortcutParse.lean vs parser_base.py shortcut_sequence + ShortcutNode._expand_*)",
                    {"impl": {"parse_err": r2.get("parse_err"), "nodes": r2.get("pnodes")}, "model": m2["items"]},
                    dict(case, rounds=[]),
                )
            return True
    # (a blank behind the LAST entry is not compared: an entry keeps the blank it was given while it was not the last)
    if "merged_text" in ri and ri["rounds"] and "text" in ri["rounds"][-1] and ri["merged_text"].rstrip() != ri["rounds"][-1]["text"].rstrip() \
            and all(judge_round(o) is None for o in ri["rounds"]):
        kinds = {pw[0] for w in case["text"].split() for pw in [ref.parse_word(w)] if pw and pw[0] != "number"}
        sig = {"mechanism": "shortcut", "class": "history-dependent", "kind": "list", "site": "format", "pinned": bool(case.get("pinned"))}
        nums = sorted(v for v in _floats(ri["rounds"][-1]["values"]) if v is not None)
        if any(0 < (w - v) <= Fraction(1, 10**9) * max(abs(v), abs(w)) for v, w in zip(nums, nums[1:])):
            sig["tolerance_chain"] = True
        r2 = run_impl(case) if confirm else ri
        if (r2.get("merged_text") or "").rstrip() != ((r2["rounds"][-1].get("text") or "") if r2.get("rounds") else "").rstrip():
            chk.violation(sig, f"written after every edit round: {ri['rounds'][-1]['text']!r}; written once at the end: {ri['merged_text']!r}", {"case": case, "impl": _strip(r2)})
            return True
    for k, ob in enumerate(ri.get("rounds", [])):
        v = judge_round(ob)
        spec = table.get((ci, k, "spec"))
        if spec is not None and "text" in ob:
            lean_ok = bool(spec.get("ok"))
            py_ok = "err" not in ob and ref.compare(_decomment(ob["text"]), _floats(ob["values"])) is None
            if lean_ok != py_ok:
                # never exit 2 on a case: the disagreement of the two readers is reported with the case, and the
                # case is judged by the Python reader
                chk.broken_obligation(
                    "correspondence",
                    "Spec reader (Lean) vs independent Python reader",
                    {"text": ob["text"], "values": ob["values"], "lean": spec, "python_ok": py_ok},
                    case,
                )
                _unused = (f"the two independent readers disagree on {ob['text']!r} vs {ob['values']}: lean={spec} python={v}")
        if v is not None:
            sig, detail = v
            mc = _shrink_case(case, k, sig) if confirm else case
            r2 = run_impl(mc)
            v2 = [judge_round(o) for o in r2.get("rounds", [])]
            if not any(x is not None and x[0] == sig for x in v2):
                chk.count("flaky:oracle")
                return True
            chk.violation(sig, detail, {"case": mc, "impl": _strip(r2)})
            return True
        m2nd = table.get((ci, k, "model2"))
        if m2nd is not None and "error" not in m2nd and v is None:
            sec = ob["second"]
            chk.traces_validated += 1
            if (m2nd["items"] != sec["items"] or m2nd["text"] != sec["text"]) and not _in_isclose_band(sec["model_case"]):
                chk.disagreements_checked += 1
                r2 = run_impl(case)
                sec2 = (r2["rounds"][k] if k < len(r2.get("rounds", [])) else {}).get("second", {})
                if "model_case" in sec2:
                    mm = drv.batch([sec2["model_case"]])[0]
                    if mm["items"] != sec2["items"] or mm["text"] != sec2["text"]:
                        chk.broken_obligation(
                            "correspondence",
                            "U-listnode, second rebuild from the same values",
                            {"impl": {"items": sec2["items"], "text": sec2["text"]}, "model": {"items": mm["items"], "text": mm["text"]}, "round": k},
                            case,
                        )
                        return True
                chk.count("flaky:correspondence2")
        m = table.get((ci, k, "model"))
        if m is not None:
            chk.traces_validated += 1
            if "error" in m:
                raise MachineryError(f"model driver error: {m['error']}")
            if m["items"] != ob["items"] or m["text"] != ob["text"]:
                chk.disagreements_checked += 1
                # confirm in the parent process on a fresh run
                r2 = run_impl(case)
                ob2 = r2["rounds"][k] if k < len(r2.get("rounds", [])) else None
                if ob2 is None or "model_case" not in ob2:
                    chk.count("flaky:correspondence")
                    return True
                m2 = drv.batch([ob2["model_case"]])[0]
                if m2["items"] == ob2["items"] and m2["text"] == ob2["text"]:
                    chk.count("flaky:correspondence")
                    return True
                if _in_isclose_band(ob2["model_case"]):
                    chk.count("band:isclose-threshold (not compared)")
                    return True
                chk.broken_obligation(
                    "correspondence",
                    "U-listnode (Model/ListNode.lean, Model/Shortcut.lean vs syntax_node.py ListNode/ShortcutNode)",
                    {"impl": {"items": ob2["items"], "text": ob2["text"]}, "model": {"items": m2["items"], "text": m2["text"]}, "round": k},
                    case,
                )
                return True
            if not m["spec"]["ok"]:
                # the model's own text does not read back as its values: the theorem C08_recompress is contradicted
                chk.broken_obligation("correspondence", "model text vs Spec (C08_recompress instance)", {"model": m}, case)
                return True
    return False


def _in_isclose_band(mcase):
    """a multiply validation `isclose(base * written, product)` of this case sits within 1e-12 of the threshold:
    exact rationals (model) and doubles (code) may then decide differently (DESIGN 1.3); such a case is not compared"""
    vals = [None if v["val"] is None else Fraction(*v["val"]) for v in mcase.get("vals", [])]
    nums = [abs(v) for v in vals if v is not None]
    if nums and any(sc["kind"] in ("lin", "log") for sc in mcase.get("shortcuts", [])):
        # isclose has no absolute tolerance: next to an interpolation, a value that is (almost) 0 on the scale of
        # the list is decided by the last bit of the double computation (exact rationals give -1e-16, doubles 0.0)
        if any(v <= Fraction(1, 10**12) * max(nums) for v in nums):
            return True
    for sc in mcase.get("shortcuts", []):
        if sc["kind"] != "mul" or sc.get("mulWritten") is None:
            continue
        w = Fraction(*sc["mulWritten"])
        for b, p_ in zip(vals, vals[1:]):
            if b is None or p_ is None:
                continue
            m = max(abs(b * w), abs(p_))
            if m == 0:
                continue
            r = abs(b * w - p_) / m
            if abs(r - Fraction(1, 10**9)) <= Fraction(1, 10**12):
                return True
    return False


def _strip(ri):
    r = json.loads(json.dumps(ri))
    for ob in r.get("rounds", []):
        ob.pop("model_case", None)
        ob.get("second", {}).pop("model_case", None)
    return r


def _shrink_case(case, k, sig):
    def fails(c):
        r = run_impl(c)
        return any((lambda v: v is not None and v[0] == sig)(judge_round(o)) for o in r.get("rounds", []))

    rounds = case["rounds"][: k + 1]
    best = dict(case, rounds=rounds)
    # shrink the edits of the failing round, then earlier rounds
    for j in range(len(rounds) - 1, -1, -1):
        def f2(edits, j=j):
            c = dict(best, rounds=best["rounds"][:j] + [edits] + best["rounds"][j + 1 :])
            return fails(c)

        edits = shrink_list(best["rounds"][j], f2)
        best = dict(best, rounds=best["rounds"][:j] + [edits] + best["rounds"][j + 1 :])
    return best


def run(chk):
    chk.rule = (
        "U-listnode: a numeric list (numbers, jumps, R/M/I/ILOG/J shortcuts of every count, adjacent and at either end) is parsed "
        "with the real grammar, then 1-3 rounds of edits (set / set to jump / delete / insert number / insert jump at any "
        "position) each followed by update_with_new_values and format; enumerated exhaustively for short lists over {1,2,4,J} "
        "with one shortcut word at every position and every single edit. cards: data-block IMP:N / VOL and TR cards of generated "
        "problems, edited through the API (values, cells appended/removed), written with write_to_file and read back by an "
        "independent reader. A case is non-trivial when its list contains a shortcut and it has at least one edit."
    )
    chk.assumptions = [
        "ValueNode.format (the text of a single number) is opaque to the model: the harness passes each node's own text; its accuracy is property C05. Generated values are exactly printable at the precision of their tokens.",
        "LOG interpolation: 10**x and log10 are replaced in model and Spec by the algebraic relation x^(n+1) = a^(n+1-k) b^k with the tolerance scaled by the power (DESIGN 1.3).",
        "trailing jumps the list does not write are read as defaults (MCNP: omitted trailing entries keep their default, which is what J denotes).",
        "new_vals holds pairwise distinct node objects (a dict keyed by id() is used by the code).",
    ]
    chk.trusted_base = [
        "Lean 4.33.0 kernel",
        "Spec/Shortcut.lean as a reading of MCNP 6.2 manual section 2.8.1 (cross-checked on every case against the independent Python reader tools/vlib/shortcut_ref.py)",
        "hand-written model Model/ListNode.lean + Model/Shortcut.lean, tied to the code by the U-listnode correspondence of this run",
        "harness tools/props/c08.py (serialises the live ShortcutNode/ValueNode objects; calls the real parser, update_with_new_values, format, read_input, write_to_file)",
    ]
    leanio.prove(chk, "MontePyVerif.Props.C08", THEOREMS, "MontePyVerif.C08")
    drv = leanio.Driver(chk, "drv_c08")

    cases = list(CORPUS)
    corpus_dir = os.path.join(os.path.dirname(os.path.dirname(os.path.dirname(os.path.abspath(__file__)))), "corpus", "C08")
    for f in sorted(os.listdir(corpus_dir)) if os.path.isdir(corpus_dir) else []:
        if f.endswith(".json"):
            with open(os.path.join(corpus_dir, f)) as fh:
                payload = json.load(fh)
            c = payload.get("case", {}).get("case") or payload.get("case")
            if c and c.get("unit") == "listnode":
                cases.append(c)
    ncorpus = len(cases)
    rng = chk.rng("listnode-random")
    cases += [gen_random(rng, i) for i in range(chk.pick(4000, 60000))]
    rng4 = chk.rng("produced-edit")
    cases += [gen_produced_edit(rng4, i) for i in range(chk.pick(600, 6000))]
    rng5 = chk.rng("layout")
    cases += [gen_layout(rng5, i) for i in range(chk.pick(900, 12000))]
    cases += [gen_coincidence(rng5, i) for i in range(chk.pick(500, 6000))]
    rng6 = chk.rng("equal-insert")
    cases += [gen_equal_insert(rng6, i) for i in range(chk.pick(600, 8000))]
    rng2 = chk.rng("drift")
    cases += [gen_drift(rng2, i) for i in range(chk.pick(200, 3000))]
    nrandom = len(cases) - ncorpus
    if chk.thorough:
        exh = list(gen_exhaustive(3, 1, 0)) + list(gen_exhaustive(5, 80, chk.seed))
    else:
        exh = list(gen_exhaustive(2, 1, 0)) + list(gen_exhaustive(4, 60, chk.seed))
    cases += exh
    chk.units["U-listnode"] = {"corpus": ncorpus, "random": nrandom, "exhaustive_small": len(exh)}
    chk.exhaustive = {"lists over {1,2,4,J} with one shortcut word at every position x every single edit": "length <= 3 complete" if chk.thorough else "length <= 2 complete", "longer": "strided sample (stride 80 up to length 5)" if chk.thorough else "strided sample (stride 60 up to length 4)"}

    impl = pmap(run_impl, cases, workers=WORKERS, chunksize=64)
    table = _model_results(drv, impl) if drv.ok else {}
    reported = 0
    for ci, (case, ri) in enumerate(zip(cases, impl)):
        chk.note_case(case, _nontrivial(case), sample_every=20000)
        for w in case["text"].split():
            pw = ref.parse_word(w)
            if pw and pw[0] != "number":
                chk.count("shortcut:" + pw[0])
        for edits in case["rounds"]:
            for e in edits:
                chk.count("edit:" + e[0])
        if "parse_err" in ri:
            chk.count("parse:" + ri["parse_err"])
        for ob in ri.get("rounds", []):
            for it in ob.get("items", []):
                if "sc" in it:
                    chk.count("written:" + it["kind"] + ("" if it["sc"] >= 0 else ":orphan"))
        if len(chk.violations) + len(chk.broken) < 12:
            try:
                check_listnode_case(chk, drv, case, ri, table, ci)
            except MachineryError:
                raise
            except Exception as e:  # noqa: BLE001  the harness could not canonicalise what the implementation returned
                chk.broken_obligation(
                    "correspondence",
                    "U-listnode: the harness could not canonicalise the implementation's result",
                    {"harness_exception": repr(e), "impl": _strip(ri)},
                    case,
                )

    # real cards
    rng3 = chk.rng("cards")
    ccases = []
    for f in sorted(os.listdir(corpus_dir)) if os.path.isdir(corpus_dir) else []:
        if f.endswith(".json"):
            with open(os.path.join(corpus_dir, f)) as fh:
                payload = json.load(fh)
            c = payload.get("case", {}).get("case") or payload.get("case")
            if c and c.get("unit") == "cards":
                ccases.append(c)
    ccases += [gen_card_case(rng3, i) for i in range(chk.pick(600, 12000))]
    cobs = pmap(run_card, ccases, workers=WORKERS, chunksize=16)
    chk.units["cards"] = {"generated": len(ccases)}
    for case, ob in zip(ccases, cobs):
        chk.note_case(case, bool(case["edits"]), sample_every=5000)
        chk.count("card:" + case["kind"])
        for e in case["edits"]:
            chk.count("cardedit:" + e[0])
        if "read_err" in ob:
            chk.count("card-read:" + ob["read_err"])
        v = judge_card(case, ob)
        if v is not None:
            ob2 = run_card(case)
            v2 = judge_card(case, ob2)
            if v2 is None or v2[0] != v[0]:
                chk.count("flaky:cards")
                continue
            sig = v[0]

            def fails(edits, case=case, sig=sig):
                c = dict(case, edits=edits)
                x = judge_card(c, run_card(c))
                return x is not None and x[0] == sig

            mc = dict(case, edits=shrink_list(case["edits"], fails)) if len(chk.violations) < 6 else case
            chk.violation(sig, v[1], {"case": mc, "impl": run_card(mc)})


def replay(chk, payload):
    case = payload.get("case", {}).get("case") or payload.get("case")
    if payload.get("verdict") == "no-failing-input-found":
        case = payload["no_longer_checks"][0]["case"]
    chk.rule = "replay of one stored case"
    chk.note_case(case)
    if case.get("unit") == "cards":
        ob = run_card(case)
        v = judge_card(case, ob)
        if v is not None:
            chk.violation(v[0], v[1], {"case": case, "impl": ob})
    else:
        drv = leanio.Driver(chk, "drv_c08")
        ri = run_impl(case)
        table = _model_results(drv, [ri]) if drv.ok else {}
        check_listnode_case(chk, drv, case, ri, table, 0, confirm=False)
    chk.add_obligation("replay", True)
