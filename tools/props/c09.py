"""C09 — per-cell data mean the same in either block and are written exactly once.

prove       : lean/MontePyVerif/Props/C09.lean (printing rule as a truth table over the generated class list; exactly-once,
              alignment, in-block, same-meaning for ALL states and flag assignments; history by induction)
correspond  : unit U-celldata — Model/CellData.lean vs the real code: state after every API operation, and the cards
              of every written file (the real file read by the independent Spec reader) vs the cards the model writes
judge       : the property's own oracle on the REAL written files read by the Spec reader: every datum the API reports
              exactly once, in one block only, in the block the flag asks for, aligned to the cells in cell order,
              inside the data block proper, equal (isclose 1e-9) to the API's value
"""

import glob
import itertools
import json
import os
import re
from fractions import Fraction

from vlib import c09_impl as ci
from vlib import genprob, leanio, spec
from vlib.core import VERIF, canon
from vlib.par import pmap, shrink_list
from vlib.wholefile import fixtures, shrink_text

META = {
    "property_id": "C09",
    "technique": "Lean 4 proof over a hand-written model of the per-cell data placement logic (truth table of the printing rule over the generated class list, exactly-once / alignment / in-block theorems for all states and all flag assignments, history by induction); differential correspondence model vs implementation; Spec reader as oracle on the real files",
    "design_ref": "6 C09",
}

THEOREMS = [
    "C09_registry",
    "C09_rule",
    "C09_rule_table",
    "C09_in_block",
    "C09_exactly_once",
    "C09_no_spurious",
    "C09_aligned",
    "C09_same_meaning",
    "C09_fill_complex_refused",
    "C09_history_wf",
    "C09_history_trees",
    "C09_history",
    "C09_write_frame",
    "C09_values_only",
    "C09_undo",
    "C09_load_aligned",
    "C09_load_redundant",
    "C09_imp_cell_once",
    "C09_imp_data_aligned",
    "C09_imp_refused",
    "C09_imp_data_once",
    "C09_imp_shared_tree_refuted",
    "C09_slots_others",
    "C09_slots_complete",
    "C09_slot_needed",
    "C09_cell_keywords",
]

CLASSES = ci.CLASSES
FEATURES = {"transforms", "universes", "lat_simple", "complements", "data_placement", "shortcuts", "message"}
PCODE = {"n": 0, "p": 1, "e": 2}
ALL_FLAGS = [list(f) for f in itertools.product([False, True], repeat=5)]
CORPUS_DIR = os.path.join(VERIF, "corpus", "C09")


# --------------------------------------------------------------------------- generators
SMALL = """small problem
1 0 -1 {c1}
2 0 1 -2 {c2}
3 0 2 {c3}

1 so 1
2 so 2

mode n p
{data}nps 10

"""


def small_texts():
    """hand-made shapes: data in the cell block, in the data block, mixed per class; jumps in the middle; u=0; lattice"""
    out = []
    out.append(SMALL.format(c1="imp:n=1 imp:p=2 vol=3 u=2", c2="imp:n,p=1 fill=2 lat=1", c3="imp:n=0 imp:p=0", data=""))
    out.append(SMALL.format(c1="", c2="", c3="", data="imp:n 1 1 0\nimp:p 2 1 0\nvol 3 j 2.5\nu 2 j j\nlat j 1\nfill j 2\n"))
    out.append(SMALL.format(c1="vol=3", c2="", c3="vol=1.5", data="imp:n,p 1 1 0\nu 2 2r\n"))
    out.append(SMALL.format(c1="imp:n=1 imp:p=1 u=-2", c2="imp:n=2 imp:p=1", c3="imp:n=0 imp:p=0", data="vol no 2j 7\nfill j 2\n"))
    out.append(SMALL.format(c1="imp:n,p=1", c2="imp:n,p=1 u=0", c3="imp:n,p=0", data=""))
    out.append(SMALL.format(c1="u=5", c2="u=5 lat=2 fill=6", c3="u=6", data="imp:n 1 2r\nimp:p 1 1 0\n"))
    # importance shapes: shared entries on every cell / some cells, three particles, shared data-block cards
    out.append(SMALL.format(c1="imp:n,p=1", c2="imp:n,p=2", c3="imp:n,p=0", data=""))
    out.append(SMALL.format(c1="imp:n,p,e=1", c2="imp:n,p,e=1 vol=2", c3="imp:n,p,e=0", data="").replace("mode n p", "mode n p e"))
    out.append(SMALL.format(c1="imp:n,p=1 imp:e=2", c2="imp:n=1 imp:p,e=3", c3="imp:n,p,e=0", data="").replace("mode n p", "mode n p e"))
    out.append(SMALL.format(c1="", c2="vol=2", c3="", data="imp:n,p,e 1 2 0\n").replace("mode n p", "mode n p e"))
    out.append(SMALL.format(c1="", c2="", c3="u=3", data="imp:n,e 1 1 0\nimp:p 2 2 0\n").replace("mode n p", "mode n p e"))
    return out


def small_texts_other():
    """cells that carry OTHER parameters (every keyword of OTHER_PARAMS once, in three groups of four) next to per-cell
    data given in the data block / on the cards / mixed"""
    out = []
    for g in range(0, len(OTHER_PARAMS), 4):
        ks = []
        for kw, numbered, parts, values in OTHER_PARAMS[g:g + 4]:
            ks.append(kw + ("1" if numbered else "") + (":n" if parts else "") + "=" + values[0])
        out.append(SMALL.format(c1=ks[0] + " " + ks[1], c2=ks[2], c3=ks[3],
                                data="imp:n 1 1 0\nimp:p 2 1 0\nvol 3 j 2.5\nu 2 5 2\nlat j 1\nfill j 2\n"))
        out.append(SMALL.format(c1=f"imp:n=1 {ks[0]} imp:p=2 vol=3 u=2", c2=f"{ks[1]} imp:n,p=1 fill=2 {ks[2]} lat=1", c3=f"imp:n=0 imp:p=0 {ks[3]}", data=""))
        out.append(SMALL.format(c1=f"{ks[3]} vol=3", c2=f"{ks[0]}", c3=f"{ks[2]} vol=1.5 {ks[1]}", data="imp:n,p 1 1 0\nu 2 2 j\nfill j j 2\n"))
    return out


def gen_ops(rng, ncells, mode, numbers, unis, nsurf, length=None, imp_bias=0.0):
    """a VALID history: cell insertions, deletions, reorderings, per-cell data edits and observations"""
    n = ncells
    ops = []
    used = set(numbers)
    unis = list(unis) or [7]
    for _ in range(length if length is not None else rng.randint(1, 5)):
        r = rng.random()
        if rng.random() < imp_bias:
            # a per-cell importance edit that makes one particle differ from the others / equal to them again
            ops.append(["imp", rng.randrange(n), rng.choice(mode), float(rng.choice([0, 1, 2, 3, 8, 0.5]))])
            continue
        if rng.random() < 0.06:
            ops.append(["observe", rng.randrange(n)])
            continue
        if r < 0.18:
            num = max(used) + rng.randint(1, 5)
            used.add(num)
            imp = {m: float(rng.choice([0, 1, 1, 2, 4])) for m in mode}
            if rng.random() < 0.15 and len(mode) > 1:
                imp.pop(rng.choice(mode))
            ops.append(["append", {"number": num, "surf": rng.randrange(nsurf), "imp": imp,
                                   "vol": rng.choice([None, None, 2.5, 10.0]), "u": rng.choice([None, None] + unis),
                                   "fill": rng.choice([None, None, None] + unis), "lat": rng.choice([None, None, None, 1])}])
            n += 1
        elif r < 0.30 and n > 1:
            ops.append(["remove", rng.randrange(n)])
            n -= 1
        elif r < 0.38 and n > 1:
            ops.append(["move_end", rng.randrange(n)])
        elif r < 0.44 and n > 1:
            perm = list(range(n))
            rng.shuffle(perm)
            ops.append(["reorder", perm])
        elif r < 0.56:
            ops.append(["imp", rng.randrange(n), rng.choice(mode), float(rng.choice([0, 1, 2, 3, 0.5]))])
        elif r < 0.60:
            ops.append(["imp_all", rng.randrange(n), float(rng.choice([0, 1, 2, 3]))])
        elif r < 0.68:
            ops.append(["vol", rng.randrange(n), rng.choice([1.5, 20.0, 0.125, 3.0])])
        elif r < 0.73:
            ops.append(["del_vol", rng.randrange(n)])
        elif r < 0.81:
            ops.append(["u", rng.randrange(n), rng.choice(unis + [9, 0])])  # 0: back to the base universe (unset)
        elif r < 0.87:
            ops.append(["fill", rng.randrange(n), rng.choice(unis + [None])])
        elif r < 0.93:
            ops.append(["lat", rng.randrange(n), rng.choice([1, 2, None])])
        elif r < 0.96:
            ops.append(["vol_calc", rng.random() < 0.5])
        else:
            ops.append(["not_truncated", rng.randrange(n), rng.random() < 0.7])
    return ops


def shape_importances(rng, gp):
    """importance shapes the placement logic is sensitive to: three-particle modes, particles with equal vectors
    (printed together on one data-block card), entries shared by several particles on every cell / some cells"""
    r = rng.random()
    if r < 0.35:
        return "default"
    if rng.random() < 0.5 and "e" not in gp["mode"]:
        gp["mode"] = gp["mode"] + ["e"]
        if "p" not in gp["mode"] and rng.random() < 0.5:
            gp["mode"].insert(1, "p")
    mode = gp["mode"]
    for c in gp["cells"]:
        for m in mode:
            c["imp"].setdefault(m, float(rng.choice([0, 1, 1, 2, 4])))
    if len(mode) < 2:
        return "default"
    kind = rng.choice(["all-equal", "all-equal", "two-equal", "per-cell-groups"])
    if kind == "all-equal":
        for c in gp["cells"]:
            for m in mode:
                c["imp"][m] = c["imp"][mode[0]]
    elif kind == "two-equal":
        a, b = rng.sample(mode, 2)
        for c in gp["cells"]:
            c["imp"][b] = c["imp"][a]
    else:
        for c in gp["cells"]:
            if rng.random() < 0.6:
                a, b = rng.sample(mode, 2)
                c["imp"][b] = c["imp"][a]
    gp["imp_share"] = rng.choice(["always", "always", None, "never"])
    return kind + ":" + str(gp["imp_share"])


# every OTHER parameter a cell card may carry (MCNP manual, cell parameters; the lexer's cell keywords minus the five
# per-cell classes, LIKE/BUT and TRCL, which genprob has a feature of its own for): MontePy keeps them in the cell's
# parameters tree only, next to the nodes of the five modifier classes the writer walks.  (keyword, numbered, particles, values)
OTHER_PARAMS = [("nonu", False, False, ["0", "1", "2"]), ("unc", False, True, ["0", "1"]), ("tmp", None, False, ["2.53e-8", "3.1e-8"]),
                ("pwt", False, False, ["1", "-1"]), ("ext", False, True, ["0.5", "0"]), ("fcl", False, True, ["1", "0.5"]),
                ("wwn", True, True, ["0.5", "-1"]), ("dxc", True, True, ["0.5", "1"]), ("pd", True, False, ["0.5", "1"]),
                ("elpt", False, True, ["1e-3", "1e-2"]), ("cosy", False, False, ["1", "2"]), ("bflcl", False, False, ["1", "0"])]


def other_param(rng, mode, kw=None):
    """one other cell parameter (key, value): numbered / with particle designators where the keyword takes them"""
    kw, numbered, parts, values = rng.choice(OTHER_PARAMS) if kw is None else [r for r in OTHER_PARAMS if r[0] == kw][0]
    key = kw
    if numbered or (numbered is None and rng.random() < 0.5):
        key += str(rng.randint(1, 2))
    if parts:
        ps = [rng.choice(mode)] if rng.random() < 0.75 or len(mode) < 2 else rng.sample(mode, 2)
        key += ":" + ",".join(ps)
    return key, rng.choice(values)


def shape_other_params(rng, gp):
    """cells that carry OTHER parameters next to (or instead of) their per-cell data, whichever block gives those:
    in half of the problems every cell gets 0-2 of them (keys distinct on one card)"""
    if rng.random() < 0.5:
        return
    for c in gp["cells"]:
        extra = dict(c.get("extra_params") or [])
        for _ in range(rng.choice([0, 1, 1, 2])):
            k, v = other_param(rng, gp["mode"])
            extra.setdefault(k, v)
        if extra:
            c["extra_params"] = sorted(extra.items())


# --------------------------------------------------------------------------- undo: edits that restore an earlier value
def order_after(numbers, ops):
    """the cell numbers in cell order after the history (operations address cells by position)"""
    order = list(numbers)
    for o in ops:
        if o[0] == "append":
            order.append(o[1]["number"])
        elif o[0] == "remove":
            del order[o[1]]
        elif o[0] == "move_end":
            order.append(order.pop(o[1]))
        elif o[0] == "reorder":
            order = [order[j] for j in o[1]]
    return order


def touched_by(numbers, ops, mode):
    """[(cell number, class, particle)] in first-touch order: every per-cell datum the history assigned or deleted"""
    order = list(numbers)
    out = []
    for o in ops:
        cls = {"vol": "vol", "del_vol": "vol", "u": "u", "fill": "fill", "lat": "lat", "imp": "imp", "imp_all": "imp"}.get(o[0])
        if cls is not None:
            for m in ([o[2]] if o[0] == "imp" else list(mode) if o[0] == "imp_all" else [None]):
                if (order[o[1]], cls, m) not in out:
                    out.append((order[o[1]], cls, m))
        order = order_after(order, [o])
    return out


def restore_op(cls, pos, orig, m=None):
    """the assignment that gives the cell at `pos` the value the FILE gave it (`orig`: its entry of info["orig"]);
    None where the API has no such assignment (a fill with a transform / a matrix; a particle the file gave no importance)"""
    if cls == "vol":
        return ["del_vol", pos] if orig["vol"] is None else ["vol", pos, orig["vol"]]
    if cls == "u":
        return ["u", pos, orig["u"] or 0]
    if cls == "lat":
        return ["lat", pos, orig["lat"]]
    if cls == "fill":
        return None if orig["fill"] == "complex" else ["fill", pos, orig["fill"]]
    return ["imp", pos, m, orig["imp"][m]] if m in orig["imp"] else None


def disturb_op(rng, cls, pos, orig, unis, m=None):
    """an edit that takes the datum away from the file's value: UNSET it (delete the volume, back to universe 0, no
    fill, no lattice) where it had one, else / otherwise another value"""
    unset = rng.random() < 0.65
    if cls == "vol":
        return ["del_vol", pos] if unset and orig["vol"] is not None else ["vol", pos, rng.choice([v for v in (7.25, 0.5, 12.0) if v != orig["vol"]])]
    if cls == "u":
        return ["u", pos, 0] if unset and orig["u"] else ["u", pos, rng.choice([v for v in list(unis) + [9] if v != orig["u"]])]
    if cls == "lat":
        return ["lat", pos, None] if unset and orig["lat"] is not None else ["lat", pos, 2 if orig["lat"] == 1 else 1]
    if cls == "fill":
        return ["fill", pos, None] if unset and orig["fill"] is not None else ["fill", pos, rng.choice([v for v in list(unis) + [9] if v != orig["fill"]])]
    return ["imp", pos, m, float(rng.choice([v for v in (0, 1, 2, 3, 8) if v != orig["imp"].get(m)]))]


def undo_all(info, ops, rng=None, keep=1.0):
    """restore every datum of a cell of the file that the history touched (and that is still in the problem) to the
    value the file gave it; with keep < 1 some are left as they are"""
    order = order_after(info["numbers"], ops)
    out = []
    for num, cls, m in touched_by(info["numbers"], ops, info["mode"]):
        if num in info["orig"] and num in order and (rng is None or rng.random() < keep):
            o = restore_op(cls, order.index(num), info["orig"][num], m)
            if o is not None:
                out.append(o)
    return out


def gen_undo_history(rng, text, limit, info):
    """UNDO AFTER AN INTERMEDIATE WRITE: flags (biased to the data block), [write], then 1-2 rounds of: take 1-3 data of
    cells of the file away from the file's value (unset or changed), [observe], WRITE, give them exactly the file's
    value back (now and then all but one), WRITE. Every written file is judged."""
    ops = [["flags", [rng.random() < 0.7 for _ in CLASSES]]]
    if rng.random() < 0.5:
        ops.append(["write"])
    nums = info["numbers"]
    for _ in range(rng.randint(1, 2)):
        targets = []
        for _ in range(rng.randint(1, 3)):
            pos = rng.randrange(len(nums))
            cls = rng.choice(["vol", "vol", "u", "u", "fill", "lat", "imp"])
            m = rng.choice(info["mode"]) if cls == "imp" else None
            orig = info["orig"][nums[pos]]
            if (pos, cls, m) in targets or (cls == "fill" and orig["fill"] == "complex") or (cls == "imp" and m not in orig["imp"]):
                continue
            targets.append((pos, cls, m))
        for pos, cls, m in targets:
            ops.append(disturb_op(rng, cls, pos, info["orig"][nums[pos]], info["unis"], m))
        if rng.random() < 0.15:
            ops.append(["observe", rng.randrange(len(nums))])
        ops.append(["write"])
        back = [restore_op(cls, pos, info["orig"][nums[pos]], m) for pos, cls, m in targets]
        rng.shuffle(back)
        if len(back) > 1 and rng.random() < 0.2:
            back.pop()
        ops += back
        ops.append(["write"])
    return {"text": text, "limit": limit, "ops": ops, "src": "undo"}


# hand-made problems whose per-cell values are known: (imp n, imp p, vol, u, lat, fill) per cell
UNDO_VALUES = [
    # every cell holds every datum: the data-block vectors have no jump
    [{"imp": {"n": 1.0, "p": 1.0}, "vol": 1.5, "u": 5, "lat": 1, "fill": 6},
     {"imp": {"n": 2.0, "p": 1.0}, "vol": 2.5, "u": 5, "lat": 2, "fill": 6},
     {"imp": {"n": 0.0, "p": 0.0}, "vol": 3.5, "u": 6, "lat": 1, "fill": 5}],
    # jumps at the end / in the middle / at the start
    [{"imp": {"n": 1.0, "p": 2.0}, "vol": 1.5, "u": 5, "lat": None, "fill": None},
     {"imp": {"n": 1.0, "p": 2.0}, "vol": None, "u": 6, "lat": 1, "fill": 5},
     {"imp": {"n": 0.0, "p": 0.0}, "vol": 3.5, "u": None, "lat": 2, "fill": 5}],
]


def undo_small_text(values, in_data):
    """the problem with the classes of `in_data` given in the data block, the others on the cell cards"""
    def word(v):
        return "j" if v is None else ("%g" % v)
    cards = []
    for c in values:
        ps = []
        if "imp" not in in_data:
            ps += [f"imp:{m}={word(v)}" for m, v in c["imp"].items()]
        ps += [f"{k}={word(c[k])}" for k in ("vol", "u", "lat", "fill") if k not in in_data and c[k] is not None]
        cards.append(" ".join(ps))
    data = ""
    if "imp" in in_data:
        data += "".join(f"imp:{m} " + " ".join(word(c["imp"][m]) for c in values) + "\n" for m in ("n", "p"))
    for k in ("vol", "u", "lat", "fill"):
        if k in in_data:
            data += k + " " + " ".join(word(c[k]) for c in values) + "\n"
    return SMALL.format(c1=cards[0], c2=cards[1], c3=cards[2], data=data)


def small_undo_cases():
    """EXHAUSTIVE over 2 value tables x 3 placements (all in the data block / all on the cards / mixed) x every cell x
    every class x {unset, other value} x 4 flag vectors x {write first or not}: flags, [write], the edit, WRITE, the
    file's value assigned again, WRITE"""
    cases = []
    for values in UNDO_VALUES:
        for in_data in (("imp", "vol", "u", "lat", "fill"), (), ("vol", "fill")):
            text = undo_small_text(values, in_data)
            for pos, c in enumerate(values):
                orig = {"imp": c["imp"], "vol": c["vol"], "u": c["u"], "lat": c["lat"], "fill": c["fill"]}
                for cls in ("vol", "u", "lat", "fill", "imp"):
                    m = "p" if cls == "imp" else None
                    edits = []
                    if cls != "imp" and orig[cls] is not None:
                        edits.append({"vol": ["del_vol", pos], "u": ["u", pos, 0], "lat": ["lat", pos, None], "fill": ["fill", pos, None]}[cls])
                    edits.append({"vol": ["vol", pos, 7.25], "u": ["u", pos, 9], "lat": ["lat", pos, 2 if orig["lat"] == 1 else 1],
                                  "fill": ["fill", pos, 9], "imp": ["imp", pos, "p", 8.0]}[cls])
                    back = restore_op(cls, pos, orig, m)
                    for e in edits:
                        for fl in ([True] * 5, [False] * 5, [False, True, True, False, False], [True, False, False, True, True]):
                            for first in (False, True):
                                cases.append({"text": text, "limit": 128, "src": "small-undo",
                                              "ops": [["flags", fl]] + ([["write"]] if first else []) + [e, ["write"], back, ["write"]]})
    return cases


def gen_problem(rng):
    gp = genprob.generate(rng, features=FEATURES)
    shape_importances(rng, gp)
    shape_other_params(rng, gp)
    style = "plain" if rng.random() < 0.85 else "random"
    limit = 128 if rng.random() < 0.8 else 80
    text = genprob.render(gp, rng, limit, style)
    unis = sorted({c["u"] for c in gp["cells"] if c["u"]} | {c["fill"] for c in gp["cells"] if c["fill"]})
    info = {"ncells": len(gp["cells"]), "mode": gp["mode"], "numbers": [c["number"] for c in gp["cells"]],
            "unis": unis, "nsurf": len(gp["surfaces"]), "fill_tr": any(c["fill_tr"] is not None for c in gp["cells"]),
            # the value of every per-cell datum AS THE FILE GIVES IT, by cell number (what an undo restores)
            "orig": {c["number"]: {"imp": dict(c["imp"]), "vol": c["vol"], "u": c["u"], "lat": c.get("lat"),
                                   "fill": "complex" if (isinstance(c["fill"], list) or c["fill_tr"] is not None) else c["fill"]}
                     for c in gp["cells"]}}
    return text, limit, info


def gen_cases(chk):
    cases = []
    # 1. corpus of minimised past failures
    for f in sorted(glob.glob(os.path.join(CORPUS_DIR, "*.json"))):
        with open(f) as fh:
            d = json.load(fh)
        for c in d.get("cases", [d.get("case")] if d.get("case") else []):
            cases.append(dict(c, src="corpus:" + os.path.basename(f)))
    ncorpus = len(cases)
    # 2. small hand-made shapes x every single operation of a small alphabet x all 32 flag vectors (exhaustive):
    #    flags, WRITE, the operation, WRITE again — the object model after a write must still write a correct file
    alphabet = [[], [["remove", 0]], [["remove", 1]], [["move_end", 0]], [["reorder", [2, 0, 1]]],
                [["append", {"number": 9, "surf": 0, "imp": {"n": 1.0, "p": 2.0, "e": 2.0}, "vol": 4.0, "u": 2, "fill": None, "lat": None}]],
                [["append", {"number": 9, "surf": 0, "imp": {"n": 1.0}, "vol": None, "u": None, "fill": None, "lat": None}]],
                [["imp", 1, "p", 3.0]], [["imp", 2, "n", 8.0]], [["imp", 0, "e", 5.0]], [["vol", 1, 2.0]], [["del_vol", 0]],
                [["u", 2, 2]], [["u", 0, 9]], [["fill", 0, 2]],
                [["fill", 1, None]], [["lat", 2, 2]], [["lat", 1, None]], [["vol_calc", False]], [["imp_all", 0, 2.0]],
                [["observe", 1]]]
    nsmall = 0
    few_flags = [[i, a, b, b, b] for i in (False, True) for a in (False, True) for b in (False, True)]
    for nshape, text in enumerate(small_texts()):
        three = "mode n p e" in text
        for ops in alphabet:
            ops = [o if o[0] != "append" or three else ["append", dict(o[1], imp={k: v for k, v in o[1]["imp"].items() if k != "e"})] for o in ops]
            if not three and any(o[0] == "imp" and o[2] == "e" for o in ops):
                continue
            # the first six shapes under all 32 flag vectors; the importance shapes under 8 (IMP x VOL x the rest)
            for fl in (ALL_FLAGS if nshape < 6 else few_flags):
                cases.append({"text": text, "limit": 128, "ops": [["flags", fl], ["write"]] + ops + [["write"]], "src": "small"})
                nsmall += 1
    # 2b. the same for cells that carry OTHER parameters: 9 shapes x 12 of the operations x 8 flag vectors (IMP x U x the rest)
    u_flags = [[i, b, u, b, b] for i in (False, True) for u in (False, True) for b in (False, True)]
    for text in small_texts_other():
        for ops in alphabet:
            if any(o[0] == "imp" and o[2] == "e" for o in ops) or (ops and ops[0][0] in ("reorder", "imp_all", "vol_calc", "observe", "lat", "del_vol")) or ops == [["remove", 1]]:
                continue
            ops = [o if o[0] != "append" else ["append", dict(o[1], imp={k: v for k, v in o[1]["imp"].items() if k != "e"})] for o in ops]
            for fl in u_flags:
                cases.append({"text": text, "limit": 128, "ops": [["flags", fl], ["write"]] + ops + [["write"]], "src": "small"})
                nsmall += 1
    # 2c. undo after an intermediate write, exhaustively on hand-made problems whose values are known
    undo_small = small_undo_cases()
    cases += undo_small
    nsmall += len(undo_small)
    # 3. MontePy's own fixtures: every flag vector, then the opposite vector, then back (switching back and forth)
    nfix = 0
    fx = fixtures()
    for name, text in fx:
        for fl in (ALL_FLAGS if chk.thorough else ALL_FLAGS[:: 3] + [ALL_FLAGS[-1]]):
            inv = [not b for b in fl]
            cases.append({"text": text, "limit": 128, "ops": [["flags", fl], ["write"], ["flags", inv], ["write"], ["flags", fl], ["write"]],
                          "src": "fixture:" + name})
            nfix += 1
    # 4. generated problems x histories x ALL 32 flag vectors: history, flags, WRITE, further edits, WRITE (, flags, WRITE)
    rng = chk.rng("problems")
    nprob = chk.pick(48, 1400)
    ngen = 0
    for i in range(nprob):
        text, limit, info = gen_problem(rng)
        ops = gen_ops(rng, info["ncells"], info["mode"], info["numbers"], info["unis"], info["nsurf"],
                      length=0 if i % 4 == 0 else None)
        n = info["ncells"] + sum(1 if o[0] == "append" else -1 if o[0] == "remove" else 0 for o in ops)
        nums = info["numbers"] + [o[1]["number"] for o in ops if o[0] == "append"]
        ops_b = gen_ops(rng, n, info["mode"], nums, info["unis"], info["nsurf"], length=rng.randint(1, 2), imp_bias=0.5)
        tail = []
        r = rng.random()
        if r < 0.3:
            tail = [["flags", [rng.choice([True, False, None]) for _ in CLASSES]], ["write"]]
        elif r < 0.6:
            # every datum of a cell of the file that the history touched gets the file's value back, WRITE
            tail = undo_all(info, ops + ops_b) + [["write"]]
        for fl in ALL_FLAGS:
            cases.append({"text": text, "limit": limit, "ops": ops + [["flags", fl], ["write"]] + ops_b + [["write"]] + tail, "src": "generated"})
            ngen += 1
    # 5. long histories over {edit, flag change, WRITE, observation}: the flags are sticky (set once, then changed one or
    #    two at a time now and then), every segment ends in a write, every written file is judged
    rng = chk.rng("histories")
    nhist = chk.pick(220, 6000)
    for i in range(nhist):
        text, limit, info = gen_problem(rng)
        ops = [["flags", [rng.random() < 0.5 for _ in CLASSES]]]
        if rng.random() < 0.5:
            ops.append(["write"])
        n, nums = info["ncells"], list(info["numbers"])
        for _ in range(rng.randint(2, 5)):
            seg = gen_ops(rng, n, info["mode"], nums + [o[1]["number"] for o in ops if o[0] == "append"], info["unis"], info["nsurf"],
                          length=rng.randint(0, 3), imp_bias=0.35)
            for o in seg:
                n += 1 if o[0] == "append" else -1 if o[0] == "remove" else 0
            ops += seg
            if rng.random() < 0.35:
                fl = [None] * len(CLASSES)
                for k in rng.sample(range(len(CLASSES)), rng.randint(1, 2)):
                    fl[k] = rng.random() < 0.5
                ops.append(["flags", fl])
            ops.append(["write"])
            if rng.random() < 0.2:
                # an undo segment: (most of) what the history touched so far gets the file's value back, WRITE
                back = undo_all(info, ops, rng, keep=0.85)
                if back:
                    ops += back + [["write"]]
        cases.append({"text": text, "limit": limit, "ops": ops, "src": "history"})
    # 6. undo after an intermediate write on generated problems (see gen_undo_history)
    rng = chk.rng("undo")
    nundo = chk.pick(260, 6000)
    for i in range(nundo):
        text, limit, info = gen_problem(rng)
        cases.append(gen_undo_history(rng, text, limit, info))
    chk.units["U-celldata"] = {"corpus": ncorpus, "small_exhaustive": nsmall, "fixtures": nfix, "generated_x32": ngen,
                               "histories": nhist, "undo_histories": nundo, "small_undo": len(undo_small), "fixture_files": len(fx)}
    return cases


# --------------------------------------------------------------------------- model side
def _pc(m):
    if m not in PCODE:
        PCODE[m] = len(PCODE)
    return PCODE[m]


def model_cell(c):
    return {"number": c["number"],
            "imp": [{"p": _pc(e["p"]), "v": e["val"] or [0, 1], "cl": [_pc(x) for x in e["cl"]]} for e in c["imp_entries"]],
            "vol": c["vol"], "u": c["u"], "ntr": c["ntr_raw"], "lat": c["lat"], "fill": c["fill"], "fill_complex": c["fill_complex"], "fill_multi": c["fill_multi"], "set_in": c["set_in"]}


def model_state_json(s):
    return {"cells": [model_cell(c) for c in s["cells"]], "mode": [_pc(m) for m in s["mode"]], "flags": s["flags"],
            "vol_calc": s["vol_calc"], "data_inputs": s["data_inputs"],
            "real_tree": [[_pc(p), t] for p, t in s.get("real_tree", [])]}


def model_op(op, pre):
    """the operation in the model's protocol; `pre` = abstraction of the real state before the operation"""
    name = op[0]
    if name == "append":
        s = op[1]
        imp = [{"p": 0, "v": [0, 1], "cl": [0]}]  # Cell(): a blank Importance holds the neutron default tree
        for m, x in (s.get("imp") or {}).items():
            f = ci.frac(x)
            hit = [e for e in imp if e["p"] == _pc(m)]
            if hit:
                hit[0]["v"] = f
            else:
                imp.append({"p": _pc(m), "v": f, "cl": [_pc(m)]})
        return ["append", {"number": s["number"], "imp": imp, "vol": ci.frac(s.get("vol")), "u": s.get("u"), "ntr": False,
                           "lat": s.get("lat"), "fill": s.get("fill"), "fill_complex": False, "fill_multi": False, "set_in": [False] * 5}]
    if name == "imp":
        # a particle that shares one parsed tree (imp:n,p=1) gets its own copy before its value changes (C03's repair):
        # only the edited particle changes
        return ["imp", op[1], [_pc(op[2])], ci.frac(op[3])]
    if name == "imp_all":
        return ["imp_all", op[1], ci.frac(op[2])]
    if name == "vol":
        return ["vol", op[1], ci.frac(op[2])]
    if name == "del_vol":
        return ["vol", op[1], None]
    if name == "observe":
        return ["observe"]
    return op


def params_of_den(den_in):
    """the parameters of every cell card of the INPUT as the Spec reads them, in the shape of MontePy's parameters tree:
    [key (prefix + number + particles, lower case, no modifier), prefix]; one more, empty, list for a cell made by Cell()"""
    out = []
    for c in den_in["cells"]:
        ps = []
        for key, _ in c["params"]:
            k = "".join(str(key).lower().split()).lstrip("*")
            m = re.match(r"[a-z]+", k)
            ps.append([k, m.group(0) if m else k])
        out.append(ps)
    return out + [[]]


def build_model_case(case, ri, den_in=None):
    """-> (model case, number of steps that can be compared) or None"""
    if ri.get("read") != "ok":
        return None
    ops = []
    pre = ri["state0"]
    n = 0
    for op, st in zip(case["ops"], ri["steps"]):
        if st["out"].startswith("op-raised") or st["out"] == "hang":
            break  # an operation the API refused: the history ends here (valid histories are the quantifier)
        ops.append(model_op(op, pre))
        if "state" in st:
            pre = st["state"]
        n += 1
    mc = {"state": model_state_json(ri["state0"]), "ops": ops}
    if den_in is not None and spec.well_formed(den_in)[0] and len(den_in["cells"]) == len(ri["state0"]["cells"]):
        mc["params"] = params_of_den(den_in)
    return mc, n


def canon_state(s, model):
    cells = []
    for c in s["cells"]:
        if model:
            imp = sorted((e["p"], Fraction(*e["v"])) for e in c["imp"])
            ntr = c["ntr"]
        else:
            imp = sorted((_pc(e["p"]), Fraction(*(e["val"] or [0, 1]))) for e in c["imp_entries"])
            ntr = c["ntr_raw"]
        cells.append((c["number"], tuple(imp), _q(c["vol"]), c["u"], ntr, c["lat"], c["fill"], c["fill_complex"], c["fill_multi"]))
    return (tuple(cells), tuple(s["flags"]), s["vol_calc"])


def tree_partition(s, model):
    """identity of the data-block importance trees as a partition of the particles (which particles share ONE tree
    object); the order of `_real_tree` and of newly made trees depends on set iteration, a partition does not"""
    classes = {}
    for p, t in s.get("real_tree", []):
        classes.setdefault(t, []).append(p if model else _pc(p))
    return tuple(sorted(tuple(sorted(c)) for c in classes.values()))


def _q(v):
    return None if v is None else Fraction(*v)


def cards_of_den(den):
    """the written file as read by the Spec, at the abstraction of the model's cards"""
    cells = []
    for c in den["cells"]:
        ps = []
        for key, vals in c["params"]:
            base, parts = spec.split_key(key)
            b = base.lstrip("*")
            if b in CLASSES:
                for part in parts:
                    ps.append((b, None if part is None else _pc(part), _val(vals[0]) if vals else None))
        cells.append((c["number"], sorted(ps, key=str)))
    data = []
    for card in den["data"]:
        base, parts = spec.split_key(card["name"])
        b = base.lstrip("*")
        if b in CLASSES:
            ent = list(card["entries"])
            no = False
            if b == "vol" and ent and isinstance(ent[0], dict) and ent[0].get("w") == "no":
                ent, no = ent[1:], True
            vec = [_val(v) for v in ent]
            while vec and vec[-1] is None:
                vec.pop()
            for part in parts:
                data.append((b, None if part is None else _pc(part), tuple(vec), no))
    return cells, sorted(data, key=str)


def _val(v):
    if v == "J":
        return None
    if isinstance(v, dict) and "n" in v:
        return Fraction(v["n"][0], v["n"][1])
    return "?" + canon(v)


def cards_of_model(w):
    cells = []
    for c in w["cells"]:
        ps = []
        for p in c["params"]:
            for part in (p["ps"] if p["k"] == "imp" else [None]):
                ps.append((p["k"], part, Fraction(*p["v"])))
        cells.append((c["number"], sorted(ps, key=str)))
    data = []
    for c in w["data"]:
        vec = [_q(v) for v in c["vec"]]
        while vec and vec[-1] is None:
            vec.pop()
        for part in (c["ps"] if c["k"] == "imp" else [None]):
            data.append((c["k"], part, tuple(vec), c["no"]))
    return cells, sorted(data, key=str)


def same_cards(a, b, api):
    """cards of the real file vs cards of the model, at the property's level: same keys, values isclose 1e-9.
    A complex FILL (transform / matrix) is compared by presence only. Importances of particles outside MODE that a
    combined entry drags along are not per-cell data of this problem."""
    (ca, da), (cb, db) = a, b
    if len(ca) != len(cb):
        return f"{len(ca)} vs {len(cb)} cell cards"
    mode = {_pc(m) for m in api["mode"]}
    for i, ((na, pa), (nb, pb)) in enumerate(zip(ca, cb)):
        if na != nb:
            return f"cell[{i}] number {na} vs {nb}"
        pa = [x for x in pa if x[0] != "imp" or x[1] in mode]
        pb = [x for x in pb if x[0] != "imp" or x[1] in mode]
        if [(x[0], x[1]) for x in pa] != [(x[0], x[1]) for x in pb]:
            return f"cell[{i}] #{na} params {pa} vs {pb}"
        for x, y in zip(pa, pb):
            if x[0] == "fill" and (api["cells"][i]["fill_complex"] or api["cells"][i]["fill_multi"]):
                continue
            if not _close(x[2], y[2]):
                return f"cell[{i}] #{na} {x} vs {y}"
    da = [x for x in da if x[0] != "imp" or x[1] in mode]
    db = [x for x in db if x[0] != "imp" or x[1] in mode]
    if [(x[0], x[1], len(x[2]), x[3]) for x in da] != [(x[0], x[1], len(x[2]), x[3]) for x in db]:
        return f"data cards {da} vs {db}"
    for x, y in zip(da, db):
        for u, v in zip(x[2], y[2]):
            if (u is None) != (v is None) or (u is not None and not _close(u, v)):
                return f"data card {x} vs {y}"
    return None


def _close(a, b):
    if isinstance(a, str) or isinstance(b, str) or a is None or b is None:
        return a == b
    return spec.is_close(a, b)


# --------------------------------------------------------------------------- judging one case
def judge_read(case, ri, den_in):
    """the READ half of the property: what the API reports right after reading = what the input file denotes (by the
    Spec reader), whichever block gives it. Only for inputs the Spec finds well-formed. -> None | (signature, what)"""
    if ri.get("read") != "ok" or den_in is None or "state0" not in ri:
        return None
    ok, _ = spec.well_formed(den_in)
    if not ok:
        return None
    v = ci.judge_write(ri["state0"], case["text"], den_in, None, check_block=False)
    if v is None:
        return None
    cls, datum, detail = v
    sig = {"mechanism": "cell-data", "class": "read-" + cls, "datum": datum, "flags": None, "history": "read"}
    return sig, f"after reading: {cls} {datum}: {detail}"


def judge_case(case, ri, dens):
    """first violation of the property in the case. dens: list of denotations, one per write that produced text.
    -> None | (step index, signature, what)"""
    if ri.get("read") != "ok":
        return None
    k = 0
    for j, (op, st) in enumerate(zip(case["ops"], ri["steps"])):
        if op[0] != "write":
            if st["out"] != "ok":
                return None
            continue
        den = None
        if "text" in st:
            den = dens[k]
            k += 1
        v = ci.judge_write(st["api"], st.get("text"), den, None if st["out"] == "ok" else st["out"])
        if v is not None:
            cls, datum, detail = v
            if cls == "missing" and st.get("text") and ci.after_terminator(st["text"]):
                cls = "after-terminator"
            sig = ci.signature(cls, datum, st["api"], case["ops"][:j], error=detail if cls == "write-raised" else None)
            return j, sig, f"{cls} {datum}: {detail}"
    return None


def denote_writes(results):
    """Spec denotation of every written text of every result, batched. -> list (per result) of lists"""
    texts, where = [], []
    for i, r in enumerate(results):
        for st in r.get("steps", []):
            if "text" in st:
                texts.append(st["text"])
                where.append(i)
    dens = []
    B = 400
    chunks = [texts[i:i + B] for i in range(0, len(texts), B)]
    for part in pmap(lambda t: spec.denote_many(t, 128), chunks, chunksize=1) if len(chunks) >= 32 else [spec.denote_many(t, 128) for t in chunks]:
        dens += part
    out = [[] for _ in results]
    for i, d in zip(where, dens):
        out[i].append(d)
    return out


def _limit_of(case):
    return case.get("limit", 128)


def run_one(case):
    ri = ci.run_impl(case)
    dens = denote_writes([ri])[0]
    return ri, dens


def shrink_case(case, sig, upto):
    """drop operations and cards while the same signature is reported"""
    tail = [o for o in case["ops"][: upto + 1]]
    # keep the last flags + write, shrink what is before
    head, last = tail[:-1], tail[-1:]

    def fails_ops(ops):
        c = dict(case, ops=ops + last)
        try:
            ri, dens = run_one(c)
        except Exception:  # noqa: BLE001
            return False
        v = judge_case(c, ri, dens)
        return v is not None and v[1] == sig

    ops = shrink_list(head, fails_ops)
    c = dict(case, ops=ops + last)

    def fails_text(t):
        c2 = dict(c, text=t)
        ri, dens = run_one(c2)
        v = judge_case(c2, ri, dens)
        return v is not None and v[1] == sig

    try:
        t = shrink_text(c["text"], fails_text)
        if fails_text(t):
            c = dict(c, text=t)
    except Exception:  # noqa: BLE001
        pass
    return c


def compare_case(case, ri, dens, rm, nsteps):
    """model vs implementation. -> None | (step, detail)"""
    if rm is None or "steps" not in rm:
        return (0, f"model driver: {rm}")
    k = 0
    trees = True  # tree identity is compared until a write raises (what an error leaves behind is not modelled)
    want_slots = None
    if isinstance(rm.get("slots"), list) and len(rm["slots"]) == len(ri["state0"]["cells"]) + 1:
        # which classes have a node in the parameters tree of each cell: model (_parse_keyword_modifiers over the
        # parameters the Spec reads on the card) vs the live tree; a cell made by Cell() has no parameters
        want_slots = {c["number"]: sorted(m["slots"]) for c, m in zip(ri["state0"]["cells"], rm["slots"])}
        blank = sorted(rm["slots"][-1]["slots"])
        for c in ri["state0"]["cells"]:
            if c["slots"] != want_slots[c["number"]]:
                return (0, f"after reading: cell {c['number']} has a node in its parameters tree for {c['slots']}, model: {want_slots[c['number']]}")
    for j in range(nsteps):
        op, st, sm = case["ops"][j], ri["steps"][j], rm["steps"][j]
        if want_slots is not None and "state" in st:
            for c in st["state"]["cells"]:
                if c["slots"] != want_slots.get(c["number"], blank):
                    return (j, f"after {op[0]}: cell {c['number']} has a node in its parameters tree for {c['slots']}, model: {want_slots.get(c['number'], blank)}")
        if op[0] == "write" and st["out"] != "ok":
            trees = False
        if op[0] == "write":
            den = None
            if "text" in st:
                den = dens[k]
                k += 1
            if st["out"] == "IllegalState" or (st["out"] == "ParticleTypeNotInProblem" and st["api"].get("imp_outside_mode")):
                return None  # validate() of an incomplete object / importances outside MODE: not modelled, the history ends here
            if st["out"] != "ok":
                want = "ValueError" if st["out"] == "ValueError:fill-complex" else st["out"]
                if sm.get("error") != want:
                    return (j, f"write raised {st['out']}, model: {sm.get('error') or 'writes'}")
                continue
            if "error" in sm:
                return (j, f"write succeeded, model raises {sm['error']}")
            if sm["write"]["outside"]:
                return (j, "model emits a card after the data block's terminator")
            d = same_cards(cards_of_den(den), cards_of_model(sm["write"]), st["api"])
            if d:
                return (j, "written cards differ: " + d)
            if trees and "state_after" in st and "state" in sm:
                a, b = tree_partition(st["state_after"], False), tree_partition(sm["state"], True)
                if a != b:
                    return (j, f"identity of the data-block importance trees after the write differs (particles sharing one tree object): impl {a} model {b}")
        else:
            if sm.get("err") is not None:
                return (j, f"operation {op[0]} accepted by the code, model raises {sm['err']}")
            a, b = canon_state(st["state"], False), canon_state(sm["state"], True)
            if a != b:
                return (j, f"state after {op[0]} differs: impl {a} model {b}")
            if trees and tree_partition(st["state"], False) != tree_partition(sm["state"], True):
                return (j, f"identity of the data-block importance trees after {op[0]} differs: impl {tree_partition(st['state'], False)} model {tree_partition(sm['state'], True)}")
    return None


# --------------------------------------------------------------------------- the check
def run(chk):
    chk.rule = (
        "a case is a generated / fixture / hand-made MCNP file (per-cell data in the cell block, in the data block or mixed "
        "per class) read by MontePy, a valid API history (cell append / remove / move / reorder, importance, volume, "
        "universe, fill, lattice, not_truncated, allow_mcnp_volume_calc edits, print_in_data_block flags) and one or more "
        "write_to_file, with UNDO edits among them (a datum unset or changed, a write, exactly the file's value assigned again, a write: "
        "exhaustively over hand-made problems x cell x class, on generated problems, and as undo segments of the long histories; "
        "the value restored is the one the FILE gave); generated problems and small shapes are run under ALL 32 flag vectors; in half of the generated problems "
        "and in 9 small shapes the cell cards carry OTHER cell parameters as well (every cell keyword: NONU, UNC, TMP, PWT, EXT, "
        "FCL, WWN, DXC, PD, ELPT, COSY, BFLCL; numbered / with particle designators). Every written file is read "
        "by the Spec reader and judged. Non-trivial: the case reads, and at least one write has a per-cell datum in the "
        "data block or follows a history operation; distinct = distinct canonical JSON."
    )
    chk.assumptions = [
        "syntax trees, paddings, number formatting and shortcut re-compression are not modelled (C05/C08/C10): model and real file are compared as cards (class, particle, value / expanded vector, trailing jumps stripped, isclose 1e-9)",
        "a datum is a value the cell HOLDS: for a particle of MODE that `particle in cell.importance` denies, the getter's 0.0 is a default, not a datum",
        "the parameters of a cell card given to the model's _parse_keyword_modifiers are the ones the Spec reader finds on the card of the INPUT (key = prefix + number + particles, lower case); compared with the live parameters tree after reading and after every operation (generated / hand-made / corpus inputs)",
        "mutation of the classifier particle sets by formatting is not modelled (it only decides whether particles share a card)",
        "FILL with a transform / a matrix in the data block and an IMP vector with a hole are deliberate refusals (ValueError / ParticleTypeNotInCell), expected by model and oracle",
    ]
    chk.trusted_base = [
        "Lean 4.33.0 kernel",
        "Spec: lean/MontePyVerif/Spec/File.lean (text -> cards, the oracle's reader) and Spec/CellData.lean (cards -> per-cell table, the theorems' reader)",
        "hand-written model lean/MontePyVerif/Model/CellData.lean, tied to the code by the U-celldata correspondence of this run; Gen/CellData.lean from the translator",
        "harness tools/props/c09.py + tools/vlib/c09_impl.py (real MontePy in-process; state abstraction reads private attributes)",
    ]
    leanio.prove(chk, "MontePyVerif.Props.C09", THEOREMS, "MontePyVerif.C09")
    drv = leanio.Driver(chk, "drv_c09")
    spec._ensure()

    cases = gen_cases(chk)
    chk.exhaustive = {"flag_vectors": "all 32 for every generated problem, small shape and (thorough) fixture",
                      "small_undo": "2 value tables x 3 placements x 3 cells x 5 classes x {unset, other value} x 4 flag vectors x {write first or not}: edit, write, the file's value again, write",
                      "small_shapes": "6 shapes x 21 single operations x 32 flag vectors + 5 importance shapes x 21 x 8 + 9 shapes with other cell parameters (every keyword of OTHER_PARAMS) x 12 operations x 8, each: flags, write, operation, write"}
    for c in cases:
        c.pop("_", None)
    all_cases = cases
    read_judged = set()
    seen_sig = {}
    CHUNK = 5000  # bounded memory: results (texts, states) of one chunk at a time
    for c0 in range(0, len(all_cases), CHUNK):
        cases = all_cases[c0:c0 + CHUNK]
        impl = pmap(ci.run_impl, [{k: v for k, v in c.items() if k != "src"} for c in cases], chunksize=16)
        dens = denote_writes(impl)
        # the READ half: the Spec's reading of every distinct generated / hand-made input
        in_den = {}
        for lim in (80, 128):
            texts = sorted({c["text"] for c in cases if c.get("limit", 128) == lim and c.get("src", "").split(":")[0] in ("small", "small-undo", "generated", "history", "undo", "corpus")})
            for t, d in zip(texts, spec.denote_many(texts, lim) if texts else []):
                in_den[(lim, t)] = d
        built = [build_model_case(c, r, in_den.get((c.get("limit", 128), c["text"]))) for c, r in zip(cases, impl)]
        idx = [i for i, b in enumerate(built) if b is not None]
        model_out = drv.batch([built[i][0] for i in idx]) if drv.ok else None
        model = {i: model_out[k] for k, i in enumerate(idx)} if model_out is not None else {}

        for i, (case, ri) in enumerate(zip(cases, impl)):
            src = case.get("src", "?").split(":")[0]
            pure = {k: v for k, v in case.items() if k != "src"}
            chk.count("src:" + src)
            if ri.get("read") != "ok":
                chk.count("read:" + ri.get("read", "?"))
                chk.note_case(pure, False)
                continue
            nontrivial = False
            for op, st in zip(case["ops"], ri["steps"]):
                chk.count("op:" + op[0])
                if op[0] == "write":
                    chk.count("write:" + st["out"])
                    fl = st["api"]["flags"]
                    chk.count("flags_true:" + str(sum(fl)))
                    if any(fl) or len(case["ops"]) > 2:
                        nontrivial = True
                elif st["out"] != "ok":
                    chk.count("refused:" + op[0] + ":" + st["out"].split(":")[-1])
            chk.note_case(pure, nontrivial, sample_every=4000)
            rkey = (pure.get("limit", 128), pure["text"])
            if rkey in in_den and rkey not in read_judged:
                read_judged.add(rkey)
                chk.count("read-judged")
                rv = judge_read(pure, ri, in_den[rkey])
                if rv is not None:
                    ri2 = ci.run_impl(dict(pure, ops=[]))  # confirm in this process
                    rv = judge_read(pure, ri2, in_den[rkey])
                    if rv is None:
                        chk.count("flaky:violation-not-reproduced")
                    else:
                        small = dict(pure, ops=[])

                        def fails_text(t, sig=rv[0], lim=rkey[0]):
                            c2 = dict(small, text=t)
                            r = judge_read(c2, ci.run_impl(c2), spec.denote(t, lim))
                            return r is not None and r[0] == sig

                        try:
                            t = shrink_text(small["text"], fails_text)
                            if fails_text(t):
                                small = dict(small, text=t)
                        except Exception:  # noqa: BLE001
                            pass
                        chk.violation(rv[0], rv[1], {"case": small, "api_after_read": ri2.get("state0")})
            verdict = judge_case(pure, ri, dens[i])
            upto = len(ri["steps"])
            if verdict is not None:
                upto = verdict[0]
                key = canon(verdict[1])
                seen_sig[key] = seen_sig.get(key, 0) + 1
                if seen_sig[key] > 2:
                    # the same signature was confirmed (re-run in this process) and reported already: count only
                    chk.count("violation-occurrences-not-rerun")
                    verdict = None
            if verdict is not None:
                ri2, dens2 = run_one(pure)  # confirm in this process before reporting
                v2 = judge_case(pure, ri2, dens2)
                if v2 is None or v2[1] != verdict[1]:
                    chk.count("flaky:violation-not-reproduced")
                    verdict = None
                else:
                    j, sig, what = v2
                    upto = j
                    small = shrink_case(pure, sig, j) if len(chk.violations) < 3 else pure
                    r3, d3 = run_one(small)
                    v3 = judge_case(small, r3, d3)
                    if v3 is None or v3[1] != sig:
                        small, v3 = pure, v2
                    step = r3["steps"][v3[0]] if v3 is not None and small is not pure else ri2["steps"][j]
                    chk.violation(sig, v3[2] if v3 else what, {"case": small, "written": step.get("text"), "api": step.get("api"), "raised": step["out"]})
            if i in model:
                chk.traces_validated += 1
                if isinstance(model[i].get("slots"), list):
                    chk.count("slots-compared")
                    if not all(m["imp_keys_are_imp"] for m in model[i]["slots"]):
                        chk.count("hypothesis-impKeysAreImp-false")
                nsteps = min(built[i][1], upto)
                diff = compare_case(pure, ri, dens[i], model[i], nsteps)
                if diff is not None and chk.dist.get("disagreement-confirmed", 0) >= 4:
                    chk.count("disagreement-occurrences-not-rerun")
                    diff = None
                if diff is not None:
                    chk.disagreements_checked += 1
                    chk.count("disagreement:" + diff[1][:60])
                    ri2, dens2 = run_one(pure)
                    b2 = build_model_case(pure, ri2, in_den.get(rkey))
                    rm2 = drv.batch([b2[0]])[0] if b2 else None
                    diff2 = compare_case(pure, ri2, dens2, rm2, min(b2[1], upto)) if b2 else None
                    if diff2 is None:
                        chk.count("flaky:disagreement-not-reproduced")
                        continue
                    chk.count("disagreement-confirmed")
                    small = pure
                    if chk.dist.get("disagreement-confirmed", 0) <= 2:
                        def differs(ops, pure=pure, last=pure["ops"][diff2[0]:diff2[0] + 1]):
                            c = dict(pure, ops=ops + last)
                            r, d = run_one(c)
                            b = build_model_case(c, r, in_den.get(rkey))
                            if not b:
                                return False
                            return compare_case(c, r, d, drv.batch([b[0]])[0], b[1]) is not None

                        try:
                            ops = shrink_list(pure["ops"][: diff2[0]], differs)
                            small = dict(pure, ops=ops + pure["ops"][diff2[0]:diff2[0] + 1])
                        except Exception:  # noqa: BLE001
                            small = pure
                    chk.broken_obligation("correspondence", "U-celldata (Model/CellData.lean vs cell_modifier.py, importance.py, volume.py, universe_input.py, lattice_input.py, fill.py, cells.py, cell.py, mcnp_problem.py)",
                                          {"step": diff2[0], "difference": diff2[1]}, small)


def replay(chk, payload):
    case = payload.get("case")
    if isinstance(case, dict) and "case" in case:
        case = case["case"]
    if payload.get("verdict") == "no-failing-input-found":
        case = payload["no_longer_checks"][0]["case"]
    chk.rule = "replay of one stored case"
    case = {k: v for k, v in case.items() if k != "src"}
    drv = leanio.Driver(chk, "drv_c09")
    ri, dens = run_one(case)
    chk.note_case(case)
    rv = judge_read(case, ri, spec.denote(case["text"], case.get("limit", 128)))
    v = judge_case(case, ri, dens)
    if rv is not None:
        chk.violation(rv[0], rv[1], {"case": case, "api_after_read": ri.get("state0")})
    elif v is not None:
        st = ri["steps"][v[0]]
        chk.violation(v[1], v[2], {"case": case, "written": st.get("text"), "api": st.get("api"), "raised": st["out"]})
    elif drv.ok:
        b = build_model_case(case, ri, spec.denote(case["text"], case.get("limit", 128)))
        if b:
            d = compare_case(case, ri, dens, drv.batch([b[0]])[0], b[1])
            if d is not None:
                chk.broken_obligation("correspondence", "U-celldata", {"step": d[0], "difference": d[1]}, case)
    chk.add_obligation("replay", True)
