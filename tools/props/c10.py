"""C10 — written lines obey MCNP's physical line rules without changing content.

prove       : lean/MontePyVerif/Props/C10.lean (greedy-fill invariant of the textwrap model, for all strings)
correspond  : unit U-wrap — Model/Wrap.lean vs MCNP_Object._wrap_line / wrap_string_for_mcnp / Cell.format_for_mcnp_input
              / Message / Title (exact lines and number of LineExpansionWarnings)
judge       : Spec/Text.lean's reading of the lines the REAL code produced (every wrap_string_for_mcnp call made while
              formatting objects / writing files is recorded) against its reading of the unwrapped text
"""

import glob
import itertools
import json
import os
import re
import shutil
import signal
import tempfile
import warnings

from vlib import leanio
from vlib import c10spec as spec
from vlib.core import MachineryError, REPO, VERIF
from vlib.par import pmap, shrink_list

META = {
    "property_id": "C10",
    "technique": "Lean 4 proof about an executable model of wrap_string_for_mcnp and the part of textwrap it uses "
    "(greedy-fill invariant, all strings); translator for the line-length table and the runtime's character classes; "
    "differential correspondence model vs implementation; Spec/Text.lean as oracle on the real output",
    "design_ref": "6 C10",
}

THEOREMS_WRAP = [
    "C10_tables",
    "C10_comment_probe",
    "C10_width",
    "C10_width_string",
    "C10_title_message_width",
    "C10_flatten",
    "C10_indent",
    "C10_comment_stays_comment",
    "C10_words",
    "C10_content_data",
    "C10_content_refuted",
    "C10_noblank_data",
    "C10_fits_unchanged",
]

# lean/MontePyVerif/Props/C10Roundtrip.lean: the wrapped card read back by Spec/File.lean (composes with C01_blocks)
THEOREMS_CARD = [
    "C10_words_file",
    "C10_start",
    "C10_noblank",
    "C10_data_stays_data",
    "C10_roundtrip_card",
    "C10_roundtrip",
    "C10_roundtrip_refuted",
]
# lean/MontePyVerif/Props/C10Cards.lean: per-cell data cards of the data block (the final continuation mark of EVERY card
# is dropped; lines that start an input and do not end in the mark are inputs of their own by Spec/Text.lean)
THEOREMS_CELLDATA = [
    "C10_mark_dropped",
    "C10_no_mark_left",
    "C10_cards_own_inputs",
    "C10_cards_merge_refuted",
]
THEOREMS = THEOREMS_WRAP + THEOREMS_CARD + THEOREMS_CELLDATA

V80, V128, V5 = (6, 1, 0), (6, 2, 0), (5, 1, 60)
VERSIONS = [V80, V128, V5]
WORKERS = 8


def limit_of(v):
    return 128 if tuple(v) >= (6, 2, 0) else 80


# --------------------------------------------------------------------------- implementation side
def _mp():
    from vlib import mp

    return mp


class _Hang(Exception):
    pass


def _alarm(*a):
    raise _Hang()


def guarded(fn, seconds=60.0):
    """run fn() under a generous wall-clock guard: a hang becomes an observation, never a stuck check"""
    old = signal.signal(signal.SIGALRM, _alarm)
    signal.setitimer(signal.ITIMER_REAL, seconds)
    try:
        return fn()
    except _Hang:
        return {"error": "hang"}
    finally:
        signal.setitimer(signal.ITIMER_REAL, 0)
        signal.signal(signal.SIGALRM, old)


def impl_wrap_line(case):
    mp = _mp()

    def go():
        with warnings.catch_warnings():
            warnings.simplefilter("ignore")
            try:
                return {"lines": mp.montepy.mcnp_object.MCNP_Object._wrap_line(case["line"], case["W"], case["init"], case["subs"])}
            except _Hang:
                raise
            except Exception as e:  # noqa: BLE001
                return {"error": type(e).__name__}

    return guarded(go)


def impl_wrap_string(case):
    mp = _mp()
    LEW = mp.montepy.errors.LineExpansionWarning
    with warnings.catch_warnings(record=True) as ws:
        warnings.simplefilter("always")
        try:
            lines = mp.montepy.mcnp_object.MCNP_Object.wrap_string_for_mcnp(case["s"], tuple(case["version"]), case["first"])
        except Exception as e:  # noqa: BLE001
            return {"error": type(e).__name__}
    return {"lines": lines, "warnings": sum(1 for w in ws if issubclass(w.category, LEW))}


class Recorder:
    """Records every wrap_string_for_mcnp call made by the real formatting code (the real function still does the
    work); nothing in /repo is touched."""

    def __init__(self):
        self.calls = []

    def __enter__(self):
        mp = _mp()
        self.cls = mp.montepy.mcnp_object.MCNP_Object
        self.orig = self.cls.__dict__["wrap_string_for_mcnp"]
        real = self.orig.__func__
        rec = self

        def recording(string, mcnp_version, is_first_line):
            out = real(string, mcnp_version, is_first_line)
            rec.calls.append({"s": string, "version": list(mcnp_version), "first": bool(is_first_line), "lines": list(out)})
            return out

        self.cls.wrap_string_for_mcnp = staticmethod(recording)
        return self

    def __exit__(self, *a):
        self.cls.wrap_string_for_mcnp = self.orig


def cell_pieces(cell, version):
    """The strings Cell.format_for_mcnp_input concatenates, taken from the live tree (after _update_values)."""
    pieces = []
    modifier_keywords = {cls._class_prefix(): cls for cls in cell._INPUTS_TO_PROPERTY.keys()}
    for key, node in cell._tree.nodes.items():
        if key != "parameters":
            pieces.append(["node", node.format()])
        else:
            printed_importance = False
            for param in node.nodes.values():
                prefix = param["classifier"].prefix.value.lower()
                if prefix in modifier_keywords:
                    attr, _ = cell._INPUTS_TO_PROPERTY[modifier_keywords[prefix]]
                    if attr == "_importance":
                        if printed_importance:
                            continue
                        printed_importance = True
                    pieces.append(["modifier", list(getattr(cell, attr).format_for_mcnp_input(version))])
                else:
                    pieces.append(["param", param.format()])
    return pieces


def apply_edits(obj, edits):
    mp = _mp()
    for e in edits:
        k = e[0]
        if k == "number":
            obj.number = e[1]
        elif k == "mass_density":
            obj.mass_density = e[1]
        elif k == "material":
            obj.material = mp.data_from("m%d 1001.80c 1.0" % e[1])
            obj.mass_density = e[2]
        elif k == "atom_density":
            obj.atom_density = e[1]
        elif k == "volume":
            obj.volume = e[1]
        elif k == "importance":
            obj.importance.neutron = e[1]
        elif k == "imp":
            setattr(obj.importance, {"n": "neutron", "p": "photon", "e": "electron"}[e[1]], e[2])
        elif k == "constants":
            obj.surface_constants = [c * e[1] + e[2] for c in obj.surface_constants]
        elif k == "location":
            obj.location = e[1]
        elif k == "fractions":
            for comp in obj.material_components.values():
                comp.fraction = comp.fraction * e[1]
        elif k == "displacement":
            import numpy as np

            obj.displacement_vector = np.array(e[1])
        elif k == "laws":
            obj.thermal_scattering_laws = e[1]
        else:
            raise AssertionError(k)


def impl_object(case):
    """Parse one input with the real parsers, edit it through the API, format it with the real
    format_for_mcnp_input; record the wrap calls."""
    mp = _mp()
    version = tuple(case["version"])
    out = {"calls": [], "lines": None}
    with warnings.catch_warnings():
        warnings.simplefilter("ignore")
        try:
            if case["kind"] == "cell":
                obj = mp.cell_from(case["text"])
            elif case["kind"] == "surface":
                obj = mp.surface_from(case["text"])
            else:
                obj = mp.data_from(case["text"])
                if case["kind"] == "thermal":
                    obj._parent_material = mp.data_from("m%d 1001.80c 1.0" % obj.old_number)
            apply_edits(obj, case.get("edits", []))
        except Exception as e:  # noqa: BLE001
            return {"skip": "setup:" + type(e).__name__}
        try:
            with Recorder() as rec:
                out["lines"] = list(obj.format_for_mcnp_input(version))
            out["calls"] = rec.calls
            if case["kind"] == "cell":
                with Recorder():
                    out["pieces"] = cell_pieces(obj, version)
        except Exception as e:  # noqa: BLE001
            return {"skip": "format:" + type(e).__name__}
    return out


def impl_file(case):
    """read_input on a generated file, apply the edits (objects, and the problem's print_in_data_block switches), set the
    target version, write_to_file; return the written lines, the source lines and what the problem says it holds."""
    mp = _mp()
    d = tempfile.mkdtemp(prefix="c10_")
    try:
        src = case.get("path")
        if src is None:
            src = os.path.join(d, "in.imcnp")
            with open(src, "w") as fh:
                fh.write(celldata_text(case["cd"]) if "cd" in case else case["text"])  # a stored "text" next to "cd" is for the reader
        with open(src, errors="replace") as fh:
            source = fh.read().split("\n")
        with warnings.catch_warnings():
            warnings.simplefilter("ignore")
            try:
                p = mp.montepy.read_input(src)
                appended = 0
                for kind, idx, edits in case.get("edits", []):
                    if kind == "problem":
                        for e in edits:
                            if e[0] == "append_cell":
                                # a cell made from scratch and appended: its per-cell data are new entries at the end
                                # of every data-block list (behind whatever padding or comment stood there)
                                c = mp.montepy.Cell()
                                c.number = e[1]
                                c.geometry = +list(p.surfaces)[0]
                                p.cells.append(c)
                                c.importance.all = e[2]
                                appended += 1
                                continue
                            if e[0] != "pidb":
                                raise AssertionError(e[0])
                            p.print_in_data_block[e[1]] = bool(e[2])
                        continue
                    coll = {"cell": p.cells, "surface": p.surfaces, "material": p.materials}[kind]
                    objs = list(coll)
                    if objs:
                        o = objs[idx % len(objs)]
                        for e in edits:
                            if e[0] == "number":
                                o.number = e[1]
                            else:
                                apply_edits(o, [e])
                p.mcnp_version = tuple(case["version"])
                holds = {"cells": [c.number for c in p.cells], "surfaces": [s.number for s in p.surfaces], "appended": appended,
                         "pidb": {k: bool(p.print_in_data_block[k]) for k in ("imp", "vol", "u", "lat", "fill")}}
            except Exception as e:  # noqa: BLE001
                return {"skip": "setup:" + type(e).__name__}
            dst = os.path.join(d, "out.imcnp")
            try:
                with Recorder() as rec:
                    p.write_to_file(dst)
            except Exception as e:  # noqa: BLE001
                return {"skip": "write:" + type(e).__name__}
        with open(dst) as fh:
            written = fh.read().split("\n")
        return {"written": written, "calls": rec.calls, "has_message": p.message is not None,
                "message_lines": len(p.message.lines) if p.message is not None else 0, "source": source, "holds": holds,
                "imp_data": importance_cards(p, tuple(case["version"])) if case.get("imp_cards") else None}
    finally:
        shutil.rmtree(d, ignore_errors=True)


def importance_cards(problem, version):
    """The texts Importance._format_tree (data-block branch) joins — `tree.format()` of every group of particles that is
    printed together, in print order, taken from the live trees AFTER the real write (which ran _update_values) — next to
    what the real CellModifierInput.format_for_mcnp_input made of them (its wrap_string_for_mcnp call: text and lines).
    None when the importances are not written to the data block."""
    if not problem.print_in_data_block["imp"]:
        return None
    imp = problem.cells._importance
    if imp.in_cell_block or not imp._is_worth_printing:
        return None
    with warnings.catch_warnings():
        warnings.simplefilter("ignore")
        with Recorder() as rec:
            lines = list(imp.format_for_mcnp_input(version))
        printed, cards = set(), []
        for particle, tree in imp._real_tree.items():
            if particle in printed:
                continue
            printed |= tree["classifier"].particles.particles
            cards.append(tree.format())
    if len(rec.calls) != 1:
        return None
    return {"cards": cards, "text": rec.calls[0]["s"], "lines": lines}


def impl_front(case):
    mp = _mp()
    v = tuple(case["version"])
    try:
        if case["op"] == "title":
            return {"lines": mp.montepy.input_parser.mcnp_input.Title([case["title"]], case["title"]).format_for_mcnp_input(v)}
        return {"lines": mp.montepy.input_parser.mcnp_input.Message(list(case["lines"]), list(case["lines"])).format_for_mcnp_input(v)}
    except Exception as e:  # noqa: BLE001
        return {"error": type(e).__name__}


# --------------------------------------------------------------------------- oracle (Spec/Text rules on the real output)
def src_lines(s):
    """the unwrapped text as MCNP would see it: tabs at 8-column stops, blank lines not written"""
    return [l.expandtabs(8) for l in s.split("\n") if l.strip(" \t")]


def judgeable(s):
    """the oracle speaks about printable ASCII text with \\n line ends and tabs (what an MCNP file holds)"""
    return all(c == "\n" or c == "\t" or 32 <= ord(c) < 127 for c in s)


def outside_oracle(src):
    """inputs on which MCNP's own reading is ill-defined, so that no wrapping can be judged against it:
    an `&` that is a data word but not the last one of its line, a line whose data before the `$` read alone
    would be a comment line (`c$ text`), and a line that holds only a `$` comment but does not start with five blanks
    (neither a card nor a continuation).  The same classes are excluded by `LineOK` in Props/C10Roundtrip.lean."""
    for l in src:
        if spec.is_comment_line(l):
            continue
        d, c = spec.split_dollar(l)
        ws = spec.words(d)
        if "&" in ws[:-1]:
            return "amp-inside"
        if c is not None and spec.is_comment_line(d):
            return "c-before-dollar"
        if c is not None and not ws and not spec.is_continuation(l):
            return "dollar-only-unindented"
    return None


def has_long_word(src, limit):
    for l in src:
        if spec.is_comment_line(l):
            continue
        d, _ = spec.split_dollar(l)
        if any(len(w) > limit - 5 for w in spec.words(d)):
            return True
    return False


def _kind(src, limit, cls, ew, gw):
    if cls == "word-split":
        # which word was cut?
        joined = [w for w in ew if w not in gw]
        if any(len(w) > limit - 5 for w in joined):
            return "long-word"
        if any("-" in w for w in joined):
            return "hyphen"
    if any(spec.is_comment_line(l) for l in src):
        return "c-comment"
    if any("$" in l for l in src):
        return "dollar"
    return "data"


def judge_wrap(s, version, first, lines, site="wrap_string"):
    """None, or the signature of the first violated clause of C10 for one wrap_string_for_mcnp call."""
    limit = limit_of(version)
    base = {"mechanism": "wrap", "site": site}
    src = src_lines(s)
    out = [l.expandtabs(8) for l in lines]
    if any(len(l) > limit for l in out):
        return dict(base, **{"class": "too-long", "kind": _kind(src, limit, "", [], [])})
    if any(spec.is_blank(l) for l in out):
        return dict(base, **{"class": "blank-line", "kind": _kind(src, limit, "", [], [])})
    if not first:
        return None  # no caller formats with is_first_line=False; only the width and blank-line clauses are judged
    if outside_oracle(src):
        return None
    long_word = has_long_word(src, limit)
    E = spec.logical_inputs(spec.HUGE, src)
    G = spec.logical_inputs(limit, out)
    if src and out:
        ks, kg = spec.classify(spec.HUGE, src[0]), spec.classify(limit, out[0])
        if ks[0] == "data" and not ks[1]:
            if kg[0] != "data" or kg[1]:
                if long_word:
                    return dict(base, **{"class": "word-split", "kind": "long-word"})
                if kg[0] == "comment":
                    return dict(base, **{"class": "starts-as-comment", "kind": "data"})
                return dict(base, **{"class": "bad-indent", "kind": "first-line"})
    if E == G:
        return None
    if long_word:
        # a word that fits on no continuation line is cut by break_long_words (C10_content_refuted / finding C10-F1)
        return dict(base, **{"class": "word-split", "kind": "long-word"})
    ew = [w for i in E for w in i["words"]]
    gw = [w for i in G for w in i["words"]]
    ec = "".join(i["comment"] for i in E)
    gc = "".join(i["comment"] for i in G)
    if ew == gw and ec == gc:
        cls = "bad-indent"
    elif "".join(ew) == "".join(gw) and ec == gc:
        cls = "word-split"
    elif len(gc) < len(ec):
        cls = "comment-to-data"
    elif len(gc) > len(ec):
        cls = "data-to-comment"
    else:
        cls = "content-changed"
    return dict(base, **{"class": cls, "kind": _kind(src, limit, cls, ew, gw)})


def judge_cell(pieces, version, lines):
    """Every piece the cell concatenates must keep its own words as data and its own comments as comments."""
    limit = limit_of(version)
    groups, cur = [], ""
    for p in pieces:
        if p[0] == "node":
            cur += p[1]
        else:
            groups.append(cur)
            cur = "\n".join(p[1]) if p[0] == "modifier" else p[1]
    groups.append(cur)
    ew, ec = [], ""
    for g in groups:
        for i in spec.logical_inputs(spec.HUGE, src_lines(g)):
            ew += i["words"]
            ec += i["comment"]
    G = spec.logical_inputs(limit, [l.expandtabs(8) for l in lines])
    gw = [w for i in G for w in i["words"]]
    gc = "".join(i["comment"] for i in G)
    if ew == gw and ec == gc:
        return None
    if len(gc) > len(ec):
        cls = "data-to-comment"
    elif len(gc) < len(ec):
        cls = "comment-to-data"
    elif "".join(ew) == "".join(gw):
        cls = "word-split"
    else:
        cls = "content-changed"
    return {"mechanism": "wrap", "site": "cleanup_last_line", "class": cls, "kind": "dollar" if "$" in "".join(groups) else "data"}


def judge_file(res, version):
    """every physical line of the written file; and the file re-read by Spec against the unwrapped inputs"""
    limit = limit_of(version)
    written = res["written"]
    body_start = (res["message_lines"] + 1 if res["has_message"] else 0) + 1
    for i, l in enumerate(written):
        if len(l.expandtabs(8)) > limit:
            site = "message" if res["has_message"] and i < body_start - 1 else ("title" if i == body_start - 1 else "write_to_file")
            return {"mechanism": "wrap", "site": site, "class": "too-long", "kind": "data"}
    body = written[body_start:]
    # replace each recorded wrap result, in order, by its unwrapped text (write_to_file drops trailing blanks)
    unwrapped, pos = [], 0
    calls = [dict(c, lines=[l.rstrip() for l in c["lines"]]) for c in res["calls"] if c["lines"]]
    body_r = [l.rstrip() for l in body]
    ci = 0
    matched = 0
    while pos < len(body):
        if ci < len(calls) and body_r[pos : pos + len(calls[ci]["lines"])] == calls[ci]["lines"]:
            unwrapped += src_lines(calls[ci]["s"])
            pos += len(calls[ci]["lines"])
            ci += 1
            matched += 1
        else:
            # nested calls (a cell's modifiers) are recorded before the cell's own call: skip what does not match here
            if ci < len(calls) and not any(
                body_r[q : q + len(calls[ci]["lines"])] == calls[ci]["lines"] for q in range(pos, min(len(body), pos + 400))
            ):
                ci += 1
                continue
            unwrapped.append(body[pos])
            pos += 1
    res["matched_calls"] = matched
    E = spec.logical_inputs(spec.HUGE, [l.expandtabs(8) for l in unwrapped])
    G = spec.logical_inputs(limit, [l.expandtabs(8) for l in body])
    if E != G:
        ec = "".join(i["comment"] for i in E)
        gc = "".join(i["comment"] for i in G)
        ew = [w for i in E for w in i["words"]]
        gw = [w for i in G for w in i["words"]]
        if len(gc) > len(ec) and len(gw) < len(ew):
            cls = "data-to-comment"
        elif len(gc) < len(ec) and len(gw) > len(ew):
            cls = "comment-to-data"
        elif len(G) != len(E):
            cls = "bad-indent"
        else:
            cls = "content-changed"
        return {"mechanism": "wrap", "site": "write_to_file", "class": cls, "kind": "file"}
    return judge_inputs(res, version)


# the per-cell data cards (Cell._INPUTS_TO_PROPERTY): in the data block their words after the mnemonic are entries
# (numbers, jumps, shortcuts), never another mnemonic
CELL_DATA_RE = re.compile(r"^\*?(imp:[a-z,#|/]+|vol|u|lat|fill)$")


def _blocks(lines):
    """the three blocks of a file (lines behind the title), split at blank lines; what follows the third is not read"""
    blocks = [[]]
    for l in lines:
        if spec.is_blank(l):
            if len(blocks) == 3:
                break
            blocks.append([])
        else:
            blocks[-1].append(l)
    return blocks + [[] for _ in range(3 - len(blocks))]


def _source_blocks(source):
    lines = [l.expandtabs(8) for l in source]
    if lines and lines[0].lower().startswith("message:"):
        k = 0
        while k < len(lines) and not spec.is_blank(lines[k]):
            k += 1
        lines = lines[k + 1 :]
    return _blocks(lines[1:])


def _imp_particles(word):
    w = word.lower().lstrip("*")
    if not w.startswith("imp:"):
        return []
    return [x for x in re.split(r"[,|/#]", w[4:].split("=")[0]) if x]


def judge_inputs(res, version):
    """C10's last clause at the level of the file: splitting the written file back into inputs yields the inputs the
    problem holds, none merged into the one before it (no input starts as a continuation of its predecessor):
    one input per cell and per surface (first word = the object's number), the data inputs of the source in their order,
    and every per-cell data card of the data block on its own (its words behind the mnemonic are entries, never another
    mnemonic; every particle whose importance the source gives has exactly one IMP card when they go to the data block).
    Judged by Spec on the written lines against the source's lines and the problem's public collections."""
    if "holds" not in res:
        return None
    limit = limit_of(version)
    body_start = (res["message_lines"] + 1 if res["has_message"] else 0) + 1
    W = [[i["words"] for i in spec.logical_inputs(limit, b) if i["words"]]
         for b in _blocks([l.expandtabs(8) for l in res["written"][body_start:]])]
    S = [[i["words"] for i in spec.logical_inputs(spec.HUGE, b) if i["words"]] for b in _source_blocks(res["source"])]
    base = {"mechanism": "wrap", "site": "write_to_file"}
    if any(ws[0].lower() == "read" for b in S for ws in b):
        res["inputs_skip"] = "read-input"  # the source pulls in other files: its own lines do not say what the problem holds
        return None
    if len(S[0]) + res["holds"].get("appended", 0) != len(res["holds"]["cells"]) or len(S[1]) != len(res["holds"]["surfaces"]):
        # Spec and MontePy's reader split the SOURCE differently (e.g. `& $ comment`, which Spec/Text.lean reads as a
        # continuation mark and MCNP's manual does not settle): reading is C11/C12's subject, nothing to hold the writer to
        res["inputs_skip"] = "source-read-differently"
        return None
    if [ws[0] for ws in W[0]] != [str(n) for n in res["holds"]["cells"]]:
        return dict(base, **{"class": "inputs-merged" if len(W[0]) < len(res["holds"]["cells"]) else "inputs-changed", "kind": "cell-block"})
    if [ws[0].lstrip("*+") for ws in W[1]] != [str(n) for n in res["holds"]["surfaces"]]:
        return dict(base, **{"class": "inputs-merged" if len(W[1]) < len(res["holds"]["surfaces"]) else "inputs-changed", "kind": "surface-block"})
    for ws in W[2]:
        rest = [w.lower() for w in ws[1:]]
        if any(w.startswith("imp:") or w.startswith("*imp:") for w in rest) or (
            CELL_DATA_RE.match(ws[0].lower()) and any(CELL_DATA_RE.match(w) for w in rest)
        ):
            return dict(base, **{"class": "inputs-merged", "kind": "cell-data"})
    wd = [ws[0].lower() for ws in W[2] if not CELL_DATA_RE.match(ws[0].lower())]
    sd = [ws[0].lower() for ws in S[2] if not CELL_DATA_RE.match(ws[0].lower())]
    if wd != sd and wd != sd + ["mode"]:
        return dict(base, **{"class": "inputs-merged" if len(wd) < len(sd) else "inputs-changed", "kind": "data-block"})
    if res["holds"]["pidb"]["imp"]:
        given = {x for b in S for ws in b for w in ws for x in _imp_particles(w)}
        cards = [x for ws in W[2] for x in _imp_particles(ws[0])]
        if len(cards) != len(set(cards)) or not given <= set(cards):
            return dict(base, **{"class": "inputs-merged" if not given <= set(cards) else "inputs-changed", "kind": "cell-data"})
    return None


# --------------------------------------------------------------------------- generators
NUMS = ["1", "-2", "3", "10", "-11", "12", "105", "-1001", "2.5", "1.0", "0.5", "1e-3", "1.23456e-05", "123456789", "+7"]
KEYS = ["imp:n=1", "imp:n,p=0", "vol=5", "u=2", "fill=3", "tmp=2.5e-8", "lat=1", "trcl=5", "nlib=80c", "imp:p", "=", "VOL", "(", ")", ":", "#3", "(1:2)", "#(1 2)"]
HYPH = ["be-met.40t", "lwtr.20t", "grph-x.10t", "a-b", "--", "-", "x--y", "poly-h.01t", "u-o2.30t", "ab-cd-ef", "1001.80c", "92235.80c"]
CWORDS = ["this", "is", "a", "comment", "imp:n=1", "c", "C", "$", "&x", "1", "0", "-1", "vol=2", "water", "fuel-pin", "(clad)", "=", "be-met.40t", "x"]
# data words that BEGIN with c/C: a line starting with one of them in columns 1-5 is data, not a comment line
# (cosine bins cN, cell flagging cfN, cosine multipliers cmN, cut:p, ctme, cosy ...)
LOOKALIKES = ["c14", "C14", "*c14", "cf4", "CF4", "cm4", "cut:n", "CUT:p", "ctme", "cosy", "c1", "c0", "cc", "cx", "c-1"]
COSINES = " ".join(f"{-1 + 0.1 * i:.1f}" for i in range(21))
SEPS = [" "] * 12 + ["  ", "   ", "    ", "      ", "\t", " \t"]


def gen_tokens(rng, n, hyph=0.15):
    toks = []
    for _ in range(n):
        r = rng.random()
        toks.append(rng.choice(HYPH) if r < hyph else rng.choice(KEYS) if r < hyph + 0.2 else rng.choice(NUMS))
    return toks


def gen_comment(rng, n):
    return " ".join(rng.choice(CWORDS) for _ in range(n))


def gen_line(rng, W):
    """one source line around the limit W: data / data + $ comment / C comment / continuation line"""
    r = rng.random()
    target = W + rng.randint(-12, 60)
    if r < 0.2:
        pre = rng.choice(["c ", "C ", " c ", "  C ", "    c ", "c  ", "c "])
        if rng.random() < 0.02:
            return pre.rstrip()
        line = pre
        while len(line) < target:
            line += rng.choice(CWORDS) + rng.choice(SEPS)
        return line.rstrip("\t") if rng.random() < 0.7 else line
    lead = rng.choice(["", "", "", " ", "    ", "     ", "      ", "         "])
    line = lead
    if rng.random() < 0.15:
        # first word begins with c in columns 1-5 (or on a continuation line): data all the same
        line = rng.choice(["", "", " ", "  ", "   ", "    ", "     "]) + rng.choice(LOOKALIKES) + rng.choice([" ", " ", "  ", "="])
    dollar_at = rng.randint(max(1, target - 70), target + 10) if r < 0.65 else None
    while len(line) < target:
        if dollar_at is not None and len(line) >= dollar_at:
            line += rng.choice(["$ ", "$", "$  "]) + gen_comment(rng, rng.randint(0, 14))
            break
        rr = rng.random()
        if rr < 0.0015:
            line += "h" * rng.randint(W - 8, W + 5)
        elif rr < 0.03:
            line += " " * rng.randint(10, 100)
        else:
            line += gen_tokens(rng, 1)[0]
        line += rng.choice(SEPS)
    if rng.random() < 0.3:
        line = line.rstrip(" \t")
    if rng.random() < 0.03:
        line += " " * rng.randint(20, 120)
    if rng.random() < 0.04:
        line += " &"
    return line


def gen_straddle(rng, W):
    """a base line and its variants in which every token boundary in reach lands at W-6 .. W+6"""
    toks = gen_tokens(rng, rng.randint(14, 40), hyph=0.25)
    kind = rng.choice(["data", "dollar", "dollar", "ccomment", "lookalike", "lookalike"])
    if kind == "lookalike":
        toks[0] = rng.choice(["", " ", "    "]) + rng.choice(LOOKALIKES)
        if rng.random() < 0.4:
            k = rng.randint(2, len(toks) - 1)
            toks = toks[:k] + ["$"] + [rng.choice(CWORDS) for _ in range(rng.randint(1, 12))]
    if kind == "ccomment":
        toks = ["c"] + [rng.choice(CWORDS) for _ in range(len(toks))]
    elif kind == "dollar":
        k = rng.randint(1, len(toks) - 1)
        toks = toks[:k] + ["$"] + [rng.choice(CWORDS) for _ in range(rng.randint(1, 12))] + ([] if rng.random() < 0.7 else toks[k:])
    out = []
    pos = []
    p = 0
    for t in toks:
        p += len(t)
        pos.append(p)  # boundary right after this token
        p += 1
    for k, b in enumerate(pos):
        for delta in range(-6, 7):
            pad = W + delta - b
            if 0 <= pad <= 40 and k >= 1:
                # widen the first gap so that boundary k sits at column W+delta
                out.append(toks[0] + " " * (1 + pad) + " ".join(toks[1:]))
    return out


def gen_small(alphabet, maxlen):
    for n in range(0, maxlen + 1):
        for t in itertools.product(alphabet, repeat=n):
            yield "".join(t)


def gen_cell_case(rng, i):
    v = VERSIONS[i % 3]
    W = limit_of(v)
    target = W - rng.randint(0, 14)
    text = f"{rng.choice([1, 5, 10, 99])} 0 "
    s = 1
    while True:
        text += rng.choice(["-", "", "+", ""]) + str(s)
        s += rng.choice([1, 3, 11, 101])
        sep = rng.choice([" ", " ", " : ", "  "])
        if len(text) + len(sep) >= target - 12:
            break
        text += sep
    text += " "
    lines = [text.rstrip() if rng.random() < 0.5 else text]
    r = rng.random()
    if r < 0.35:
        lines[0] += rng.choice([" ", "  "]) + "$ " + gen_comment(rng, rng.randint(1, 6))
    elif r < 0.5:
        lines.append(rng.choice(["c ", "C ", "  c "]) + gen_comment(rng, rng.randint(1, 20)))
    nparam = rng.randint(0, 3)
    params = rng.sample([rng.choice(["imp:n=1", "imp:n=0 imp:p=1"]), "vol=2.5", "u=3", "tmp=2.5e-8"], nparam)
    for p in params:
        if rng.random() < 0.5 and "$" not in lines[-1] and not lines[-1].lower().lstrip().startswith("c "):
            lines[-1] = lines[-1].rstrip() + " " + p
        else:
            lines.append("     " + p)
        if rng.random() < 0.35:
            lines[-1] += " $ " + gen_comment(rng, rng.randint(1, 8))
    edits = []
    if rng.random() < 0.7:
        edits.append(["number", rng.choice([12345678, 99999999, 1234, 7])])
    if rng.random() < 0.35:
        edits.append(["material", rng.choice([1, 12345678]), rng.choice([1.23456789, 0.000123456, 19.1])])
    if rng.random() < 0.4:
        edits.append(["volume", rng.choice([5.0, 1.23456789e7, 0.001])])
    if rng.random() < 0.3 and "imp:n" in "\n".join(lines):
        edits.append(["importance", rng.choice([0.0, 2.0, 0.123456789])])
    return {"kind": "cell", "text": "\n".join(lines), "edits": edits, "version": list(v)}


def gen_surface_case(rng, i):
    v = VERSIONS[i % 3]
    W = limit_of(v)
    kind = rng.choice(["gq", "sq", "rpp", "box", "pz", "so"])
    n = {"gq": 10, "sq": 10, "rpp": 6, "box": 12, "pz": 1, "so": 1}[kind]
    consts = [rng.choice(["1.0", "-2.5", "0.125", "1e-3", "100.5", "3.14159", "0", "12345.678"]) for _ in range(n)]
    text = f"{rng.choice([1, 20, 300])} {kind} " + " ".join(consts)
    while len(text) < W - rng.randint(0, 30) and rng.random() < 0.8:
        text = text.replace(" ", "  ", 1) if rng.random() < 0.3 else text + " "
        if len(text) > W - 40:
            break
    if rng.random() < 0.5:
        text += " $ " + gen_comment(rng, rng.randint(1, 14))
    edits = []
    if rng.random() < 0.6:
        edits.append(["number", rng.choice([99999999, 12345])])
    if rng.random() < 0.6:
        edits.append(["constants", rng.choice([1.0000001, 3.3333333, 1e-7]), rng.choice([0, 0.1234567])])
    return {"kind": "surface", "text": text[:W], "edits": edits, "version": list(v)}


def gen_data_case(rng, i):
    v = VERSIONS[i % 3]
    W = limit_of(v)
    r = rng.random()
    if rng.random() < 0.2:
        # data inputs whose mnemonic begins with c, on one physical line around / beyond the limit
        kind = rng.choice(["c", "c", "cf", "cm", "cut"])
        lead = rng.choice(["", "", " ", "   "])
        if kind == "cut":
            text = lead + f"cut:{rng.choice('np')} j 0.0 " + " ".join(rng.choice(["-0.5", "-0.25", "0", "j", "1e-3"]) for _ in range(3))
            while len(text) < W + rng.randint(-20, 6):
                text += " "
            text += "$ " + gen_comment(rng, rng.randint(3, 14))
        else:
            name = {"c": rng.choice(["c14", "C14", "*c14", "c4"]), "cf": "cf4", "cm": "cm14"}[kind]
            text = lead + name
            step = rng.choice([0.1, 0.05, 0.04])
            x = -1.0
            while x <= 1.0001 and len(text) < W + rng.randint(-10, 40):
                text += " " + (f"{x:.2f}" if kind != "cf" else str(int(100 * (x + 1.5))))
                x += step
            if rng.random() < 0.3:
                text += " $ " + gen_comment(rng, rng.randint(1, 8))
        return {"kind": "generic", "text": text[:128], "edits": [], "version": list(v)}
    if r < 0.45:
        iso = ["1001.80c", "8016.80c", "92235.80c", "92238.80c", "6000.80c", "40090.80c", "26056.80c", "5010.80c"]
        text = f"m{rng.choice([1, 20, 300])}"
        k = 0
        while len(text) < W - rng.randint(0, 25) and k < len(iso):
            text += f" {iso[k]} {rng.choice(['0.5', '1.0', '2.5e-3', '0.66667'])}"
            k += 1
        if rng.random() < 0.4:
            text += " $ " + gen_comment(rng, rng.randint(1, 10))
        edits = [["number", rng.choice([99999999, 4321])]] if rng.random() < 0.6 else []
        if rng.random() < 0.5:
            edits.append(["fractions", rng.choice([0.333333333, 1.0000001, 1e-7])])
        return {"kind": "material", "text": text[:W], "edits": edits, "version": list(v)}
    if r < 0.75:
        laws = []
        text = f"mt{rng.choice([1, 20, 300])}"
        while len(text) < W - rng.randint(0, 14):
            l = rng.choice(["lwtr.20t", "be-met.40t", "grph.10t", "poly-h.01t", "u-o2.30t", "h-zr.20t"])
            laws.append(l)
            text += " " + l
        edits = []
        if rng.random() < 0.5:
            edits.append(["laws", laws + [rng.choice(["be-met.40t", "o-be.20t"])]])
        return {"kind": "thermal", "text": text[:W], "edits": edits, "version": list(v)}
    text = f"tr{rng.choice([1, 20, 300])} " + " ".join(rng.choice(["0", "1.5", "-2.25", "0.70710678", "1e-3"]) for _ in range(12))
    if rng.random() < 0.4:
        text += " $ " + gen_comment(rng, rng.randint(1, 10))
    edits = [["number", rng.choice([999, 54321])]] if rng.random() < 0.5 else []
    if rng.random() < 0.5:
        edits.append(["displacement", [rng.choice([1.23456789, 1e-7, 12345.6789]) for _ in range(3)]])
    return {"kind": "transform", "text": text[:W], "edits": edits, "version": list(v)}


def gen_file_case(rng, i):
    v = VERSIONS[i % 3]
    msg = "" if rng.random() < 0.6 else "MESSAGE: " + gen_comment(rng, rng.randint(1, 30)) + "\n\n"
    title = "title " + gen_comment(rng, rng.randint(0, 30))
    cells, nc = [], rng.randint(1, 4)
    for k in range(nc):
        c = gen_cell_case(rng, 1)  # cell text built for the 128 regime is legal to read; the write regime varies
        t = c["text"].split(" ", 2)
        body = t[2] if len(t) > 2 else "-1"
        # keep it parseable as a problem: void cells, surfaces 1..; importance given once
        geom = " ".join(w for w in body.split("\n")[0].split("$")[0].split() if w.lstrip("+-").isdigit() or w == ":")
        geom = geom.strip(": ") or "-1"
        line = f"{k + 1} 0 {geom}"
        if rng.random() < 0.4:
            line += " $ " + gen_comment(rng, rng.randint(1, 10))
            cells.append(line)
            cells.append("     imp:n=1")
        else:
            cells.append(line + " imp:n=1")
        if rng.random() < 0.3:
            cells.append("c " + gen_comment(rng, rng.randint(1, 22)))
    used = sorted({int(w.lstrip("+-")) for l in cells if not l.startswith("c ") for w in l.split("$")[0].split()[2:] if w.lstrip("+-").isdigit()})
    surfs = [f"{s} pz {s}.5" + ("" if rng.random() < 0.7 else " $ " + gen_comment(rng, rng.randint(1, 12))) for s in used]
    data = ["m1 1001.80c 0.66667 8016.80c 0.33333", "mode n", "nps 100"]
    if rng.random() < 0.5:
        used0 = [int(w) for w in cells[0].split("$")[0].split()[2:] if w.isdigit()] or [1]
        data += [f"f14:n {used0[0]}", rng.choice(["", " ", "  "]) + rng.choice(["c14 ", "C14 ", "*c14 "]) + COSINES[: rng.choice([60, 90, 104])].rstrip(" -.")
                 + ("" if rng.random() < 0.6 else " $ " + gen_comment(rng, 4)), "cut:n j 0.0"]
    if rng.random() < 0.5:
        data.insert(1, "mt1 lwtr.20t be-met.40t")
    text = msg + title[:79] + "\n" + "\n".join(l[:128] for l in cells) + "\n\n" + "\n".join(surfs) + "\n\n" + "\n".join(data) + "\n\n"
    edits = []
    for _ in range(rng.randint(0, 3)):
        edits.append([rng.choice(["cell", "surface"]), rng.randint(0, 5), [["number", rng.choice([99999999, 12345678, 87654321])]]])
    # distinct numbers
    seen, ed2 = set(), []
    for e in edits:
        n = e[2][0][1]
        if (e[0], n) not in seen:
            seen.add((e[0], n))
            ed2.append(e)
    return {"text": text, "edits": ed2, "version": list(v)}


# ---- per-cell data (IMP for several particles, VOL, U) in every layout MCNP allows, in either block, moved between the
# blocks by problem.print_in_data_block — as the starting state (the source gives the data in the data block) and as an
# edit.  The values keep the padding they were read with ("&", line breaks, $ comments), and that padding travels with them
# to the other block.
CD_PARTICLES = ["n", "p", "e"]
CD_MODS = ["imp", "vol", "u"]


def celldata_entries(cd):
    """the names of the entries a cell (or the data block) carries, in print order"""
    names = []
    if "imp" in cd["mods"]:
        names += ["imp:" + ",".join(cd["particles"])] if cd.get("combined") else ["imp:" + x for x in cd["particles"]]
    return names + [m for m in ("vol", "u") if m in cd["mods"]]


def _cd_value(cell, name):
    if name.startswith("imp:"):
        return cell["imp"][name[4:].split(",")[0]]
    return cell[name]


def _cd_join(text, sep, lead, item):
    """append one entry / value behind `text` with the layout `sep`"""
    if "$" in text.split("\n")[-1] and sep != "cont":
        sep, lead = "cont", 0  # a $ comment runs to the end of its line
    if sep == "same":
        return text + " " * (1 + lead % 3) + item
    if sep == "cont":
        return text + "\n" + " " * (5 + lead) + item
    return text + " &\n" + " " * lead + item  # "amp": the mark makes the next line a continuation wherever it starts


def celldata_text(cd):
    """the source file of a celldata case (a pure function of the structured description: shrinking edits `cd`)"""
    n = len(cd["cells"])
    names = celldata_entries(cd)
    lines = ["per-cell data in both blocks, with & continuations"]
    for k, cell in enumerate(cd["cells"]):
        geom = "-1" if n == 1 else ("-1" if k == 0 else f"{k}" if k == n - 1 else f"{k} -{k + 1}")
        text = f"{k + 1} 0 {geom}"
        for name in names:
            if cd["where"][name.split(":")[0]] != "cell":
                continue
            lay = cell["lay"].get(name, ["same", 0, ""])
            text = _cd_join(text, lay[0], lay[1], name + cell.get("eq", "=") + _cd_value(cell, name))
            if lay[2]:
                text += " $ " + lay[2]
        if k == n - 1 and cd.get("tail_amp") and "$" not in text.split("\n")[-1]:
            text += " &"
        lines += text.split("\n")
    lines.append("")
    lines += [f"{k + 1} so {k + 1}.5" for k in range(max(1, n - 1))]
    lines.append("")
    data = ["mode " + " ".join(cd["particles"])]
    for name in names:
        if cd["where"][name.split(":")[0]] != "data":
            continue
        text = name
        for k, cell in enumerate(cd["cells"]):
            lay = cell["lay"].get(name, ["same", 0, ""])
            text = _cd_join(text, lay[0] if k else "same", lay[1], _cd_value(cell, name))
            if lay[2]:
                text += " $ " + lay[2]
        data.append(text)
    # where the NPS input stands among the data inputs is part of the description
    data.insert(min(len(data), 1 + cd.get("nps_at", 0)), "nps 1000")
    if cd.get("long_comment"):
        data.insert(1, "c " + cd["long_comment"])
    return "\n".join(lines + data) + "\n\n"


def gen_celldata_case(rng, i):
    v = VERSIONS[i % 3]
    particles = rng.choice([["n"], ["n", "p"], ["n", "p"], ["n", "p"], ["p", "n"], ["n", "p", "e"], ["n", "e"]])
    mods = ["imp"] + [m for m in ("vol", "u") if rng.random() < 0.4]
    ncell = rng.choice([1, 2, 2, 3, 3, 4, 6]) if rng.random() < 0.85 else rng.randint(24, 50)
    amp = rng.choice([0.0, 0.25, 0.5, 0.5, 0.9])  # how much of the layout uses the continuation mark
    cd = {
        "particles": particles,
        "mods": mods,
        "where": {m: ("cell" if rng.random() < 0.7 else "data") for m in CD_MODS},
        "combined": len(particles) > 1 and rng.random() < 0.15,
        "tail_amp": rng.random() < amp * 0.5,
        "nps_at": rng.randint(0, 6),
        "long_comment": gen_comment(rng, rng.randint(18, 30)) if rng.random() < 0.2 else "",
        "cells": [],
    }
    for k in range(ncell):
        last = k == ncell - 1 and ncell > 1
        cell = {
            "imp": {x: ("0" if last else rng.choice(["1", "1", "2", "4", "0.5", "1.0", "8"])) for x in CD_PARTICLES},
            "vol": rng.choice(["1", "2.5", "10.0", "1e3"]),
            "u": str(rng.choice([1, 2, 3])),
            "eq": rng.choice(["=", "=", "=", " = ", " "]),
            "lay": {},
        }
        for name in celldata_entries(cd):
            r = rng.random()
            sep = "amp" if r < amp else "cont" if r < amp + (1 - amp) * 0.3 else "same"
            lead = rng.choice([0, 0, 0, 1, 3, 4, 5, 7]) if sep == "amp" else rng.choice([0, 0, 0, 1, 2])
            comment = gen_comment(rng, rng.randint(1, 6)) if sep != "amp" and rng.random() < 0.08 else ""
            cell["lay"][name] = [sep, lead, comment]
        cd["cells"].append(cell)
    # the switches: both directions, before and after the other edits; edits that make values grow
    edits = []
    for m in mods:
        if rng.random() < 0.75:
            edits.append(["problem", 0, [["pidb", m, cd["where"][m] == "cell" or rng.random() < 0.2]]])
    for _ in range(rng.randint(0, 2)):
        r = rng.random()
        if r < 0.5:
            edits.append(["cell", rng.randint(0, 60), [["imp", rng.choice(particles), rng.choice([0.0, 3.0, 0.123456789, 16.0])]]])
        elif r < 0.8:
            edits.append(["cell", rng.randint(0, 60), [["number", rng.choice([99999999, 1234567, 77])]]])
        elif "vol" in mods:
            edits.append(["cell", rng.randint(0, 60), [["volume", rng.choice([5.0, 1.23456789e7])]]])
    rng.shuffle(edits)
    seen, ed2 = set(), []
    for e in edits:
        key = (e[0], e[2][0][0], e[2][0][1])
        if key not in seen:
            seen.add(key)
            ed2.append(e)
    return {"cd": cd, "edits": ed2, "version": list(v), "imp_cards": True}


def shrink_celldata(case, fails):
    """smallest description on which `fails(case)` still holds: fewer edits, fewer cells, fewer kinds of data and
    particles, plainer layouts"""
    def with_cd(cd):
        return dict(case, cd=cd)

    def ok(c):
        try:
            return fails(c)
        except Exception:  # noqa: BLE001
            return False

    case = dict(case, edits=shrink_list(case["edits"], lambda es: ok(dict(case, edits=es))))
    cd = json.loads(json.dumps(case["cd"]))
    cells = shrink_list(cd["cells"], lambda cs: len(cs) >= 1 and ok(dict(case, cd=dict(cd, cells=cs))))
    cd["cells"] = cells
    for m in list(cd["mods"]):
        c2 = dict(cd, mods=[x for x in cd["mods"] if x != m])
        e2 = [e for e in case["edits"] if not (e[0] == "problem" and e[2][0][1] == m)]
        if c2["mods"] and ok(dict(case, cd=c2, edits=e2)):
            cd, case = c2, dict(case, edits=e2)
    for x in list(cd["particles"]):
        c2 = dict(cd, particles=[y for y in cd["particles"] if y != x])
        if c2["particles"] and ok(dict(case, cd=c2)):
            cd = c2
    for key, plain in (("tail_amp", False), ("long_comment", ""), ("combined", False), ("nps_at", 0)):
        if cd.get(key) != plain and ok(dict(case, cd=dict(cd, **{key: plain}))):
            cd[key] = plain
    for k in range(len(cd["cells"])):
        for name in list(cd["cells"][k]["lay"]):
            for plain in (["same", 0, ""], [cd["cells"][k]["lay"][name][0], 0, ""]):
                if cd["cells"][k]["lay"][name] == plain:
                    continue
                c2 = json.loads(json.dumps(cd))
                c2["cells"][k]["lay"][name] = plain
                if ok(dict(case, cd=c2)):
                    cd = c2
                    break
        for key, plain in (("eq", "="),):
            if cd["cells"][k][key] != plain:
                c2 = json.loads(json.dumps(cd))
                c2["cells"][k][key] = plain
                if ok(dict(case, cd=c2)):
                    cd = c2
    return dict(case, cd=cd)


CORPUS_STRINGS = [
    # (string, version) — minimised inputs of the defects repaired by the fix: commits (known_findings.json "fixed")
    ("1 0 -1 -2 -3 -4 -5 -6 -7 -8 -9 -10 -11 -12 -13 -14 -15 -16 imp:n=1 $ this dollar comment is too long", V80),
    ("c this is a very long comment line that is longer than eighty columns but shorter than 128 columns", V80),
    ("mt1 lwtr.20t lwtr.20t lwtr.20t lwtr.20t lwtr.20t lwtr.20t lwtr.20t lwtr.20t be-met.40t", V80),
    ("1 0 -1" + " " * 100, V80),
    ("1 0 -1" + " " * 100 + "$ c", V80),
    ("1 0 -1 $" + " x" * 70, V128),
    ("    C" + " word" * 30, V128),
    ("h" * 130, V128),
    ("h" * 127, V128),
    ("1 0 " + "h" * 77, V80),
    # a data line whose first word begins with c (seeded change C10c: _is_comment_line judged by the parser's token regex)
    ("c14 " + COSINES, V80),
    ("  *C14 " + COSINES + " $ cosine bins", V80),
    ("cut:n j 0.0 -0.5 -0.25" + " " * 60 + "$ a comment that does not fit", V80),
    ("1 0 -1 &\n cf4 " + " ".join(str(i) for i in range(1, 40)), V80),
]
COSINE_FILE = (
    "cosine bins written for an 80 column MCNP\n1 0 -1 imp:n=1\n2 0  1 imp:n=0\n\n1 so 10.0\n\nmode n\n"
    "c the cosine bins of the surface current tally\nf14:n 1\nc14 " + COSINES + "\ncut:n j 0.0\nnps 1000\n"
)
CORPUS_CELLS = [
    {"kind": "generic", "text": "c14 " + COSINES, "edits": [], "version": list(V80)},
    {"kind": "generic", "text": "c14 " + COSINES, "edits": [], "version": list(V5)},
    # the continuation mark "&" and paddings that end in a line break (cleanup_last_line, merged from main)
    {"kind": "cell", "text": "1 0 -1 &\n     imp:n=1", "edits": [["volume", 5.0]], "version": list(V128)},
    {"kind": "cell", "text": "1 0 -1 imp:n=1 &\nvol=1", "edits": [["volume", 2.0]], "version": list(V80)},
    {"kind": "cell", "text": "1 0 -1 &\nimp:n=1 &\nu=2", "edits": [["number", 99999999]], "version": list(V80)},
    {"kind": "cell", "text": "1 0 -1 imp:n=1 &", "edits": [["volume", 2.0]], "version": list(V80)},
    {"kind": "cell", "text": "1 0 -1\n", "edits": [["volume", 2.0]], "version": list(V80)},
    {"kind": "cell", "text": "1 0 -1 imp:n=1 $ geometry comment", "edits": [["volume", 5.0]], "version": list(V80)},
    {"kind": "cell", "text": "1 0 -1 vol=1 $ geometry comment\n     imp:n=1", "edits": [], "version": list(V80)},
    {"kind": "cell", "text": "1 0 -1 $ geometry comment\nc foo\n", "edits": [["volume", 5.0]], "version": list(V128)},
    {"kind": "cell", "text": "1 0 -1 -2 -3 -4 -5 -6 -7 -8 -9 -10 -11 -12 -13 -14 -15 -16 -17 -18 -19 -20 $ c\n     imp:n=1", "edits": [["number", 99999999]], "version": list(V80)},
]


# --------------------------------------------------------------------------- the check
def _confirm_wrap_violation(call, site):
    """re-run the single call in this process (load on the machine must never produce a verdict)"""
    r = impl_wrap_string(call)
    if "lines" not in r:
        return None, r
    return judge_wrap(call["s"], call["version"], call["first"], r["lines"], site), r


def _shrink_string(s, pred):
    """smallest string (drop lines, then words, then characters) on which pred still holds"""
    lines = shrink_list(s.split("\n"), lambda ls: pred("\n".join(ls)))
    s = "\n".join(lines)
    import re

    toks = re.split(r"( +)", s)
    toks = shrink_list(toks, lambda ts: pred("".join(ts)))
    return "".join(toks)


_SHRUNK = {}


def report_wrap(chk, call, sig, site="wrap_string"):
    key = str(sorted(sig.items()))
    _SHRUNK[key] = _SHRUNK.get(key, 0) + 1
    if _SHRUNK[key] > 3:
        # already reported (confirmed and minimised) three times on this run: only count further occurrences
        chk.count("repeat:" + sig["class"] + "/" + sig["kind"])
        return
    sig2, r = _confirm_wrap_violation(call, site)
    if sig2 != sig:
        chk.count("flaky:judge")
        return

    def pred(s2):
        c2 = dict(call, s=s2)
        return _confirm_wrap_violation(c2, site)[0] == sig

    s = _shrink_string(call["s"], pred)
    mc = dict(call, s=s)
    mc.pop("lines", None)
    r = impl_wrap_string(mc)
    chk.violation(sig, f"{sig['class']} ({sig['kind']}) at {sig['site']}: wrapping {s[:60]!r}... for {tuple(call['version'])}",
                  {"unit": "wrap_string", "case": mc, "impl": r, "limit": limit_of(call["version"])})


def model_wrap_string(drv, calls):
    return drv.batch([{"op": "wrap_string", "s": c["s"], "version": c["version"], "first": c["first"]} for c in calls])


_CONFIRMED = {}


def compare(chk, drv, unit, case, ri, rm, rerun_impl, rerun_model):
    """model vs implementation for one case; confirmed in-process before it is reported"""
    chk.traces_validated += 1
    if ri == rm:
        return True
    chk.disagreements_checked += 1
    if _CONFIRMED.get(unit, 0) >= 5:
        # five disagreements of this unit were already confirmed in-process and reported: only count the rest
        chk.count("repeat:disagreement")
        return False
    ri2, rm2 = rerun_impl(case), rerun_model(case)
    if ri2 == rm2:
        chk.count("flaky:correspondence")
        return True
    _CONFIRMED[unit] = _CONFIRMED.get(unit, 0) + 1
    chk.broken_obligation("correspondence", unit, {"impl": ri2, "model": rm2}, case)
    return False


def run(chk):
    chk.rule = (
        "U-wrap cases: (a) source lines built from MCNP tokens (numbers, keywords, hyphenated thermal laws, parentheses; first words also "
        "from the look-alike family c14/C14/cf4/cm4/cut:n/ctme/... that begin with c in columns 1-5 but are data, also "
        "behind a line ending in &), "
        "with $ comments, C comment lines, tabs, long blank runs and over-long words, of length limit-12..limit+60, "
        "(b) for base lines every token boundary moved to columns limit-6..limit+6, both regimes (80/128), "
        "(c) all strings over {a,blank,$,c} up to a small length at tiny widths, (d) real cells/surfaces/materials/MT/TR "
        "parsed, edited through the API so that numbers grow, and formatted by the real format_for_mcnp_input, "
        "(e) whole problems read, renumbered and written by write_to_file for (6,1,0),(6,2,0),(5,1,60), "
        "(f) problems whose cells carry per-cell data (IMP for 1-3 particles, separate or combined, VOL, U) laid out with & "
        "continuation marks, 5-blank continuation lines and $ comments, given in the cell block or in the data block (1-6 cells, "
        "or 24-50 so that the cards wrap), moved to the other block by print_in_data_block before/after importance, volume and "
        "number edits; the written file must split into the inputs the problem holds (one per cell/surface, the source's data "
        "inputs, one card per kind of per-cell data and particle group). "
        "A case is non-trivial if the real code produced more than one line for some source line (it wrapped)."
    )
    chk.assumptions = [
        "C10_words/C10_content_data assume no chunk (word or blank run) of the line's data is longer than limit-5 columns; "
        "beyond that break_long_words cuts the word (C10_content_refuted; known finding C10-F1)",
        "C10_roundtrip/C10_start are proved for source lines of the class LineOK: no white space but blanks (no tab), no "
        "chunk longer than a continuation line holds (limit-5 for data, limit-lead-2 for a C comment), no & inside the data, "
        "the data before a $ not by itself a comment card (c$ ...), a line holding only a $ comment is indented",
        "the oracle judges printable-ASCII text with \\n line ends and tabs; other characters are only compared model vs code",
        "is_first_line=False (no caller in MontePy) is compared model vs code and judged for width/blank lines only",
        "title and message are truncated (not wrapped) by the code; only their width is judged",
        "width W - len(indent) is truncated at 0 in the model (Python goes negative; same branches because chunks are non-empty)",
    ]
    chk.trusted_base = [
        "Lean 4.33.0 kernel",
        "Spec/Text.lean as a reading of MCNP's physical line rules (comment line, $, 5-blank continuation, &, column limit)",
        "hand-written model lean/MontePyVerif/Model/Wrap.lean, tied to the code by the U-wrap correspondence of this run",
        "translator: Gen/Constants.lean (LINE_LENGTH, BLANK_SPACE_CONTINUE, TABSIZE), Gen/PyText.lean (str.isspace, "
        "splitlines boundaries, textwrap._whitespace, TextWrapper defaults, the keyword arguments of the TextWrapper call), "
        "Gen/CommentProbe.lean (the answers of the working tree's _is_comment_line on the probe list)",
        "harness tools/props/c10.py and tools/vlib/c10spec.py (Python transcription of Spec/Text.lean, compared with it on every judged case)",
    ]
    leanio.prove(chk, "MontePyVerif.Props.C10", THEOREMS_WRAP, "MontePyVerif.C10")
    leanio.prove(chk, "MontePyVerif.Props.C10Roundtrip", THEOREMS_CARD, "MontePyVerif.C10")
    leanio.prove(chk, "MontePyVerif.Props.C10Cards", THEOREMS_CELLDATA, "MontePyVerif.C10")
    drv = leanio.Driver(chk, "drv_c10")
    if chk.thorough:
        leanio.leanchecker(chk, ["MontePyVerif.Props.C10", "MontePyVerif.Props.C10Roundtrip", "MontePyVerif.Props.C10Cards"])

    # ---------------------------------------------------------------- U-wrapline: _wrap_line vs wrapLine
    rng = chk.rng("lines")
    wl_cases = []
    for s, v in CORPUS_STRINGS:
        for l in s.split("\n"):
            wl_cases.append({"op": "wrap_line", "line": l, "W": limit_of(v), "init": "", "subs": "     "})
    ncorpus = len(wl_cases)
    for i in range(chk.pick(2500, 150000)):
        W = (80, 128)[i % 2]
        init = "" if rng.random() < 0.9 else "     "
        wl_cases.append({"op": "wrap_line", "line": gen_line(rng, W), "W": W, "init": init, "subs": "     "})
    nrandom = len(wl_cases) - ncorpus
    rng = chk.rng("straddle")
    nbase = 0
    for i in range(chk.pick(24, 400)):
        W = (80, 128)[i % 2]
        nbase += 1
        for l in gen_straddle(rng, W):
            wl_cases.append({"op": "wrap_line", "line": l, "W": W, "init": "", "subs": "     "})
    nstraddle = len(wl_cases) - ncorpus - nrandom
    # all short strings at the smallest width the code can handle: below W = 8 the continuation prefix "     $ " leaves a
    # width < 0 and CPython's textwrap itself never returns (not reachable: C10_tables proves every regime is wider)
    nsmall = 0
    small_desc = {}
    for W in chk.pick([8], [8, 9]):
        hi = chk.pick(W + 1, W + 3)
        for l in gen_small("a $", hi):
            if len(l) > W - 2:
                wl_cases.append({"op": "wrap_line", "line": l, "W": W, "init": "", "subs": "     "})
                nsmall += 1
        for l in gen_small("a ", hi - 1):
            for pre in ("c ", " C", "c"):
                wl_cases.append({"op": "wrap_line", "line": pre + l, "W": W, "init": "", "subs": "     "})
                nsmall += 1
        small_desc["all strings over {a,blank,$} of length %d..%d and all C comment lines 'c '+{a,blank}* up to length %d at width %d" % (W - 1, hi, hi + 1, W)] = True
    # unusual characters (model vs code only)
    rng = chk.rng("exotic")
    exo = ["\t", "\x0b", "\x0c", "\x1c", "\x1f", "\x85", "\xa0", " ", "　", "\r", "é", "-", "$", "c", " ", " ", "a", "bb"]
    nexo = chk.pick(600, 20000)
    for i in range(nexo):
        W = rng.choice([10, 16, 24, 80])
        l = "".join(rng.choice(exo) for _ in range(rng.randint(1, W + 20)))
        wl_cases.append({"op": "wrap_line", "line": l, "W": W, "init": "", "subs": "     "})
    chk.units["U-wrapline"] = {"corpus": ncorpus, "random": nrandom, "straddle_base_lines": nbase, "straddle": nstraddle,
                               "exhaustive_small": nsmall, "exotic": nexo}
    chk.exhaustive = small_desc

    impl = pmap(impl_wrap_line, wl_cases, workers=WORKERS, chunksize=256)
    model = drv.batch(wl_cases)
    for i, (case, ri) in enumerate(zip(wl_cases, impl)):
        wrapped = len(ri.get("lines", [])) > 1
        chk.note_case(case, wrapped, sample_every=20000)
        chk.count("wrapline:" + ("wrapped" if wrapped else "fits"))
        if model is not None:
            compare(chk, drv, "U-wrap wrapLine (Model/Wrap.lean vs MCNP_Object._wrap_line)", case, ri, model[i],
                    impl_wrap_line, lambda c: drv.batch([c])[0])
        # judge the real output for the real regimes
        if case["W"] in (80, 128) and case["init"] == "" and "lines" in ri and judgeable(case["line"]) and case["line"].strip():
            v = V80 if case["W"] == 80 else V128
            sig = judge_wrap(case["line"], v, True, ri["lines"])
            if sig is not None:
                report_wrap(chk, {"s": case["line"], "version": list(v), "first": True}, sig)

    # ---------------------------------------------------------------- U-wrapstring: wrap_string_for_mcnp
    rng = chk.rng("strings")
    ws_cases = [{"op": "wrap_string", "s": s, "version": list(v), "first": True} for s, v in CORPUS_STRINGS]
    for i in range(chk.pick(1200, 40000)):
        v = rng.choice([V80, V128, V5, (6, 3, 1), (7, 0, 0), (6, 1, 1), (5, 1, 0), (6, 2, 0), (6, 1, 0)])
        W = 80 if tuple(v) < (6, 2, 0) else 128
        n = rng.randint(1, 4)
        ls = []
        for k in range(n):
            r = rng.random()
            if r < 0.1:
                ls.append(rng.choice(["", "   ", "\t"]))
            else:
                l = gen_line(rng, W)
                prev_ok = k > 0 and ls[-1].strip() and "$" not in ls[-1] and not spec.is_comment_line(ls[-1].expandtabs(8)) \
                    and "&" not in ls[-1]
                if prev_ok and rng.random() < 0.12:
                    # the line before ends in "&": this one continues it although it starts in columns 1-5 — with a
                    # word that begins with c
                    ls[-1] = ls[-1].rstrip(" \t") + " &"
                    l = rng.choice(["", " ", "  ", "    "]) + rng.choice(LOOKALIKES) + " " + " ".join(gen_tokens(rng, rng.randint(3, 40)))
                elif k > 0 and not l.startswith("c") and not l.startswith("C") and rng.random() < 0.8:
                    l = "     " + l.lstrip()
                ls.append(l)
        sep = "\n" if rng.random() < 0.95 else rng.choice(["\r\n", "\r", "\x0c"])
        ws_cases.append({"op": "wrap_string", "s": sep.join(ls) + ("\n" if rng.random() < 0.2 else ""), "version": list(v),
                         "first": rng.random() < 0.92})
    chk.units["U-wrapstring"] = {"cases": len(ws_cases)}
    impl = pmap(impl_wrap_string, ws_cases, workers=WORKERS, chunksize=128)
    model = drv.batch(ws_cases)
    for i, (case, ri) in enumerate(zip(ws_cases, impl)):
        wrapped = ri.get("warnings", 0) > 0
        chk.note_case(case, wrapped, sample_every=10000)
        chk.count("wrapstring:" + (ri.get("error") or ("wrapped" if wrapped else "fits")))
        if model is not None:
            compare(chk, drv, "U-wrap wrapStringForMcnp (Model/Wrap.lean vs MCNP_Object.wrap_string_for_mcnp)", case, ri, model[i],
                    impl_wrap_string, lambda c: drv.batch([c])[0])
        if "lines" in ri and judgeable(case["s"]) and "\r" not in case["s"] and "\x0c" not in case["s"]:
            sig = judge_wrap(case["s"], case["version"], case["first"], ri["lines"])
            if sig is not None:
                report_wrap(chk, case, sig)

    # ---------------------------------------------------------------- U-front: Title / Message
    rng = chk.rng("front")
    fr_cases = []
    for i in range(chk.pick(200, 4000)):
        v = rng.choice(VERSIONS + [(6, 3, 0), (4, 0, 0)])
        if i % 2:
            fr_cases.append({"op": "title", "title": gen_comment(rng, rng.randint(0, 40)), "version": list(v)})
        else:
            fr_cases.append({"op": "message", "lines": [gen_comment(rng, rng.randint(0, 40)) for _ in range(rng.randint(0, 4))], "version": list(v)})
    impl = [impl_front(c) for c in fr_cases]
    model = drv.batch(fr_cases)
    chk.units["U-front"] = {"cases": len(fr_cases)}
    for i, (case, ri) in enumerate(zip(fr_cases, impl)):
        chk.note_case(case, "lines" in ri and any(len(l) >= limit_of(case["version"]) - 1 for l in ri["lines"]))
        chk.count("front:" + case["op"])
        if model is not None:
            compare(chk, drv, "U-wrap title/message (Model/Wrap.lean vs mcnp_input.py)", case, ri, model[i], impl_front,
                    lambda c: drv.batch([c])[0])
        if "lines" in ri and any(len(l) > limit_of(case["version"]) for l in ri["lines"]):
            if any(len(l) > limit_of(case["version"]) for l in impl_front(case).get("lines", [])):
                chk.violation({"mechanism": "wrap", "site": case["op"], "class": "too-long", "kind": "data"},
                              f"{case['op']} line longer than the limit", {"unit": "front", "case": case, "impl": ri})

    # ---------------------------------------------------------------- U-object: real objects, edited, formatted
    rng = chk.rng("objects")
    ob_cases = list(CORPUS_CELLS)
    n = chk.pick(900, 24000)
    for i in range(n):
        r = i % 5
        ob_cases.append(gen_cell_case(rng, i) if r < 2 else gen_surface_case(rng, i) if r == 2 else gen_data_case(rng, i))
    impl = pmap(impl_object, ob_cases, workers=WORKERS, chunksize=32)
    calls, owners = [], []
    cellq, cellown = [], []
    for i, (case, ri) in enumerate(zip(ob_cases, impl)):
        if "skip" in ri:
            chk.count("object-skip:" + case["kind"] + ":" + ri["skip"])
            continue
        chk.count("object:" + case["kind"])
        for c in ri["calls"]:
            calls.append(c)
            owners.append(i)
        if case["kind"] == "cell":
            cellq.append({"op": "cell", "pieces": ri["pieces"], "version": case["version"]})
            cellown.append(i)
    chk.units["U-object"] = {"objects": len(ob_cases), "recorded_wrap_calls": len(calls), "cells_by_pieces": len(cellq)}
    model = model_wrap_string(drv, calls)
    for j, c in enumerate(calls):
        case = ob_cases[owners[j]]
        wrapped = len(c["lines"]) > len([l for l in c["s"].splitlines() if l.strip()])
        chk.note_case({"object": case, "call": j}, wrapped, sample_every=5000)
        chk.count("objectcall:" + ("wrapped" if wrapped else "fits"))
        if model is not None:
            q = {"op": "wrap_string", "s": c["s"], "version": c["version"], "first": c["first"]}
            compare(chk, drv, "U-wrap wrapStringForMcnp on formatted objects", q, {"lines": c["lines"]},
                    {"lines": model[j].get("lines")}, lambda x: {"lines": impl_wrap_string(x).get("lines")},
                    lambda x: {"lines": drv.batch([x])[0].get("lines")})
        if judgeable(c["s"]):
            sig = judge_wrap(c["s"], c["version"], c["first"], c["lines"])
            if sig is not None:
                report_wrap(chk, {"s": c["s"], "version": c["version"], "first": c["first"]}, sig)
    model = drv.batch(cellq)
    for j, q in enumerate(cellq):
        case, ri = ob_cases[cellown[j]], impl[cellown[j]]
        if model is not None:
            def re_impl(_q, case=case):
                r2 = impl_object(case)
                return {"lines": r2.get("lines")}

            compare(chk, drv, "U-wrap cellFormat (Model/Wrap.lean vs Cell.format_for_mcnp_input)", q, {"lines": ri["lines"]},
                    {"lines": model[j].get("lines")}, re_impl, lambda x: {"lines": drv.batch([x])[0].get("lines")})
        sig = judge_cell(ri["pieces"], case["version"], ri["lines"])
        if sig is not None:
            r2 = impl_object(case)
            if "skip" in r2 or judge_cell(r2["pieces"], case["version"], r2["lines"]) != sig:
                chk.count("flaky:judge")
            else:
                chk.violation(sig, f"{sig['class']} while assembling a cell: {case['text'][:50]!r}", {"unit": "object", "case": case, "impl": r2})

    # ---------------------------------------------------------------- U-file: write_to_file
    rng = chk.rng("files")
    fl_cases = []
    for path in sorted(glob.glob(os.path.join(REPO, "tests", "inputs", "*.imcnp"))):
        for v in VERSIONS[:2]:
            fl_cases.append({"path": path, "version": list(v), "edits": []})
    for v in (V80, V5, V128):
        fl_cases.append({"text": COSINE_FILE, "edits": [], "version": list(v)})
    for i in range(chk.pick(150, 3000)):
        fl_cases.append(gen_file_case(rng, i))
    # per-cell data for several particles with & continuations, moved between the blocks (print_in_data_block)
    ncorpus_files = 0
    for path in sorted(glob.glob(os.path.join(VERIF, "corpus", "C10", "*.json"))):
        with open(path) as fh:
            stored = json.load(fh).get("case", {})
        if stored.get("unit") == "file":
            fl_cases.append(stored["case"])
            ncorpus_files += 1
    rng = chk.rng("celldata")
    ncd = chk.pick(400, 8000)
    for i in range(ncd):
        fl_cases.append(gen_celldata_case(rng, i))
    impl = pmap(impl_file, fl_cases, workers=WORKERS, chunksize=8)
    nfiles = 0
    file_calls = []
    for case, ri in zip(fl_cases, impl):
        if "skip" in ri:
            chk.count("file-skip:" + ri["skip"])
            continue
        nfiles += 1
        wrapped = any(len(c["lines"]) > len([l for l in c["s"].splitlines() if l.strip()]) for c in ri["calls"])
        if "cd" in case:
            # non-trivial: a continuation mark of the source stands in data that is written in the other block
            moved = [m for m in case["cd"]["mods"] if ri["holds"]["pidb"][m] != (case["cd"]["where"][m] == "data")]
            marks = any(c["lay"].get(n, ["same"])[0] == "amp" for c in case["cd"]["cells"] for n in celldata_entries(case["cd"])
                        if n.split(":")[0] in moved)
            chk.note_case(case, wrapped or marks)
            chk.count("celldata:" + ("moved-with-mark" if marks else "moved" if moved else "in-place"))
            chk.count("celldata:particles=%d" % len(case["cd"]["particles"]))
        else:
            chk.note_case({"file": case.get("path") or case["text"], "version": case["version"], "edits": case["edits"]}, wrapped)
        chk.count("file:" + ("wrapped" if wrapped else "fits"))
        sig = judge_file(ri, case["version"])
        chk.count("file:inputs-clause:" + ("skipped:" + ri["inputs_skip"] if "inputs_skip" in ri else "judged"))
        chk.count("file:wrapcalls-recorded", len([c for c in ri["calls"] if c["lines"]]))
        chk.count("file:wrapcalls-matched-in-file", ri.get("matched_calls", 0))
        if sig is not None:
            r2 = impl_file(case)
            if "skip" in r2 or judge_file(r2, case["version"]) != sig:
                chk.count("flaky:judge")
            else:
                key = "file:" + str(sorted(sig.items()))
                _SHRUNK[key] = _SHRUNK.get(key, 0) + 1
                if "cd" in case and _SHRUNK[key] <= 3:
                    def fails(c2, sig=sig):
                        r3 = impl_file(c2)
                        return "skip" not in r3 and judge_file(r3, c2["version"]) == sig

                    case = shrink_celldata(case, fails)
                    r2 = impl_file(case)
                    case = dict(case, text=celldata_text(case["cd"]))
                if "cd" in case and _SHRUNK[key] > 3:
                    # reported (confirmed and minimised) three times on this run: only count further occurrences
                    chk.count("repeat:" + sig["class"] + "/" + sig["kind"])
                else:
                    chk.violation(sig, f"{sig['class']} ({sig['kind']}) in the file written for {tuple(case['version'])}",
                                  {"unit": "file", "case": case, "written": r2["written"]})
        for c in ri["calls"]:
            if judgeable(c["s"]):
                s2 = judge_wrap(c["s"], c["version"], c["first"], c["lines"])
                if s2 is not None:
                    report_wrap(chk, {"s": c["s"], "version": c["version"], "first": c["first"]}, s2)
        file_calls += ri["calls"][:40]
    chk.units["U-file"] = {"files": len(fl_cases), "written": nfiles, "celldata_cases": ncd, "corpus_files": ncorpus_files}

    # ---------------------------------------------------------------- U-celldata: IMP cards of the data block
    # Model: importanceDataText (every card through dropFinalContinuationMark, joined) and modifierDataFormat, against the
    # text the real Importance handed to wrap_string_for_mcnp and the lines it returned, from the cards of the live trees
    cq, cown = [], []
    for k, (case, ri) in enumerate(zip(fl_cases, impl)):
        if "skip" not in ri and ri.get("imp_data"):
            cq.append({"op": "imp_data", "cards": ri["imp_data"]["cards"], "version": case["version"]})
            cown.append(k)
    chk.units["U-celldata"] = {"importance_cards_in_data_block": len(cq),
                               "cards_ending_in_mark": sum(1 for q in cq for c in q["cards"] if c.rstrip().endswith("&"))}
    model = drv.batch(cq)
    for j, q in enumerate(cq):
        case, ri = fl_cases[cown[j]], impl[cown[j]]
        if model is None:
            break
        chk.count("celldata-cards:" + ("mark" if any(c.rstrip().endswith("&") for c in q["cards"]) else "plain"))

        def re_impl(_q, case=case):
            r2 = impl_file(case)
            d = (r2.get("imp_data") or {}) if "skip" not in r2 else {}
            return {"text": d.get("text"), "lines": d.get("lines")}

        compare(chk, drv, "U-celldata importanceDataText/modifierDataFormat (Model/Wrap.lean vs Importance._format_tree + "
                "CellModifierInput.format_for_mcnp_input, data block)", dict(q, file_case=case),
                {"text": ri["imp_data"]["text"], "lines": ri["imp_data"]["lines"]},
                {"text": model[j].get("text"), "lines": model[j].get("lines")}, re_impl,
                lambda x: (lambda m: {"text": m.get("text"), "lines": m.get("lines")})(drv.batch([{k: v for k, v in x.items() if k != "file_case"}])[0]))
    if nfiles == 0:
        raise MachineryError("no file could be read and written: the file generator or MontePy's reader is broken")
    if chk.dist.get("file:wrapcalls-recorded", 0) > 0 and chk.dist.get("file:wrapcalls-matched-in-file", 0) * 4 < chk.dist["file:wrapcalls-recorded"]:
        # the file oracle compares the file with its unwrapped inputs; if it cannot find the wrap results in the file any
        # more (write_to_file changed what it does to the lines) it would silently compare the file with itself
        raise MachineryError("file oracle: fewer than a quarter of the recorded wrap results were found in the written files")

    # ---------------------------------------------------------------- U-spec: the Python oracle is Spec/Text.lean
    sp = []
    for c in (calls + file_calls)[: chk.pick(1500, 20000)]:
        lim = limit_of(c["version"])
        sp.append((lim, [l.expandtabs(8) for l in c["lines"]]))
        sp.append((spec.HUGE, src_lines(c["s"])))
    sp = [(lim, ls) for lim, ls in sp if all(judgeable(l) for l in ls)]
    lean = drv.batch([{"op": "logical", "limit": lim, "lines": ls} for lim, ls in sp])
    chk.units["U-spec"] = {"cases": len(sp)}
    if lean is not None:
        for (lim, ls), rl in zip(sp, lean):
            chk.traces_validated += 1
            if spec.logical_inputs(lim, ls) != rl:
                chk.broken_obligation("correspondence", "U-spec (tools/vlib/c10spec.py vs Spec/Text.lean)",
                                      {"python": spec.logical_inputs(lim, ls), "lean": rl}, {"limit": lim, "lines": ls})


def replay(chk, payload):
    chk.rule = "replay of one stored case"
    case = payload.get("case")
    if payload.get("verdict") == "no-failing-input-found":
        b = payload["no_longer_checks"][0]
        case = {"unit": "model", "case": b["case"]}
    unit = case.get("unit")
    drv = leanio.Driver(chk, "drv_c10")
    c = case["case"]
    chk.note_case(case)
    if unit == "wrap_string":
        r = impl_wrap_string(c)
        if "lines" in r:
            sig = judge_wrap(c["s"], c["version"], c["first"], r["lines"])
            if sig is not None:
                chk.violation(sig, f"{sig['class']} ({sig['kind']})", dict(case, impl=r))
        if drv.ok:
            m = drv.batch([{"op": "wrap_string", "s": c["s"], "version": c["version"], "first": c["first"]}])[0]
            if m != r:
                chk.broken_obligation("correspondence", "U-wrap wrapStringForMcnp", {"impl": r, "model": m}, c)
    elif unit == "object":
        r = impl_object(c)
        if "skip" not in r and c["kind"] == "cell":
            sig = judge_cell(r["pieces"], c["version"], r["lines"])
            if sig is not None:
                chk.violation(sig, f"{sig['class']} while assembling a cell", dict(case, impl=r))
        for call in r.get("calls", []):
            sig = judge_wrap(call["s"], call["version"], call["first"], call["lines"])
            if sig is not None:
                chk.violation(sig, f"{sig['class']} ({sig['kind']})", dict(case, impl=r))
    elif unit == "file":
        r = impl_file(c)
        if "skip" not in r:
            sig = judge_file(r, c["version"])
            if sig is not None:
                chk.violation(sig, f"{sig['class']} in the written file", dict(case, written=r["written"]))
    elif unit == "front":
        r = impl_front(c)
        if any(len(l) > limit_of(c["version"]) for l in r.get("lines", [])):
            chk.violation({"mechanism": "wrap", "site": c["op"], "class": "too-long", "kind": "data"}, "too long", dict(case, impl=r))
    elif unit == "model":
        # a stored model/implementation disagreement
        if drv.ok and isinstance(c, dict) and "op" in c:
            fn = {"wrap_line": impl_wrap_line, "wrap_string": impl_wrap_string, "title": impl_front, "message": impl_front}.get(c["op"])
            if fn is not None:
                ri, rm = fn(c), drv.batch([c])[0]
                if ri != rm:
                    chk.broken_obligation("correspondence", "U-wrap", {"impl": ri, "model": rm}, c)
    chk.add_obligation("replay", True)
