"""C11 — the problem read does not depend on the file's physical layout.

prove       : lean/MontePyVerif/Props/C11.lean (Spec reader inverts every valid layout; the reader model refines the Spec
              reader; two valid renderings give the same inputs; _clean_line)
correspond  : unit U-reader — Model/Reader.lean vs input_syntax_reader.read_input_syntax on rendered files (exact lines);
              Spec.renderInputs (Lean) vs the harness renderer
judge       : one logical problem x k layouts read by the real montepy.read_input: the serialised object models must be
              identical; the real reader's input splitting must be the Spec reader's (Spec.logicalInputs on the same bytes)
The lexer / LALR half (case, '=', padding anywhere) is NOT proved (SLY is not modelled): it is tied by this validation only.
"""

import copy

from vlib import leanio
from vlib import readerlib as rl
from vlib.core import canon
from vlib.par import pmap

META = {
    "property_id": "C11",
    "technique": "Lean 4 proof: printer-parser law for an independent MCNP-rules Spec reader over all valid layouts, refinement of a "
    "hand-written model of the line reader to it; differential correspondence model vs implementation; parser validated on layouts",
    "design_ref": "6 C11",
}

THEOREMS = [
    "C11_tables",
    "C11_clean",
    "C11_clean_plain",
    "C11_clean_high",
    "C11_crlf",
    "C11_tabs",
    "C11_reader_refines_spec",
    "C11_reader_inputs",
    "C11_reader_layout",
    "C11_after_terminator",
    "C11_after_terminator_readData",
    "C11_spec_layout",
    "C11_reader_render",
    "C11_reader_layout_render",
]
WORKERS = 8
ALL_FEATS = ["blanks", "newline", "amp", "dollar", "comments", "lead", "trail", "pre"]
PHYS = ["crlf", "final_blank", "tabs", "blank_ws", "message", "no_final_eol"]


# --------------------------------------------------------------------------- layouts of a whole problem
def gen_file_layout(rng, prob, limit, canonical=False):
    """style + one InputLayout per input + physical features"""
    if canonical:
        style = {"eq": 0, "glue": 0.0, "case": 0}
        feats, phys = set(), {"final_blank": True}
    else:
        style = {"eq": rng.choice([0, 1, 2, 3]), "glue": rng.choice([0.0, 0.5, 1.0]), "case": rng.choice([0, 1, 2, 3])}
        feats = {f for f in ALL_FEATS if rng.random() < 0.6}
        phys = {f: True for f in PHYS if rng.random() < 0.3}
        if rng.random() < 0.25 and phys.get("final_blank"):
            phys["junk"] = True  # text behind the terminator of the data block (repaired finding C11-F1)
    srng = rng.__class__(rng.getrandbits(48))
    blocks = []
    for k in ("cells", "surfaces", "data"):
        lays = []
        for atoms in prob[k]:
            words = rl.realise_words(srng, atoms, style)
            lays.append(rl.gen_layout(rng, words, limit, feats))
        blocks.append(lays)
    return {"style": style, "feats": sorted(feats), "phys": phys, "blocks": blocks, "limit": limit, "seed": rng.getrandbits(32)}


def text_of(prob, lay):
    import random

    rng = random.Random(lay["seed"])
    blocks_lines = [[l for inp in blk for l in rl.render_py(inp)] for blk in lay["blocks"]]
    message = prob["message"] if lay["phys"].get("message") else None
    if lay["phys"].get("message") and message is None:
        message = ["outp=verif.o"]
    phys = dict(lay["phys"])
    if phys.get("no_final_eol") and not phys.get("final_blank"):
        pass
    elif phys.get("no_final_eol"):
        phys.pop("no_final_eol")
    return rl.assemble(rng, prob["title"], message, blocks_lines, phys)


def case_of(text, limit):
    return {"main": "layout.i", "files": {"layout.i": text}, "cwd": ".", "abs": False, "limit": limit}


def expected_inputs(lay):
    return [[b, " ".join(inp["words"]).split()] for b, blk in enumerate(lay["blocks"]) for inp in blk]


def features_of(lay):
    fs = set()
    for blk in lay["blocks"]:
        for inp in blk:
            for g in inp["gaps"]:
                if g["k"] != "blanks" or g["n"] > 0:
                    fs.add("gap:" + g["k"])
                if g["k"] == "amp" and g["t"] > 0:
                    fs.add("amp-trailing-blanks")
                if g["k"] == "amp" and g["n"] < 5:
                    fs.add("amp-next-in-col1-5")
                if g["k"] == "amp" and g.get("cs"):
                    fs.add("amp-then-comments")
            if inp["pre"]:
                fs.add("c-before-input")
            if inp["lead"]:
                fs.add("lead")
            if inp["trail"]:
                fs.add("trail")
            if inp["trailDollar"] is not None:
                fs.add("dollar-at-end")
    for k, v in lay["phys"].items():
        if v:
            fs.add("phys:" + k)
    if lay["style"]["eq"]:
        fs.add("eq:%d" % lay["style"]["eq"])
    if lay["style"]["case"]:
        fs.add("case:%d" % lay["style"]["case"])
    if lay["style"]["glue"]:
        fs.add("glue")
    return sorted(fs)


def feature_key(sig, lay):
    """the layout features left in a minimised failing layout; spelling features only matter to the lexer/parser"""
    fs = features_of(lay)
    if sig.get("mechanism") == "reader":
        fs = [f for f in fs if not f.startswith(("eq:", "case:", "glue"))]
    return "+".join(fs) or "none"


# --------------------------------------------------------------------------- observation and oracle
def observe_layout(args):
    prob, lay = args
    text = text_of(prob, lay)
    case = case_of(text, lay["limit"])
    res = rl.impl_problem(case)
    if "model" in res:
        res["model"].pop("message", None)  # the presence of a message block is a layout feature
    return {"text": text, "syn": rl.impl_syntax(case), "read": res}


def classify_reader(exp, act):
    """how the real reader's inputs (block, words) differ from the logical inputs"""
    if act == exp:
        return None
    ea, aa = [canon(x[1]) for x in exp], [canon(x[1]) for x in act]
    if len(act) > len(exp) and act[: len(exp)] == exp:
        return "trailing-content-read"
    if [x[1] for x in act] == [x[1] for x in exp]:
        return "block-misassigned"
    flat_e = [w for x in exp for w in x[1]]
    flat_a = [w for x in act for w in x[1]]
    if flat_e == flat_a:
        return "continuation-missed" if len(act) > len(exp) else "continuation-spurious"
    if len(flat_a) < len(flat_e):
        return "data-read-as-comment"
    if len(flat_a) > len(flat_e):
        return "comment-read-as-data"
    return "input-splitting-differs"


def judge_layout(lay, obs, ref):
    """None or (signature-without-feature, what).  `ref` = observation of the canonical layout."""
    syn = obs["syn"]
    exp = expected_inputs(lay)
    act = [[it["bt"], rl.words_of(it["lines"])] for it in syn["items"] if it["k"] == "input"]
    act = [x for x in act if x[1]]
    cls = classify_reader(exp, act)
    if syn["err"] is not None:
        return {"mechanism": "reader", "class": "reader-raises-" + syn["err"]}, f"the syntax reader raises {syn['err']} on a valid layout"
    if cls is not None:
        return {"mechanism": "reader", "class": cls}, f"input splitting differs from the logical inputs ({cls})"
    if syn["warnings"]:
        return {"mechanism": "reader", "class": "spurious-line-overrun-warning"}, "LineOverRunWarning on a file whose lines are within the limit"
    if "err" in ref["read"]:
        return "generator", ref["read"]
    if "err" in obs["read"]:
        return {"mechanism": "lexer-parser", "class": "layout-rejected", "error": obs["read"]["err"]}, f"read_input raises {obs['read']['err']} on this layout, not on the canonical one: {obs['read'].get('msg', '')[:160]}"
    if obs["read"]["model"] != ref["read"]["model"]:
        part = next((k for k in ("title", "mode", "cells", "surfaces", "data", "materials", "transforms", "universes") if obs["read"]["model"].get(k) != ref["read"]["model"].get(k)), "?")
        return {"mechanism": "lexer-parser", "class": "layout-dependent-model", "part": part}, f"the object model ({part}) differs from the canonical layout's"
    return None


# --------------------------------------------------------------------------- shrinking a layout
def plain_input(inp):
    return {"words": inp["words"], "gaps": [], "pre": [], "lead": 0, "trail": 0, "trailDollar": None}


def shrink_layout(prob, lay, still_fails, budget=80):
    lay = copy.deepcopy(lay)
    steps = [0]

    def attempt(cand):
        if steps[0] >= budget:
            return False
        steps[0] += 1
        try:
            return still_fails(cand)
        except Exception:  # noqa: BLE001
            return False

    for k in list(lay["phys"]):
        cand = copy.deepcopy(lay)
        cand["phys"].pop(k)
        if attempt(cand):
            lay = cand
    # all inputs plain at once, then block by block, then one by one, then gap by gap
    cand = copy.deepcopy(lay)
    cand["blocks"] = [[plain_input(i) for i in blk] for blk in cand["blocks"]]
    if attempt(cand):
        return lay if False else cand
    for b in range(3):
        cand = copy.deepcopy(lay)
        cand["blocks"][b] = [plain_input(i) for i in cand["blocks"][b]]
        if attempt(cand):
            lay = cand
    for b in range(3):
        for j in range(len(lay["blocks"][b])):
            if lay["blocks"][b][j] == plain_input(lay["blocks"][b][j]):
                continue
            cand = copy.deepcopy(lay)
            cand["blocks"][b][j] = plain_input(cand["blocks"][b][j])
            if attempt(cand):
                lay = cand
                continue
            inp = lay["blocks"][b][j]
            for field, val in (("pre", []), ("lead", 0), ("trail", 0), ("trailDollar", None)):
                if inp[field] != val:
                    cand = copy.deepcopy(lay)
                    cand["blocks"][b][j][field] = val
                    if attempt(cand):
                        lay = cand
            for g in range(len(lay["blocks"][b][j]["gaps"])):
                if lay["blocks"][b][j]["gaps"][g].get("cs") and lay["blocks"][b][j]["gaps"][g]["k"] == "amp":
                    cand = copy.deepcopy(lay)
                    cand["blocks"][b][j]["gaps"][g]["cs"] = []
                    if attempt(cand):
                        lay = cand
                    else:
                        for keep in ([{"ind": 0, "text": "a comment"}], lay["blocks"][b][j]["gaps"][g]["cs"][:1], lay["blocks"][b][j]["gaps"][g]["cs"][1:]):
                            if keep and keep != lay["blocks"][b][j]["gaps"][g]["cs"]:
                                cand = copy.deepcopy(lay)
                                cand["blocks"][b][j]["gaps"][g]["cs"] = keep
                                if attempt(cand):
                                    lay = cand
                                    break
                if lay["blocks"][b][j]["gaps"][g] != {"k": "blanks", "n": 0}:
                    cand = copy.deepcopy(lay)
                    cand["blocks"][b][j]["gaps"][g] = {"k": "blanks", "n": 0}
                    if attempt(cand):
                        lay = cand
    return lay


# --------------------------------------------------------------------------- exhaustive: every single feature at every gap of fixed inputs
FIXED = [
    (0, ["1", "0", "-1", "2", "imp:n=1"]),
    (0, ["2", "1", "-2.5", "(1:-2)", "#1", "imp:n=0", "vol=1.5"]),
    (1, ["1", "so", "5"]),
    (1, ["2", "c/z", "0", "0", "2.5"]),
    (2, ["m1", "1001.80c", "2", "8016.80c", "1"]),
    (2, ["sdef", "pos=0", "0", "0", "erg=1.5"]),
]
SINGLE_GAPS = [
    {"k": "blanks", "n": 3}, {"k": "blanks", "n": 11}, {"k": "newline", "n": 0}, {"k": "newline", "n": 7},
    {"k": "amp", "pre": 0, "t": 0, "n": 0}, {"k": "amp", "pre": 1, "t": 2, "n": 3}, {"k": "amp", "pre": 0, "t": 0, "n": 8},
    {"k": "dollar", "pre": 0, "text": "imp:n=1", "n": 0}, {"k": "dollar", "pre": 1, "text": "ends with &", "n": 2},
    {"k": "comments", "cs": [{"ind": 0, "text": "1 0 -1"}], "n": 0}, {"k": "comments", "cs": [{"ind": 4, "text": ""}, {"ind": 0, "text": "ends with &"}], "n": 1},
]


def exhaustive_layouts():
    """canonical layout of the fixed problem with exactly one non-default gap, at every gap position"""
    base = [[], [], []]
    for b, ws in FIXED:
        base[b].append(plain_input({"words": ws}))
    for b in range(3):
        for j, inp in enumerate(base[b]):
            for g in range(len(inp["words"]) - 1):
                for gap in SINGLE_GAPS:
                    if gap["k"] == "amp" and gap["n"] < 5 and inp["words"][g + 1].startswith("#"):
                        continue
                    blocks = copy.deepcopy(base)
                    blocks[b][j]["gaps"] = [{"k": "blanks", "n": 0}] * g + [gap]
                    yield {"style": {"eq": 0, "glue": 0.0, "case": 0}, "feats": [], "phys": {"final_blank": True}, "blocks": blocks, "limit": 128, "seed": 0}


AMP_COMMENTS = [
    [],
    [{"ind": 0, "text": "a comment"}],
    [{"ind": 4, "text": ""}, {"ind": 0, "text": "ends with &"}],
    [{"ind": 2, "text": "1 0 -1 $ x"}, {"ind": 0, "text": "c"}, {"ind": 1, "text": "read file=nothing.i"}],
]


def exhaustive_amp_layouts():
    """the product the per-gap choices must compose to: at EVERY gap of every fixed input (two of each block):
    '&' (0 or 2 trailing blanks) + line break + 0, 1, 2 or 3 C comment lines + a continuation indented by 0..8 blanks"""
    base = [[], [], []]
    for b, ws in FIXED:
        base[b].append(plain_input({"words": ws}))
    for b in range(3):
        for j, inp in enumerate(base[b]):
            for g in range(len(inp["words"]) - 1):
                for ci, cs in enumerate(AMP_COMMENTS):
                    for n in range(9):
                        if n < 5 and inp["words"][g + 1].startswith("#"):
                            continue  # a line must not begin with '#' in columns 1-5 (vertical format)
                        blocks = copy.deepcopy(base)
                        blocks[b][j]["gaps"] = [{"k": "blanks", "n": 0}] * g + [{"k": "amp", "pre": n % 2, "t": 2 * (ci % 2), "cs": cs, "n": n}]
                        yield {"style": {"eq": 0, "glue": 0.0, "case": 0}, "feats": [], "phys": {"final_blank": True}, "blocks": blocks, "limit": 128, "seed": 0}


FIXED_PROB = {"title": "fixed problem of the exhaustive layout sub-space", "message": None}


# files off the layouts of DESIGN 5.3 that exercise the error paths and the named exclusions of the refinement
# theorem (correspondence only: the model must do what the code does, whatever MCNP would do)
EDGE_TEXTS = {
    "empty": "",
    "title only": "title",
    "message unterminated": "message: a\nb\nc\n",
    "message then eof": "message: a\nb\n\n",
    "message no blank after colon": "MESSAGE:x\n\nT\n1 0 -1\n",
    "over-long line": "T\n1 0 -1 " + "9" * 130 + "\n2 0 1\n\n",
    "exactly 128 columns": "T\n" + "1 0 " + "1" * 124 + "\n2 0 1\n",
    "exactly 127 columns": "T\n" + "1 0 " + "1" * 123 + "\n2 0 1\n",
    "& in column 128": "T\n" + "1 0 " + " " * 122 + " &" + "\n2 0 1\n",
    "vertical format": "T\n1 0 -1\n# 1 2\n3 0 1\n",
    "vertical format, indented": "T\n1 0 -1\n   # 1 2\n3 0 1\n",
    "# in column 5 of a cell": "T\n2 0 #1\n1 0 -1\n",
    "# in column 3 behind a word": "T\n1 0 -1 &\n1 #2\n",
    "# in column 6": "T\n1 0 -1\n     #2\n",
    "text behind the terminator": "T\n1 0 -1\n\n1 so 5\n\nmode n\n\nnps 7\n# x\nread file=a.i\n",
    "two blank lines end the deck early": "T\n1 0 -1\n\n\n\n1 so 5\n",
    "sub-file of the data block with a blank line": "T\n1 0 -1\n\n1 so 5\n\nread file=b.i\nnps 3\n",
    "# in a comment line": "T\nc # x\n1 0 -1\n",
    "CR only": "T\r1 0 -1\r\r1 so 5\r",
    "tabs in columns 1-8": "T\n1 0\t-1\n\timp:n=1\n    \tvol=1\n2 0 1\n",
    "bare read": "T\nread\n1 0 -1\n",
    "read with noecho": "T\nread file=a.i noecho\n",
    "VT line": "T\n1 0 -1\n\x0b\n2 0 1\n",
    "FS character": "T\n1 0 -1\n\x1c2 0 1\n",
    "bytes above 126": "T\n1 0 -1 $ caf\xe9\n\xa0\n2 0 1\n",
    "$-only line": "T\n1 0 -1\n$ only\n     imp:n=1\n",
    "& before $": "T\n1 0 -1 & $ c\nimp:n=1\n",
    "blank lines only": "T\n\n\n\n\nnps 1\n",
    "block of comments": "T\nc a\nc b\n\n1 so 1\n",
    "trailing comments, no final newline": "T\n1 0 -1\nc x\nc y",
    "c followed by a tab": "T\nc\tx\n1 0 -1\n",
    "c in column 6": "T\n1 0 -1\n     c 5\n",
    "read inside a comment": "T\nc read file=x\n1 0 -1\n",
    "read=file": "T\nread=file a\n",
    "mixed-case read card between comments": "T\nc hi\n  rEaD    FiLe  =  a.i  $ x\nc bye\n1 0 -1\n",
}


def unit_edges(chk, drv):
    cases = [{"main": "m.i", "files": {"m.i": t, "a.i": "5 0 1\n", "b.i": "ctme 5\n\nprint\nread file=a.i\n"}, "cwd": ".", "abs": False, "limit": lim}
             for t in EDGE_TEXTS.values() for lim in (128, 80)]
    names = [n + "/%d" % lim for n in EDGE_TEXTS for lim in (128, 80)]
    model = drv.batch([rl.model_case(c) for c in cases])
    chk.units["U-reader"]["edge_files"] = len(cases)
    for n, c, m in zip(names, cases, model or []):
        i = rl.impl_syntax(c)
        chk.note_case({"edge": n}, True)
        chk.traces_validated += 1
        chk.count("edge-outcome:" + str(i["err"]))
        if i != m and rl.impl_syntax(c) != m:
            chk.disagreements_checked += 1
            chk.broken_obligation("correspondence", "U-reader (edge files)", {"impl": i, "model": m}, {"edge": n, "text": c["files"]["m.i"], "limit": c["limit"]})


def comment_lines():
    """exhaustive small sub-space for the comment-line rule: indent 0-8 x heads x tails x line ends"""
    heads = ["c", "C", "cc", "c1", "x", "$", "#", "&", ""]
    tails = ["", " ", "  text", "\ttext", " &", "text", " $ x"]
    for ind in range(9):
        for h in heads:
            for t in tails:
                for eol in ("\n", ""):
                    yield " " * ind + h + t + eol


def unit_is_comment(chk, drv):
    """U-comment: utilities.is_comment == Model.isComment == the Spec's column rule, on every line of the sub-space.
    (read_data calls is_comment on the tab-expanded line; so does this unit.)"""
    from vlib import mp

    is_comment = mp.montepy.utilities.is_comment
    lines = [l.expandtabs(8) for l in comment_lines()]
    impl = [bool(is_comment(l)) for l in lines]
    model = drv.batch([{"op": "is_comment", "text": l} for l in lines])
    spec = drv.batch([{"op": "spec_is_comment", "text": l.rstrip("\n")} for l in lines])
    chk.units["U-comment"] = {"exhaustive_lines": len(lines)}
    for l, a, m, sp in zip(lines, impl, model or impl, spec or impl):
        chk.note_case({"is_comment": l}, True)
        chk.count("comment-line:" + str(a))
        if model is not None and a != m:
            chk.broken_obligation("correspondence", "U-comment (Model.isComment vs utilities.is_comment)", {"impl": a, "model": m}, {"line": l})
        if spec is not None and a != sp and bool(is_comment(l)) == a:
            col = len(l) - len(l.lstrip(" "))
            chk.violation(
                {"mechanism": "reader", "class": "comment-misread", "feature": "column-rule", "column": "beyond-5" if col >= 5 else "1-5"},
                f"is_comment({l!r}) = {a}, MCNP's rule (C in columns 1-5 followed by a blank or the line end) says {sp}",
                {"line": l, "impl": a, "spec": sp},
            )


def load_corpus():
    """corpus/C11/*.json: replay payloads of recorded findings and repaired defects"""
    import glob
    import json
    import os

    from vlib.core import VERIF

    out = []
    for f in sorted(glob.glob(os.path.join(VERIF, "corpus", "C11", "*.json"))):
        with open(f) as fh:
            out.append(json.load(fh)["case"])
    return out


# --------------------------------------------------------------------------- the check
def run(chk):
    k = chk.pick(4, 24)
    chk.rule = (
        f"a case is one logical problem (typed AST: 2-7 cells with unions/parentheses/complements, 2-7 surfaces of 21 types, materials, "
        f"transforms, mode, per-cell data in either block, data cards) rendered in {k} layouts drawn from the features of DESIGN 5.3 "
        "(1-12 blanks, tabs, 5-blank continuation, '&' continuation with trailing blanks followed by 0-3 C comment lines and a continuation indented by 0-8 blanks, '$' comments, C comment lines at any position, "
        "'=' / ' = ' / blank, letter case, 0-4 leading blanks, LF/CRLF, message block, final blank line, trailing blanks, blank lines "
        "holding blanks), plus the canonical layout. Non-trivial: the layout uses at least one non-default feature."
    )
    chk.assumptions = [
        "the lexer / LALR half of C11 (case-insensitivity, '=', padding anywhere) is validated on the real parser, not proved: SLY is not modelled",
        "tabs are applied only where expandtabs(8) reproduces the blank layout (never inside comment texts)",
        "CR-only line ends are not a layout of the MCNP format and are not generated",
        "lines are kept within the column limit; over-long lines are the subject of C10",
    ]
    chk.trusted_base = [
        "Lean 4.33.0 kernel",
        "Spec lean/MontePyVerif/Spec/TextLayout.lean as a reading of MCNP's card-format rules",
        "hand-written model lean/MontePyVerif/Model/Reader.lean, tied to the code by the U-reader correspondence of this run and Gen/Constants.lean",
        "harness tools/props/c11.py + tools/vlib/readerlib.py; its renderer is cross-checked against Spec.renderInputs on every case",
    ]
    leanio.prove(chk, "MontePyVerif.Props.C11", THEOREMS, "MontePyVerif.C11")
    if chk.thorough:
        leanio.leanchecker(chk, ["MontePyVerif.Props.C11"])
    drv = leanio.Driver(chk, "drv_c20")

    rng = chk.rng("layouts")
    nprob = chk.pick(150, 1500)
    jobs = []  # (problem index, problem, layout)
    probs = []
    # the corpus of minimised past failures runs first (negative problem indices)
    for ci, stored in enumerate(load_corpus()):
        jobs.append((-1 - ci, stored["problem"], stored["canonical_layout"]))
        jobs.append((-1 - ci, stored["problem"], stored["layout"]))
    ncorpus = len(jobs) // 2
    for i in range(nprob):
        limit = 128 if rng.random() < 0.8 else 80
        prob = rl.gen_problem(rng, rich=True)
        probs.append(prob)
        jobs.append((i, prob, gen_file_layout(rng, prob, limit, canonical=True)))
        for _ in range(k):
            jobs.append((i, prob, gen_file_layout(rng, prob, limit)))
    nrandom = len(jobs)
    exh = list(exhaustive_layouts())
    exh_amp = list(exhaustive_amp_layouts())
    exh += exh_amp
    fixed_idx = nprob
    base = copy.deepcopy(exh[0])
    for blk in base["blocks"]:
        for inp in blk:
            inp["gaps"] = []
    jobs.append((fixed_idx, FIXED_PROB, base))
    for lay in exh:
        jobs.append((fixed_idx, FIXED_PROB, lay))
    chk.units["U-reader"] = {"corpus": ncorpus, "problems": nprob, "layouts_per_problem": k + 1, "exhaustive_single_feature_layouts": len(exh) - len(exh_amp),
                             "exhaustive_amp_x_comments_x_indent_layouts": len(exh_amp)}
    chk.exhaustive = False

    obs = pmap(observe_layout, [(p, l) for _, p, l in jobs], workers=WORKERS, chunksize=4)
    texts = [o["text"] for o in obs]
    model = drv.batch([rl.model_case(case_of(t, l["limit"])) for t, (_, _, l) in zip(texts, jobs)])
    spec = drv.batch([{"op": "spec", "limit": l["limit"], "text": t} for t, (_, _, l) in zip(texts, jobs)])
    rendered = drv.batch([{"op": "render", "inputs": [inp for blk in l["blocks"] for inp in blk]} for _, _, l in jobs])

    unit_is_comment(chk, drv)
    unit_edges(chk, drv)

    ref, ref_lay = {}, {}
    for (pi, prob, lay), o in zip(jobs, obs):
        if pi not in ref:
            ref[pi] = o
            ref_lay[pi] = lay
    for idx, ((pi, prob, lay), o) in enumerate(zip(jobs, obs)):
        feats = features_of(lay)
        chk.note_case({"text": o["text"], "limit": lay["limit"]}, any(f != "phys:final_blank" for f in feats), sample_every=800)
        for f in feats:
            chk.count("feature:" + f)
        chk.count("limit:%d" % lay["limit"])
        chk.count("outcome:" + str(o["read"].get("err", "read")))
        # harness renderer vs Spec.renderInputs
        if rendered is not None:
            py = [l for blk in lay["blocks"] for inp in blk for l in rl.render_py(inp)]
            if rendered[idx] != py:
                chk.broken_obligation("correspondence", "Spec.renderInputs vs harness renderer", {"lean": rendered[idx], "py": py}, {"layout": lay})
        # the Spec reader inverts the layout (a sample of what C11_spec_layout proves) — on the very bytes MontePy reads
        if spec is not None:
            got = [[i["block"], i["words"]] for i in spec[idx]["inputs"]]
            if got != expected_inputs(lay):
                chk.broken_obligation("correspondence", "Spec.logicalInputs on a rendered file vs the words rendered", {"spec": got, "words": expected_inputs(lay)}, {"text": o["text"], "layout": lay})
        v = judge_layout(lay, o, ref[pi])
        if v is not None and v[0] == "generator":
            chk.count("generator-invalid")
            continue
        if v is not None:
            sig0, what = v
            if sum(1 for x in chk.violations if all(x["signature"].get(k) == val for k, val in sig0.items())) >= 3:
                chk.count("violations-not-minimised")
                continue

            def fails(cand, sig0=sig0, prob=prob, pi=pi):
                oo = observe_layout((prob, cand))
                w = judge_layout(cand, oo, ref[pi])
                return w is not None and w[0] == sig0

            if not fails(lay):  # confirm in the parent process
                chk.count("flaky:judge")
                continue
            small = shrink_layout(prob, lay, fails) if len(chk.violations) < 4 else lay
            oo = observe_layout((prob, small))
            sig = dict(sig0, feature=feature_key(sig0, small))
            chk.violation(sig, what, {"problem": prob, "layout": small, "text": oo["text"], "impl": {"syn": oo["syn"], "read_err": oo["read"].get("err"), "msg": oo["read"].get("msg")},
                                      "canonical_text": ref[pi]["text"], "canonical_layout": ref_lay[pi]})
            continue
        if model is not None:
            chk.traces_validated += 1
            if model[idx] != o["syn"]:
                case = case_of(o["text"], lay["limit"])
                if rl.impl_syntax(case) == drv.batch([rl.model_case(case)])[0]:
                    chk.count("flaky:correspondence")
                    continue
                chk.disagreements_checked += 1

                def differs(cand, prob=prob):
                    c = case_of(text_of(prob, cand), cand["limit"])
                    return rl.impl_syntax(c) != drv.batch([rl.model_case(c)])[0]

                small = shrink_layout(prob, lay, differs) if len(chk.broken) < 2 else lay
                c = case_of(text_of(prob, small), small["limit"])
                chk.broken_obligation("correspondence", "U-reader (Model/Reader.lean readAll vs input_syntax_reader.read_input_syntax)",
                                      {"impl": rl.impl_syntax(c), "model": drv.batch([rl.model_case(c)])[0]}, {"problem": prob, "layout": small, "text": c["files"]["layout.i"]})


def replay(chk, payload):
    chk.rule = "replay of one stored case"
    if payload.get("verdict") == "no-failing-input-found":
        stored = payload["no_longer_checks"][0]["case"]
    else:
        stored = payload.get("case", payload)
    drv = leanio.Driver(chk, "drv_c20")
    if "line" in stored:
        from vlib import mp

        l = stored["line"]
        a = bool(mp.montepy.utilities.is_comment(l))
        sp = drv.batch([{"op": "spec_is_comment", "text": l.rstrip("\n")}])[0] if drv.ok else stored.get("spec")
        chk.note_case({"is_comment": l})
        if a != sp:
            col = len(l) - len(l.lstrip(" "))
            chk.violation({"mechanism": "reader", "class": "comment-misread", "feature": "column-rule", "column": "beyond-5" if col >= 5 else "1-5"},
                          f"is_comment({l!r}) = {a}, MCNP's rule says {sp}", {"line": l, "impl": a, "spec": sp})
        chk.add_obligation("replay", True)
        return
    prob, lay = stored["problem"], stored["layout"]
    canonical = stored.get("canonical_layout")
    if canonical is None:
        canonical = copy.deepcopy(lay)
        canonical["phys"] = {"final_blank": True}
        canonical["blocks"] = [[plain_input(i) for i in blk] for blk in lay["blocks"]]
    ref = observe_layout((prob, canonical))
    o = observe_layout((prob, lay))
    chk.note_case({"text": o["text"]})
    v = judge_layout(lay, o, ref)
    if v is not None and v[0] != "generator":
        chk.violation(dict(v[0], feature=feature_key(v[0], lay)), v[1], {"problem": prob, "layout": lay, "text": o["text"]})
    elif drv.ok:
        c = case_of(o["text"], lay["limit"])
        m = drv.batch([rl.model_case(c)])[0]
        if m != o["syn"]:
            chk.broken_obligation("correspondence", "U-reader", {"impl": o["syn"], "model": m}, stored)
    chk.add_obligation("replay", True)
