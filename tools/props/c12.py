"""C12 — every input in the documented core grammar (DESIGN.md 5.2) is accepted.

prove       : lean/MontePyVerif/Props/C12.lean (pinned tables ⊆ extracted tables; context-free derivability of G's
              card families for ANY grammar containing the required productions, instantiated with the extracted
              SLY productions; dispatch / arity / lexer re-classification theorems over Model/Dispatch.lean)
correspond  : U-lexclass  Spec.Card.*.classes of a laid-out sentence  vs  the real lexer's token types
              U-dispatch  Model/Dispatch.lean  vs  Cell._parse_keyword_modifiers / parse_data / surface_builder
              U-lexword   Model *.TEXT re-classification  vs  the real lexers on single words
judge       : the property itself on the REAL code: Cell(Input) / surface_builder(Input) / parse_data(Input) /
              montepy.read_input return without exception on sentences of G, and what was read is what the
              generator intended (numbers, material, density, geometry as a Boolean function, surface type and
              constants after shortcut expansion, data values)
"""

import json
import math
import os
import random
import shutil
import signal
import tempfile
from fractions import Fraction

from vlib import g12, leanio
from vlib.core import canon, VERIF, MachineryError
from vlib.par import pmap

META = {
    "property_id": "C12",
    "technique": "Lean 4 proof: pinned-table inclusion and context-free derivability of the core grammar from the "
    "extracted SLY productions (general over grammars, induction on G's derivations), dispatch/arity theorems on a "
    "hand-written model; a model of the SLY lexers (generic re engine, rules translated from the working tree, "
    "action functions: losslessness, progress, totality by induction) and of SLY's LALR driver over the extracted "
    "action/goto tables (accepted => derivable, right-most derivation, completeness on flat geometry); differential "
    "correspondence (cards, token streams, reduction traces) and acceptance oracle on the real parser",
    "design_ref": "6 C12",
}

THEOREMS = [
    "C12_pinned",
    "C12_cfg",
    "C12_cfg_geometry",
    "C12_required_productions",
    "C12_cfg_montepy",
    "C12_cfg_extended",
    "C12_required_productions_extended",
    "C12_cfg_extended_montepy",
    "prefixes_nodup",
    "C12_dispatch_cell_exact",
    "C12_dispatch_data_exact",
    "C12_dispatch",
    "C12_param_keys",
    "C12_arity",
    "C12_lexclass",
    "C12_lexclass_particles",
    "C12_expects_particle",
    "C12_lexclass_particles_elsewhere",
    "C12_lexnum_patterns",
    "C12_lexnum_real",
    "C12_lexnum_counted",
    "C12_lexnum_multiply",
    "C12_lexnum_countless",
]

MODES = ["single", "wrapped", "mixed"]
TABLES = None  # the pinned terminal sets, asked from the Lean Spec at start-up
GUARD_S = 60.0

SPECIAL_DATA = {"m", "mt", "tr", "mode", "imp", "vol", "u", "lat", "fill", "f", "fm", "fs", "sdef", "fc", "sc"}
BORING = ("Mat:", "Atom:surf", "Entry:real", "Real:")
BORING_EXACT = {"Cell", "Inter", "Union"}


# --------------------------------------------------------------------------------------------- implementation side
class _Hang(Exception):
    pass


def _alarm(*a):
    raise _Hang()


def _mp():
    from vlib import mp

    return mp


def _f(x):
    """canonical float for comparison / JSON"""
    if x is None:
        return None
    return float(x)


def _geom_table(spec_geom, hs):
    """(expected bits, observed bits) of the geometry as a Boolean function of its leaves, on 48 assignments"""
    mp = _mp()
    from montepy.surfaces.half_space import UnitHalfSpace
    from montepy.geometry_operators import Operator

    leaves = []

    def collect(g, in_c=False):
        if g[0] == "s":
            leaves.append(("c" if in_c else "s", abs(int(g[1]))))
        elif g[0] == "p":
            collect(g[1])
        elif g[0] == "c":
            collect(g[1], in_c=(g[1][0] == "s"))
        else:
            collect(g[1])
            collect(g[2])

    collect(spec_geom)
    keys = sorted(set(leaves))
    rng = random.Random(len(keys) * 7919 + 13)
    envs = [{k: rng.random() < 0.5 for k in keys} for _ in range(48)]

    def ev_spec(g, env, in_c=False):
        if g[0] == "s":
            if in_c:
                return env[("c", abs(int(g[1])))]
            v = env[("s", abs(int(g[1])))]
            return (not v) if g[1].startswith("-") else v
        if g[0] == "p":
            return ev_spec(g[1], env)
        if g[0] == "c":
            return not ev_spec(g[1], env, in_c=(g[1][0] == "s"))
        if g[0] == "i":
            return ev_spec(g[1], env) and ev_spec(g[2], env)
        return ev_spec(g[1], env) or ev_spec(g[2], env)

    def ev_hs(h, env):
        if isinstance(h, UnitHalfSpace):
            d = h.divider
            n = d if isinstance(d, int) else d.number
            v = env.get(("c" if h.is_cell else "s", n))
            if v is None:
                raise KeyError(("leaf", h.is_cell, n))
            return v if h.side else not v
        op = h.operator
        if op == Operator.COMPLEMENT:
            return not ev_hs(h.left, env)
        if op == Operator.INTERSECTION:
            return ev_hs(h.left, env) and ev_hs(h.right, env)
        if op == Operator.UNION:
            return ev_hs(h.left, env) or ev_hs(h.right, env)
        return ev_hs(h.left, env)

    exp = "".join("1" if ev_spec(spec_geom, e) else "0" for e in envs)
    try:
        obs = "".join("1" if ev_hs(hs, e) else "0" for e in envs)
    except KeyError as e:
        obs = "unknown-leaf:" + str(e)
    return exp, obs


def _vals(nodes):
    from montepy.input_parser.mcnp_input import Jump

    out = []
    for n in nodes:
        v = getattr(n, "value", n)
        if isinstance(v, Jump) or v is None:
            out.append(None)
        elif isinstance(v, (int, float)):
            out.append(float(v))
        else:
            out.append(str(v))
    return out


def _num(x):
    try:
        return float(x)
    except (TypeError, ValueError):
        return str(x)


def _close(a, b):
    if a is None or b is None:
        return a is None and b is None
    if isinstance(a, str) or isinstance(b, str):
        return False
    a, b = float(a), float(b)
    return a == b or abs(a - b) <= 1e-9 * max(abs(a), abs(b))


def _same_list(exp, obs):
    return len(exp) == len(obs) and all(_close(a, b) for a, b in zip(exp, obs))


def check_cell(spec, c):
    """first field whose reading differs from the intention, or None"""
    from montepy.particle import Particle

    if c.number != int(spec["num"]):
        return "cell-number"
    if spec["mat"] is None:
        if c.old_mat_number != 0:
            return "material"
    else:
        d = g12.parse_real(spec["mat"][1])
        if c.old_mat_number != int(spec["mat"][0]):
            return "material"
        if not _close(c._density_node.value, abs(d)) or c._is_atom_dens != (d > 0):
            return "density"
    exp, obs = _geom_table(spec["geom"], c.geometry)
    if exp != obs:
        return "geometry"
    nodes = c.parameters.nodes
    for p in spec["params"]:
        key = (p["key"] + (str(int(p["idx"])) if p.get("idx") else "") + ((":" + ",".join(p["pl"])) if p.get("pl") else "")).lower()
        if key not in nodes:
            return "param-missing:" + p["key"]
        v = p["val"]
        if p.get("idx") and (nodes[key]["classifier"].number is None or nodes[key]["classifier"].number.value != int(p["idx"])):
            return "param-index:" + p["key"]
        if v[0] == "nums":
            exp_v = [_f(x) for x in g12.entries_values(v[1])]
            k = p["key"]
            if k == "imp":
                for part in p["pl"]:
                    if not _close(c.importance[Particle(part.upper())], exp_v[0]):
                        return "param-value:imp"
            elif k == "vol":
                if not _close(c.volume, exp_v[0]):
                    return "param-value:vol"
            elif k == "u":
                if c.old_universe_number != abs(int(exp_v[0])) or c._universe._not_truncated != (exp_v[0] < 0):
                    return "param-value:u"
            elif k == "lat":
                if c.lattice is None or c.lattice.value != int(exp_v[0]):
                    return "param-value:lat"
            elif k == "fill":
                if c.fill.old_universe_number != int(exp_v[0]):
                    return "param-value:fill"
            else:
                got = [x for x in _vals(nodes[key]["data"]) if not isinstance(x, str)]
                if not _same_list(exp_v, got):
                    return "param-value:" + k
        elif v[0] == "numsParen":
            if c.fill.old_universe_number != int(g12.parse_real(v[1][0][1])):
                return "param-value:fill"
            inner = [_f(x) for x in g12.entries_values(v[2])]
            if len(inner) == 1:
                if c.fill.old_transform_number != int(inner[0]):
                    return "param-value:fill-transform"
            else:
                t = c.fill.transform
                got = [_num(x) for x in t.displacement_vector] + [_num(x) for x in t.rotation_matrix.flatten()]
                if not _same_list(inner[: len(got)], got) or len(got) < min(len(inner), 12):
                    return "param-value:fill-transform"
                if bool(p.get("star")) != bool(t.is_in_degrees):
                    return "param-value:fill-degrees"
        elif v[0] == "paren":
            inner = [_f(x) for x in g12.entries_values(v[1])]
            got = [x for x in _vals(nodes[key]["data"]) if not isinstance(x, str)]
            if not _same_list(inner, got):
                return "param-value:trcl"
        elif v[0] == "lattice":
            us = sorted(int(g12.parse_real(e[1])) for e in v[2])
            got = sorted(int(x) for x in c.fill.old_universe_numbers.flatten())
            if us != got:
                return "param-value:fill-lattice"
            lo = [int(a) for a, _ in v[1]]
            hi = [int(b) for _, b in v[1]]
            if [int(x) for x in c.fill.min_index] != lo or [int(x) for x in c.fill.max_index] != hi:
                return "param-value:fill-ranges"
    return None


def check_surface(spec, s):
    if s.number != int(spec["num"]):
        return "surface-number"
    if str(s.surface_type.value) != spec["mn"].upper():
        return "surface-type"
    if s.is_reflecting != (spec["mod"] == "*") or s.is_white_boundary != (spec["mod"] == "+"):
        return "surface-modifier"
    ptr = spec["ptr"]
    if (s.old_transform_number or None) != (int(ptr) if ptr and not ptr.startswith("-") else None):
        return "surface-transform"
    if (s.old_periodic_surface or None) != (abs(int(ptr)) if ptr and ptr.startswith("-") else None):
        return "surface-periodic"
    exp = [_f(x) for x in g12.entries_values(spec["entries"])]
    if not _same_list(exp, [_num(x) for x in s.surface_constants]):
        return "surface-constants"
    return None


def check_data(spec, d):
    from montepy.particle import Particle

    name = spec["name"]
    b = spec["body"]
    if b[0] == "text":
        return None  # FC / SC: the whole line is one comment token; acceptance is all G asks
    if d.prefix != name:
        return "data-prefix"
    cl = d.classifier
    num = cl.number.value if cl.number is not None else None
    if num != (int(spec["num"]) if spec.get("num") else None):
        return "data-number"
    if b[0] != "mode":  # Mode reuses the attribute behind particle_classifiers for its own particle set
        parts = sorted(p.value.lower() for p in (d.particle_classifiers or []))
        if parts != sorted(spec.get("pl") or []):
            return "data-particles"
    if bool(cl.modifier is not None and cl.modifier.value == "*") != bool(spec.get("star")):
        return "data-modifier"
    if b[0] == "material":
        comps = [(str(c.isotope.mcnp_str()), float(c.fraction)) for c in d.material_components.values()] if hasattr(d, "material_components") else None
        exp = []
        for z, f in b[1]:
            exp.append((z, abs(float(g12.parse_real(f)))))
        got = sorted((z.lower().rstrip("."), f) for z, f in comps)
        exp = sorted((z.lower(), f) for z, f in exp)
        if len(got) != len(exp) or any(a[0] != e[0] or not _close(a[1], e[1]) for a, e in zip(got, exp)):
            return "material-components"
        if d.is_atom_fraction != (not b[1][0][1].startswith("-")):
            return "material-fraction-kind"
        params = d._tree["parameters"].nodes if "parameters" in d._tree.nodes else {}
        for key, val in b[2]:
            if key not in params:
                return "material-param-missing:" + key
            node = params[key]["data"]
            if val[0] == "lib":
                got = node.value if hasattr(node, "value") else None
                if not isinstance(got, str) or got.lower() != val[1].lower():
                    return "material-param-value:" + key
            else:
                if not _same_list([_f(x) for x in g12.entries_values(val[1])], _vals(node)):
                    return "material-param-value:" + key
    elif b[0] == "thermal":
        if [x.lower() for x in d.thermal_scattering_laws] != [x.lower() for x in b[1]]:
            return "thermal-laws"
    elif b[0] == "mode":
        if sorted(p.value.lower() for p in d.particles) != sorted(b[1]):
            return "mode-particles"
    elif b[0] == "numbers":
        exp = [_f(x) for x in g12.entries_values(b[2])]
        if name == "tr":
            got = [_num(x) for x in d.displacement_vector] + [_num(x) for x in d.rotation_matrix]
            want = exp[: min(12, len(exp))]
            # a jumped entry keeps MCNP's default: its position is not compared
            if len(got) != len(want) or any(w is not None and not _close(w, g) for w, g in zip(want, got)):
                return "transform-values"
            if len(exp) == 13 and exp[12] is not None and d.is_main_to_aux != (exp[12] > 0):
                return "transform-direction"
            if d.is_in_degrees != bool(spec.get("star")):
                return "transform-degrees"
        else:
            tree = d._tree
            if "data" not in tree.nodes:
                return None  # parsed by the tally parsers into another tree shape: acceptance only
            if b[1] and (tree["keyword"].value or "").lower() != b[1]:
                return "data-keyword"
            got = _vals(tree["data"])
            if name == "lat":
                got = [float(x.value) if hasattr(x, "value") else x for x in [n.value for n in tree["data"]]]
                got = [None if not isinstance(x, (int, float)) else float(x) for x in got]
            if not _same_list(exp, got):
                return "data-values"
    return None


def run_card(item):
    """Execute one laid-out sentence on the real code."""
    mp = _mp()
    spec, mode, seed = item["spec"], item["mode"], item["seed"]
    b = g12.build(spec, TABLES)
    text = g12.layout(b, mode, seed)
    lines = text.split("\n")
    res = {"text": text}
    kind = spec["kind"]
    from montepy.input_parser import tokens as T

    lexer = {"cell": T.CellLexer, "surface": T.SurfaceLexer, "data": T.DataLexer}[kind]
    old = signal.signal(signal.SIGALRM, _alarm)
    signal.setitimer(signal.ITIMER_REAL, GUARD_S)
    try:
        try:
            res["tokens"] = [t.type for t in lexer().tokenize(text)]
        except Exception as e:  # noqa: BLE001
            res["tokens"] = "lex:" + type(e).__name__
        o = None
        try:
            o = {"cell": mp.cell_from, "surface": mp.surface_from, "data": mp.data_from}[kind](lines)
            res["ok"] = True
        except _Hang:
            res["ok"] = False
            res["exc"] = "hang"
        except Exception as e:  # noqa: BLE001
            res["ok"] = False
            res["exc"] = type(e).__name__
        if o is not None:
            # a crash of the comparison itself is a machinery error, never a verdict
            try:
                if kind == "cell":
                    res["mis"] = check_cell(spec, o)
                    res["disp"] = {
                        "set": sorted(attr for cls, (attr, _) in type(o)._INPUTS_TO_PROPERTY.items() if getattr(o, attr).set_in_cell_block),
                        "keys": list(o._tree["parameters"].nodes.keys()),
                    }
                elif kind == "surface":
                    res["mis"] = check_surface(spec, o)
                    res["disp"] = {"class": type(o).__name__}
                else:
                    res["mis"] = check_data(spec, o)
                    res["disp"] = {"class": type(o).__name__, "parser": type(o._parser).__name__}
            except _Hang:
                res["check_error"] = "hang"
            except Exception as e:  # noqa: BLE001
                import traceback

                res["check_error"] = traceback.format_exc()[-600:]
    finally:
        signal.setitimer(signal.ITIMER_REAL, 0)
        signal.signal(signal.SIGALRM, old)
    return res


def verdict_of(res):
    """(class, detail) of an oracle failure, or None"""
    if not res.get("ok"):
        return ("rejected", res.get("exc"))
    if res.get("mis"):
        return ("misread", res["mis"])
    return None


# --------------------------------------------------------------------------------------------- signatures and shrinking
def rule_tag(spec):
    tags = []
    for t in g12.rules_of(spec):
        if t.startswith("Surface:") and not t.startswith(("Surface:mod", "Surface:periodic", "Surface:transform")):
            continue
        if t.startswith("Data:") and not t.startswith("Data:keyword") and not t.startswith("Data:option"):
            n = t[5:].lstrip("*")
            t = "Data:" + (n if n in SPECIAL_DATA else "generic")
        if t in BORING_EXACT or (t.startswith(BORING) and not t.startswith("Real:zero")):
            continue
        if t.startswith(("Zaid:lib", "Material:", "Law", "Mode:particle", "TallyBins:number", "FS:list")) and not t.endswith("keyword-letter"):
            continue
        if t not in tags:
            tags.append(t)
    kind = spec["kind"]
    return "+".join(sorted(tags)) if tags else {"cell": "Cell", "surface": "Surface:" + spec.get("mn", ""), "data": "Data"}[kind]


# (cause name, predicate over the rule tags of a shrunk sentence): families with a recorded finding.  Empty since
# round 3: every finding of rounds 1-2 is repaired; a new recorded finding gets its entry here.
CAUSES = []


def cause_of(spec):
    """the G rule a (shrunk) failing sentence is attributed to: the first listed cause its rule tags contain,
    else all its non-boring tags"""
    tags = set(g12.rules_of(spec))
    tags |= {("Data:" + t[5:].lstrip("*")) for t in tags if t.startswith("Data:")}
    for name, pred in CAUSES:
        if pred(tags):
            return name
    return rule_tag(spec)


def shrink(item, want):
    """greedy AST shrinking: keep a candidate while it fails with the same (class, detail)"""
    cur = dict(item)
    # canonical layout first
    for mode, seed in (("single", 0),):
        cand = dict(cur, mode=mode, seed=seed)
        if verdict_of(run_card(cand)) == want:
            cur = cand
    for _ in range(60):
        progressed = False
        for s2 in g12.shrink_candidates(cur["spec"]):
            cand = dict(cur, spec=s2)
            try:
                v = verdict_of(run_card(cand))
            except Exception:  # noqa: BLE001  a candidate outside the builder's domain
                continue
            if v == want:
                cur = cand
                progressed = True
                break
        if not progressed:
            break
    return cur


def _shrink_job(job):
    return shrink(job["item"], tuple(job["want"]))


def _shrink_file_job(job):
    return shrink_file(job["item"], tuple(job["want"]))


def signature(item, want):
    sig = {"mechanism": "grammar", "class": want[0], "rule": cause_of(item["spec"]), "exception": str(want[1])}
    if item["mode"] != "single":
        sig["layout"] = "not-single-line"
    return sig


# --------------------------------------------------------------------------------------------- whole files
def gen_file(rng, tables):
    """A well-formed problem (5.2 constraints): list of card specs per block + title/message flags."""
    P = list(tables["particles"])
    mode = rng.sample(P, rng.choice([1, 1, 2, 3]))
    ns = rng.randint(3, 9)
    snums = rng.sample(range(1, 200), ns)
    trs = rng.sample(range(1, 50), 3)
    mats = rng.sample(range(1, 50), 3)
    univ = rng.sample(range(1, 20), 2)
    ctx = {"particles": mode, "universes": univ, "transforms": trs, "surfs": snums, "cells": [], "materials": mats, "periodic": snums}
    known = {c for c, _ in CAUSES}

    def clean(make):
        for _ in range(40):
            sp = make()
            if cause_of(sp) not in known:
                return sp
        return sp

    surfaces = [clean(lambda n=n: g12.gen_surface(rng, tables, ctx, num=n)) for n in snums]
    for s in surfaces:
        if s["ptr"] and s["ptr"].startswith("-") and s["ptr"][1:] == s["num"]:
            s["ptr"] = None
    nc = rng.randint(2, 8)
    cnums = rng.sample(range(1, 300), nc)
    imp_in_cells = rng.random() < 0.6
    cells = []
    used_u = set()
    for i, n in enumerate(cnums):
        ctx["cells"] = cnums[:i]
        c = clean(lambda n=n: g12.gen_cell(rng, tables, ctx, num=n))
        ps = [p for p in c["params"] if p["key"] not in ("imp",) and not (p.get("idx") and any(q is not p and q["key"] == p["key"] for q in c["params"]))]
        seen = set()
        ps2 = []
        for p in ps:
            if p["key"] in seen:
                continue
            seen.add(p["key"])
            for q in p.get("pl") or []:
                pass
            if p.get("pl"):
                p = dict(p, pl=[rng.choice(mode)])
            ps2.append(p)
        if imp_in_cells:
            groups = [mode] if rng.random() < 0.5 else [[m] for m in mode]
            for gp in groups:
                ps2.insert(rng.randrange(len(ps2) + 1), {"key": "imp", "pl": list(gp), "val": ["nums", [["real", rng.choice(["1", "0", "2.5", "1.0"])]]]})
        c["params"] = ps2
        for p in ps2:
            if p["key"] == "u":
                used_u.add(abs(int(p["val"][1][0][1])))
        cells.append(c)
    # every universe a FILL refers to must exist
    need = set()
    for c in cells:
        for p in c["params"]:
            if p["key"] == "fill":
                v = p["val"]
                if v[0] == "lattice":
                    need |= {int(e[1]) for e in v[2]}
                else:
                    need.add(int(v[1][0][1]))
    for u in sorted(need - used_u):
        cand = [c for c in cells if not any(p["key"] in ("u", "fill", "lat") for p in c["params"])]
        if cand:
            rng.choice(cand)["params"].append({"key": "u", "val": ["nums", [["real", str(u)]]]})
        else:
            n = max(cnums) + 1 + u
            cnums.append(n)
            cells.append({"kind": "cell", "num": str(n), "mat": None, "geom": ["s", "-" + str(snums[0])], "params": [{"key": "u", "val": ["nums", [["real", str(u)]]]}] + ([{"key": "imp", "pl": list(mode), "val": ["nums", [["real", "1"]]]}] if imp_in_cells else [])})
    data = [{"kind": "data", "name": "mode", "body": ["mode", mode]}]
    for m in mats:
        data.append(clean(lambda m=m: g12.gen_material(rng, tables, num=m)))
    if rng.random() < 0.5:
        data.append({"kind": "data", "name": "mt", "num": str(mats[0]), "body": ["thermal", rng.sample(g12.LAWS, 1)]})
    for t in trs:
        n = rng.choice([3, 9, 12])
        data.append({"kind": "data", "star": rng.random() < 0.3, "name": "tr", "num": str(t), "body": ["numbers", None, [["real", g12.gen_real(rng, small=True)] for _ in range(n)]]})
    if not imp_in_cells:
        for m in mode:
            data.append({"kind": "data", "name": "imp", "pl": [m], "body": ["numbers", None, [["real", rng.choice(["1", "0", "2"])] for _ in cells]]})
    seen = set()
    for _ in range(rng.randint(0, 5)):
        d = clean(lambda: g12.gen_data(rng, tables, which=rng.choice(["f", "f5", "tallyaux", "fc", "sdef", "sisp", "sc", "ksrc", "kcode", "generic"])))
        key = (d["name"], d.get("num"), tuple(d.get("pl") or []))
        if key in seen or d["name"] in ("tmp", "pd", "wwn", "dxc", "ext", "fcl", "elpt", "pwt", "nonu"):
            continue
        seen.add(key)
        if d["body"][0] == "sdef" and not d["body"][1]:
            continue
        if d.get("pl"):
            d["pl"] = [rng.choice(mode)]
        if cause_of(d) in known:
            continue
        data.append(d)
    return {"message": rng.random() < 0.3, "title": rng.choice(["a title", "C12 generated problem", "1 0 -1 imp:n=1"]), "cells": cells, "surfaces": surfaces, "data": data, "crlf": rng.random() < 0.2, "final_blank": rng.random() < 0.5}


def _tame(es):
    """entries without the shortcut form covered by the card-level known findings F4/F5 (a whole file would only
    repeat them): multiply is spelled out"""
    out = []
    for e in es:
        if e[0] == "mul":
            out += [["real", g12._spell(v)] for v in g12.entry_values(e)]
        else:
            out.append(e)
    return out


def file_text(fspec, mode, seed):
    rng = random.Random(seed)
    lines = []
    if fspec["message"]:
        lines += ["MESSAGE: datapath=/tmp", ""]
    lines.append(fspec["title"])
    for bi, block in enumerate(("cells", "surfaces", "data")):
        for ci, spec in enumerate(fspec[block]):
            if rng.random() < 0.2 and mode != "single":
                lines.append(rng.choice(["c", "C"]) + " " + rng.choice(g12.COMMENTS))
            b = g12.build(spec, TABLES)
            text = g12.layout(b, mode, rng.randrange(1 << 30))
            lines += text.split("\n")
        if bi < 2:
            lines.append("")
    if fspec["final_blank"]:
        lines.append("")
    nl = "\r\n" if fspec["crlf"] else "\n"
    return nl.join(lines) + nl


def run_file(item):
    mp = _mp()
    fspec, mode, seed = item["file"], item["mode"], item["seed"]
    text = file_text(fspec, mode, seed)
    res = {"text": text}
    if any(len(l.rstrip("\r")) > 80 for l in text.split("\n")):
        res["skipped"] = "line longer than 80 columns"
        return res
    d = tempfile.mkdtemp(prefix="verif-c12-")
    old = signal.signal(signal.SIGALRM, _alarm)
    signal.setitimer(signal.ITIMER_REAL, GUARD_S)
    try:
        path = os.path.join(d, "in.imcnp")
        with open(path, "w", newline="") as fh:
            fh.write(text)
        try:
            prob = mp.montepy.read_input(path)
            res["ok"] = True
            mis = None
            if sorted(c.number for c in prob.cells) != sorted(int(c["num"]) for c in fspec["cells"]):
                mis = "file-cells"
            elif sorted(s.number for s in prob.surfaces) != sorted(int(s["num"]) for s in fspec["surfaces"]):
                mis = "file-surfaces"
            elif sorted(m.number for m in prob.materials) != sorted(int(d["num"]) for d in fspec["data"] if d["name"] == "m"):
                mis = "file-materials"
            else:
                for spec in fspec["cells"]:
                    mis = mis or check_cell(spec, prob.cells[int(spec["num"])])
                for spec in fspec["surfaces"]:
                    mis = mis or check_surface(spec, prob.surfaces[int(spec["num"])])
                for spec in fspec["data"]:
                    if spec["name"] == "m":
                        mis = mis or check_data(spec, prob.materials[int(spec["num"])])
                    elif spec["name"] == "mode":
                        if sorted(p.value.lower() for p in prob.mode.particles) != sorted(spec["body"][1]):
                            mis = mis or "mode-particles"
            res["mis"] = mis
        except _Hang:
            res["ok"] = False
            res["exc"] = "hang"
        except Exception as e:  # noqa: BLE001
            res["ok"] = False
            res["exc"] = type(e).__name__
    finally:
        signal.setitimer(signal.ITIMER_REAL, 0)
        signal.signal(signal.SIGALRM, old)
        shutil.rmtree(d, ignore_errors=True)
    return res


def shrink_file(item, want):
    cur = dict(item)
    for _ in range(80):
        progressed = False
        f = cur["file"]
        cands = []
        # only removals that keep the file well-formed: data cards nothing refers to, parameters other than
        # U / FILL / LAT / IMP, and simplifications inside data cards
        for i, d in enumerate(f["data"]):
            if d["name"] not in ("mode", "m", "tr", "imp"):
                cands.append(dict(f, data=f["data"][:i] + f["data"][i + 1 :]))
        for i, c in enumerate(f["cells"]):
            for j, p in enumerate(c["params"]):
                if p["key"] not in ("u", "fill", "lat", "imp"):
                    c2 = dict(c, params=c["params"][:j] + c["params"][j + 1 :])
                    cands.append(dict(f, cells=f["cells"][:i] + [c2] + f["cells"][i + 1 :]))
        for i, spec in enumerate(f["data"]):
            if spec["name"] in ("mode", "tr", "imp"):
                continue
            for s2 in g12.shrink_candidates(spec)[:12]:
                if s2.get("num") != spec.get("num") or s2.get("pl") != spec.get("pl"):
                    continue
                cands.append(dict(f, data=f["data"][:i] + [s2] + f["data"][i + 1 :]))
        for f2 in cands:
            cand = dict(cur, file=f2)
            try:
                v = verdict_of(run_file(cand))
            except Exception:  # noqa: BLE001
                continue
            if v == want:
                cur = cand
                progressed = True
                break
        if not progressed:
            break
    return cur


# --------------------------------------------------------------------------------------------- single words, probes
CTX_TEXT = {"plain": "{w}", "colon": "imp:{w}", "comma": "imp:n,{w}", "mode": "mode {w}", "par": "sdef par={w}", "spar": "sdef spar={w}"}


def run_word(item):
    """token type the real lexer gives the word in its context (the word is the last token of the text)"""
    _mp()  # MontePy from the tree under verification (VERIF_REPO), never an installed or default one
    from montepy.input_parser import tokens as T

    lexer = {"particle": T.DataLexer, "cell": T.CellLexer, "surface": T.SurfaceLexer}[item["lexer"]]
    text = CTX_TEXT[item.get("ctx", "plain")].format(w=item["word"])
    try:
        toks = [t for t in lexer().tokenize(text)]
    except Exception as e:  # noqa: BLE001
        return "lex:" + type(e).__name__
    if item.get("ctx", "plain") == "plain":
        return toks[0].type if len(toks) == 1 else "multi:" + ",".join(t.type for t in toks)
    last = toks[-1]
    return last.type if last.value == item["word"] else "multi:" + ",".join(t.type for t in toks)


LEXNUM_PREFIX = {"data": "sd4 ", "nuclides": "m1 ", "surface": "1 px ", "cell": "1 0 -1 vol="}
LEXNUM_OUTSIDE = {"TEXT", "KEYWORD", "PARTICLE", "SURFACE_TYPE", "REPEAT", "MULTIPLY", "JUMP", "INTERPOLATE", "LOG_INTERPOLATE", "+", "-", "PARTICLE_SPECIAL", "FILE_PATH"}


def run_lexnum(item):
    """[token type, token length] the real lexer produces AT the numeric word (a blank follows it), or
    ["ValueError", None] when the NUMBER function cannot read it"""
    _mp()
    from montepy.input_parser import tokens as T

    ctx = item["ctx"]
    lexer = {"data": T.DataLexer, "nuclides": T.DataLexer, "surface": T.SurfaceLexer, "cell": T.CellLexer}[ctx]
    pre = LEXNUM_PREFIX[ctx]
    try:
        for t in lexer().tokenize(pre + item["word"] + " "):
            if t.index == len(pre):
                return [t.type, len(t.value)]
            if t.index > len(pre):
                return ["straddle", 0]
    except ValueError:
        return ["ValueError", None]
    except Exception as e:  # noqa: BLE001
        return ["lex:" + type(e).__name__, None]
    return None


def lexnum_words(chk, rng):
    """numeric words for U-lexnum: every word over a small alphabet up to a length (enumerated), every ZAID-shaped
    word of a suffix table (enumerated), and generated spellings of G's Real and shortcut rules"""
    import itertools

    words = set()
    for n in range(1, chk.pick(4, 5) + 1):
        for tup in itertools.product("10.-eEmr", repeat=n):
            if tup[0] in "10.-":
                words.add("".join(tup))
    for dn in range(3, 8):
        for fn in range(0, 5):
            for suf in ["", "m", "c", "e1", "e", "em", "nc", "mm", "e+1", "-1", "m1", "E-3", "M", "e-", "70c", "r"]:
                words.add("1" * dn + "." + "2" * fn + suf)
                words.add("+" + "1" * dn + "." + "2" * fn + suf)
    nenum = len(words)
    for _ in range(chk.pick(600, 20000)):
        x = g12.gen_real(rng)
        words.add(x)
        r = rng.random()
        if r < 0.3:
            words.add(x + rng.choice("mM"))
        elif r < 0.5:
            words.add(str(rng.randint(1, 999)) + rng.choice(["r", "R", "i", "I", "j", "J", "ilog", "ILOG", "iLog"]))
        elif r < 0.6:
            words.add(f"{rng.randint(1000, 999999)}.{rng.randint(0, 999):0{rng.choice([2, 3])}d}" + rng.choice(["", "m", "c", "e0", "E-3", "nc", "e"]))
    return sorted(words), nenum


def run_probe(item):
    """surface with an arbitrary constant count (not necessarily in G): class or exception of surface_builder"""
    mp = _mp()
    try:
        o = mp.surface_from([f"1 {item['mnemonic']} " + " ".join(str(i + 1) for i in range(item["n"]))])
        return {"ok": type(o).__name__}
    except Exception as e:  # noqa: BLE001
        return {"err": type(e).__name__}


def run_name_probe(item):
    """a data card with an arbitrary classifier shape: class, parser or exception"""
    mp = _mp()
    word = item["prefix"] + (str(item["number"]) if item["number"] is not None else "") + (":n" if item["particles"] else "")
    try:
        o = mp.data_from([word + " 1 1 1"])
        return {"class": type(o).__name__, "parser": type(o._parser).__name__, "name_err": None}
    except Exception as e:  # noqa: BLE001
        return {"exc": type(e).__name__}


# --------------------------------------------------------------------------------------------- the check
CORPUS_DIR = os.path.join(VERIF, "corpus", "C12")


def load_corpus():
    items = []
    if os.path.isdir(CORPUS_DIR):
        for f in sorted(os.listdir(CORPUS_DIR)):
            if f.endswith(".json"):
                with open(os.path.join(CORPUS_DIR, f)) as fh:
                    d = json.load(fh)
                for it in d.get("items", [d.get("case")] if d.get("case") else []):
                    if it and "spec" in it:
                        items.append({"spec": it["spec"], "mode": it.get("mode", "single"), "seed": it.get("seed", 0)})
    return items


def enumerate_small(tables):
    """exhaustively enumerated sub-spaces: every mnemonic × every arity of 5.2; every cell keyword in its simplest
    form; every data name in its simplest form; every geometry tree with up to 3 leaves over {1,-2,#3,(..)}"""
    rng = random.Random(12)
    specs = []
    for mn, ars in tables["surfaceArities"]:
        for n in ars:
            specs.append({"kind": "surface", "mod": "", "num": "1", "ptr": None, "mn": mn, "entries": [["real", str(i + 1)] for i in range(n)]})
    ctx = g12.default_ctx(tables)
    ctx["particles"] = ["n"]
    for k in tables["cellKeywords"]:
        p = g12.gen_cell_param(rng, k.lower(), tables, ctx)
        specs.append({"kind": "cell", "num": "1", "mat": None, "geom": ["s", "-1"], "params": [p]})
    for p in tables["particles"]:
        specs.append({"kind": "cell", "num": "1", "mat": None, "geom": ["s", "-1"], "params": [{"key": "imp", "pl": [p], "val": ["nums", [["real", "1"]]]}]})
        specs.append({"kind": "data", "name": "mode", "body": ["mode", [p]]})
    leaves = [["s", "1"], ["s", "-2"], ["c", ["s", "3"]]]

    def trees(n):
        if n == 1:
            for l in leaves:
                yield l
            return
        for k in range(1, n):
            for a in trees(k):
                for b in trees(n - k):
                    yield ["i", a, b]
                    yield ["u", a, b]
                    yield ["i", ["p", a], ["p", b]]
                    yield ["c", ["p", ["u", a, b]]]

    for n in (1, 2, 3):
        for t in trees(n):
            specs.append({"kind": "cell", "num": "1", "mat": None, "geom": g12._fix_levels(t), "params": []})
    for name in tables["libKeys"]:
        specs.append({"kind": "data", "name": "m", "num": "1", "body": ["material", [["1001.80c", "1"]], [[name, ["lib", "80" + g12.LIBS[name]]]]]})
    for name in tables["numKeys"]:
        specs.append({"kind": "data", "name": "m", "num": "1", "body": ["material", [["1001.80c", "1"]], [[name, ["nums", [["real", "1"]]]]]]})
    for key in tables["sdefKeys"]:
        specs.append({"kind": "data", "name": "sdef", "body": ["sdef", [[key, ["nums", [["real", "1"]]]]]]})
    return specs


def run(chk):
    global TABLES
    chk.rule = (
        "cases are sentences of the core grammar G (DESIGN 5.2) built from typed ASTs whose terminal sets come from the "
        "Lean Spec, each laid out in three layouts (single line; wrapped with continuation blanks, &, $ and C comments; "
        "mixed case with blank/= separators), plus whole well-formed files; a case is non-trivial when the sentence "
        "uses at least one G rule beyond a bare number list (a parameter, an operator, a shortcut, a pointer, a keyword); "
        "distinct = distinct canonical JSON of (sentence, layout)"
    )
    chk.assumptions = [
        "context-free derivability (C12_cfg) is not LALR acceptance: SLY resolves shift/reduce and reduce/reduce conflicts "
        "silently; the regular-expression lexer is not modelled; both are validated on the real parser by this run's oracle "
        "and by the U-lexclass comparison, not proved",
        "C12_cfg / C12_cfg_extended cover cell cards, surface cards, number-list / MODE / material (library-qualified "
        "ZAIDs) / thermal / tally / FS / SDEF / lettered SI-SP-SB-DS data cards; FC/SC cards and materials that mix "
        "ZAID forms are validated on the real parser only",
        "G restrictions applied by the generator: nothing between # and its operand; no line that BEGINS with # "
        "(vertical format); tabs are not generated; physical lines <= 80 columns",
    ]
    chk.trusted_base = [
        "Lean 4.33.0 kernel",
        "Spec/Card.lean as a faithful transcription of DESIGN 5.2",
        "translator plug-in tools/extractors/c12_tables.py (dumps SLY productions and the registries)",
        "harness tools/props/c12.py and generator tools/vlib/g12.py",
    ]
    _mp()  # import MontePy from VERIF_REPO in the parent, so that every forked worker uses the same tree
    leanio.prove(chk, "MontePyVerif.Props.C12", THEOREMS, "MontePyVerif.C12")
    if chk.thorough:
        leanio.leanchecker(chk, ["MontePyVerif.Props.C12"])
    drv = leanio.Driver(chk, "drv_c12")
    if not drv.ok:
        raise MachineryError("drv_c12 does not build: " + drv.log[-400:])
    TABLES = drv.batch([{"op": "tables"}])[0]
    chk.extra["grammar_conflicts"] = _conflicts()

    # ---------------------------------------------------------------- sentences
    rng = chk.rng("cards")
    specs = []
    corpus = load_corpus()
    small = enumerate_small(TABLES)
    nrand = chk.pick(1100, 40000)
    gens = [g12.gen_cell, g12.gen_surface, g12.gen_data]
    for i in range(nrand):
        specs.append(gens[i % 3](rng, TABLES))
    # every mnemonic and every data kind at least twice
    for mn, _ in TABLES["surfaceArities"]:
        specs.append(g12.gen_surface(rng, TABLES, mn=mn))
    for which in ["m", "mt", "tr", "mode", "celldata", "f", "f5", "tallyaux", "fs", "fc", "sdef", "sisp", "sc", "ksrc", "kcode", "generic"] * chk.pick(4, 40):
        specs.append(g12.gen_data(rng, TABLES, which=which))
    items = list(corpus)
    for s in small:
        items.append({"spec": s, "mode": "single", "seed": 0})
        items.append({"spec": s, "mode": "mixed", "seed": 1})
    lrng = chk.rng("layouts")
    for s in specs:
        for m in MODES:
            items.append({"spec": s, "mode": m, "seed": lrng.randrange(1 << 30)})
    chk.units["U-cards"] = {"corpus": len(corpus), "exhaustive_small": 2 * len(small), "random_sentences": len(specs), "layouts_per_sentence": 3, "cards": len(items)}
    chk.exhaustive = False

    impl = pmap(run_card, items, chunksize=16)
    # U-lexer: the Lean lexer model against the real SLY lexers, on these cards and on a malformed stream
    from vlib import lexlib

    lexlib.run_unit(chk, [(it["spec"]["kind"], r["text"]) for it, r in zip(items, impl)])

    # the Lean side: Spec classes for every card that has a Lean family; model dispatch for every accepted card
    reqs = []
    where = []
    for i, (it, ri) in enumerate(zip(items, impl)):
        b = g12.build(it["spec"], TABLES)
        g12.layout(b, it["mode"], it["seed"])
        if b.lean is not None:
            reqs.append({"op": b.op, "ast": b.lean()})
            where.append((i, "spec"))
        if ri.get("ok"):
            sp = it["spec"]
            if sp["kind"] == "cell":
                reqs.append({"op": "dispatch_cell", "params": [[p["key"], (":" + ",".join(p["pl"])) if p.get("pl") else "", str(int(p["idx"])) if p.get("idx") else ""] for p in sp["params"]]})
            elif sp["kind"] == "surface":
                reqs.append({"op": "surface_class", "mnemonic": sp["mn"], "n": len(g12.entries_values(sp["entries"]))})
            else:
                reqs.append({"op": "dispatch_data", "prefix": sp["name"], "number": int(sp["num"]) if sp.get("num") else None, "particles": bool(sp.get("pl"))})
            where.append((i, "disp"))
    answers = drv.batch(reqs)
    lean_of = {}
    for (i, k), a in zip(where, answers):
        lean_of[(i, k)] = a

    covered = {}
    pairs = set()
    failing = []
    check_errors = []
    for i, (it, ri) in enumerate(zip(items, impl)):
        spec = it["spec"]
        rules = g12.rules_of(spec)
        nontrivial = any(not r.startswith(("Entry:real", "Real:", "Surface:", "Data:", "Cell", "Mat:void", "Atom:surf")) or r.startswith(("Surface:mod", "Surface:per", "Surface:tr")) for r in rules)
        chk.note_case({"spec": spec, "mode": it["mode"], "seed": it["seed"]}, nontrivial, sample_every=2000)
        chk.count("kind:" + spec["kind"])
        chk.count("layout:" + it["mode"])
        for r in set(rules):
            covered[r] = covered.get(r, 0) + 1
        for a, b in zip(rules, rules[1:]):
            pairs.add((a.split(":")[0] + ":" + a.split(":")[-1] if False else a, b))
        if ri.get("check_error"):
            check_errors.append((it, ri["check_error"]))
            continue
        v = verdict_of(ri)
        if v is not None:
            failing.append((i, v))
            chk.count("oracle:" + v[0])
            continue  # nothing else is compared on a case that already violates the property
        chk.count("oracle:accepted")
        # U-lexclass: Spec's token classes vs the real lexer
        a = lean_of.get((i, "spec"))
        if a is not None:
            chk.traces_validated += 1
            bad = None
            if "error" in a:
                bad = {"lean_error": a["error"]}
            elif not a["wf"]:
                bad = {"spec_says": "not well-formed (the generator left G)"}
            elif a["classes"] != ri["tokens"]:
                bad = {"spec_classes": a["classes"], "lexer_tokens": ri["tokens"]}
            if bad is not None:
                chk.disagreements_checked += 1
                ri2 = run_card(it)
                if "spec_classes" in bad and ri2["tokens"] == a["classes"]:
                    chk.count("flaky:disagreement-not-reproduced")
                elif "spec_classes" in bad and cause_of(spec) in {c for c, _ in CAUSES}:
                    # the sentence was accepted, but its token stream is not the one G's words denote, and it belongs
                    # to a family with a recorded lexing/grammar defect: reported under that family's signature
                    chk.violation(
                        {"mechanism": "grammar", "class": "mislexed", "rule": cause_of(spec), "exception": "token-classes"},
                        f"G sentence accepted with a different token stream: {ri['text']!r}",
                        {"spec": spec, "mode": it["mode"], "seed": it["seed"], "text": ri["text"], "spec_classes": a["classes"], "lexer_tokens": ri["tokens"]},
                    )
                else:
                    chk.broken_obligation("correspondence", "U-lexclass (Spec.Card classes vs tokens.py lexers)", bad, dict(it, text=ri["text"]))
        # U-dispatch
        d = lean_of.get((i, "disp"))
        if d is not None:
            chk.traces_validated += 1
            obs = ri["disp"]
            if spec["kind"] == "cell":
                ok = "err" not in d and sorted(d["set"]) == obs["set"] and d["keys"] == obs["keys"]
            elif spec["kind"] == "surface":
                ok = d.get("ok") == obs["class"]
            else:
                ok = d.get("class") == obs["class"] and d.get("parser") == obs["parser"] and d.get("name_err") is None
            if not ok:
                chk.disagreements_checked += 1
                chk.broken_obligation("correspondence", "U-dispatch (Model/Dispatch.lean vs cell.py / data_parser.py / surface_builder.py)", {"model": d, "impl": obs}, dict(it, text=ri["text"]))

    if check_errors:
        raise MachineryError(f"{len(check_errors)} comparisons crashed, first: {check_errors[0][0]} {check_errors[0][1]}")
    # oracle failures: group by (verdict, rule tag of the unshrunk sentence, single-line or not), shrink up to
    # two representatives per group in parallel, confirm every one in this process before it is reported
    groups = {}
    for i, v in failing:
        groups.setdefault((v, rule_tag(items[i]["spec"]), items[i]["mode"] == "single"), []).append(i)
    reps = []
    for key, idxs in groups.items():
        for i in idxs[:2]:
            reps.append((i, key[0], len(idxs) if i == idxs[0] else 0))
    shrunk = pmap(_shrink_job, [{"item": items[i], "want": list(v)} for i, v, _ in reps], chunksize=1)
    for (i, v, n_group), small_item in zip(reps, shrunk):
        r2 = run_card(small_item)
        if verdict_of(r2) != v:
            small_item = items[i]
            r2 = run_card(small_item)
            if verdict_of(r2) != v:
                chk.count("flaky:violation-not-reproduced")
                continue
        sig = signature(small_item, v)
        payload = {"spec": small_item["spec"], "mode": small_item["mode"], "seed": small_item["seed"], "text": r2["text"], "impl": {k: r2.get(k) for k in ("ok", "exc", "mis")}, "rules": g12.rules_of(small_item["spec"])}
        chk.violation(sig, f"G sentence {v[0]} ({v[1]}): {r2['text']!r}", payload)
        if n_group > 2:
            chk.count("oracle:grouped-with-a-shrunk-representative", n_group - 2)

    # ---------------------------------------------------------------- single words and probes (model vs code)
    words = []
    wr = chk.rng("words")
    pool = sorted(set(TABLES["keywords"] + TABLES["particles"] + [m for m, _ in TABLES["surfaceArities"]] + TABLES["dataNames"] + ["i", "j", "r", "m", "log", "ilog", "like", "but", "no", "foo", "zz", "abc"]))
    for w in pool:
        for variant in {w, w.upper(), "".join(ch.upper() if wr.random() < 0.5 else ch for ch in w)}:
            for lx in ("particle", "cell", "surface"):
                words.append({"lexer": lx, "word": variant, "ctx": "plain"})
            for ctx in ("colon", "comma", "mode", "par", "spar"):
                words.append({"lexer": "cell" if ctx in ("colon", "comma") and wr.random() < 0.5 else "particle", "word": variant, "ctx": ctx})
    obs_w = pmap(run_word, words)
    mod_w = drv.batch([{"op": "lex", "lexer": "surface" if w["lexer"] == "surface" else "particle", "word": w["word"], "ctx": w["ctx"]} for w in words])
    for w, o, m in zip(words, obs_w, mod_w):
        chk.traces_validated += 1
        chk.count("unit:lexword")
        if o.startswith("multi:") or o in ("COMMENT",):
            chk.count("lexword:not-a-single-text-token")
            continue
        if o != m:
            chk.disagreements_checked += 1
            chk.broken_obligation("correspondence", "U-lexword (Model *.TEXT / _expects_particle vs tokens.py)", {"impl": o, "model": m}, w)
    # U-lexnum: Model/LexNum.lean vs the real lexers on numeric words, in four contexts
    lwords, nenum = lexnum_words(chk, chk.rng("lexnum"))
    litems = [{"word": w, "ctx": c} for w in lwords for c in ("data", "nuclides")]
    litems += [{"word": w, "ctx": c} for w in lwords[:: chk.pick(7, 3)] for c in ("surface", "cell")]
    obs_l = pmap(run_lexnum, litems, chunksize=64)
    mod_l = drv.batch([{"op": "lexnum", "word": it["word"], "nuclides": it["ctx"] == "nuclides"} for it in litems])
    for it, o, m in zip(litems, obs_l, mod_l):
        chk.traces_validated += 1
        chk.count("unit:lexnum")
        if m is None:
            ok = o is None or o[0] in LEXNUM_OUTSIDE or o[0].startswith("lex:")
        elif o and o[0] == "ValueError":
            ok = m[0] == "ValueError"
        else:
            ok = o == m
        if not ok:
            chk.disagreements_checked += 1
            if run_lexnum(it) == o:
                chk.broken_obligation("correspondence", "U-lexnum (Model/LexNum.lean vs the numeric rules of tokens.py)", {"impl": o, "model": m}, it)
            else:
                chk.count("flaky:disagreement-not-reproduced")
    chk.units["U-lexnum"] = {"enumerated_words": nenum, "generated_words": len(lwords) - nenum, "probes": len(litems)}

    probes = [{"mnemonic": mn, "n": n} for mn, _ in TABLES["surfaceArities"] for n in range(1, 8)] + [{"mnemonic": mn.upper(), "n": n} for mn in ("p", "px", "c/z", "cz") for n in (1, 3, 4, 9, 10)]
    obs_p = pmap(run_probe, probes)
    mod_p = drv.batch([dict(p, op="surface_class") for p in probes])
    for p, o, m in zip(probes, obs_p, mod_p):
        chk.traces_validated += 1
        chk.count("unit:arity-probe")
        if o != m:
            chk.disagreements_checked += 1
            chk.broken_obligation("correspondence", "U-dispatch surface_builder (arity probe)", {"impl": o, "model": m}, p)
    nprobes = [{"prefix": n, "number": num, "particles": part} for n in ["m", "mt", "tr", "mode", "imp", "vol", "u", "lat", "fill", "nps", "f", "fs", "sdef", "M", "Imp"] for num in (None, 0, 3) for part in (False, True)]
    obs_n = pmap(run_name_probe, nprobes)
    mod_n = drv.batch([dict(p, op="dispatch_data") for p in nprobes])
    for p, o, m in zip(nprobes, obs_n, mod_n):
        chk.traces_validated += 1
        chk.count("unit:name-probe")
        if m["name_err"] is not None:
            agree = o.get("exc") in ("MalformedInputError", "ParsingError")
        else:
            # an accepted name may still fail later for reasons outside the dispatch model (e.g. `sdef 1 1 1`)
            agree = "exc" in o or (o["class"] == m["class"] and o["parser"] == m["parser"])
        if not agree:
            chk.disagreements_checked += 1
            chk.broken_obligation("correspondence", "U-dispatch parse_data/__enforce_name (name probe)", {"impl": o, "model": m}, p)

    # ---------------------------------------------------------------- whole files
    frng = chk.rng("files")
    files = []
    for i in range(chk.pick(60, 1500)):
        f = gen_file(frng, TABLES)
        for m in MODES:
            files.append({"file": f, "mode": m, "seed": frng.randrange(1 << 30)})
    fres = pmap(run_file, files, chunksize=4)
    nfiles = 0
    ffail = []
    for it, r in zip(files, fres):
        if "skipped" in r:
            chk.count("file:skipped-long-line")
            continue
        nfiles += 1
        chk.note_case({"file": chk_hash(it)}, True)
        chk.count("kind:file")
        for block in ("cells", "surfaces", "data"):
            for spec in it["file"][block]:
                for rr in set(g12.rules_of(spec)):
                    covered[rr] = covered.get(rr, 0) + 1
        v = verdict_of(r)
        if v is not None:
            chk.count("oracle:file-" + v[0])
            ffail.append((it, v))
        else:
            chk.count("oracle:file-accepted")
    fgroups = {}
    for it, v in ffail:
        fgroups.setdefault(v, []).append(it)
    freps = [(it, v) for v, its in fgroups.items() for it in its[:3]]
    fshrunk = pmap(_shrink_file_job, [{"item": it, "want": list(v)} for it, v in freps], chunksize=1)
    for (it, v), sm in zip(freps, fshrunk):
        r3 = run_file(sm)
        if verdict_of(r3) != v:
            sm = it
            r3 = run_file(sm)
            if verdict_of(r3) != v:
                chk.count("flaky:violation-not-reproduced")
                continue
        chk.violation(file_signature(sm, v), f"well-formed file {v[0]} ({v[1]})", {"file": sm["file"], "mode": sm["mode"], "seed": sm["seed"], "text": r3["text"], "impl": {k: r3.get(k) for k in ("ok", "exc", "mis")}})
    chk.units["U-files"] = {"files": nfiles, "layouts_per_file": 3}
    # ---------------------------------------------------------------- the LALR automaton (design_notes/LR.md)
    from vlib import lrlib

    leanio.prove(chk, "MontePyVerif.Props.C12LR", lrlib.THEOREMS, "MontePyVerif.C12LR")
    lrlib.run_unit(chk, items, TABLES)
    chk.extra["broken_examples"] = [{"name": b["name"], "detail": b["detail"], "case": b["case"]} for b in chk.broken][:6]
    chk.extra["rule_coverage"] = dict(sorted(covered.items()))
    chk.extra["adjacent_rule_pairs_covered"] = len(pairs)
    chk.extra["rules_covered"] = len(covered)


def file_signature(item, v):
    rules = sorted({cause_of(spec) for block in ("cells", "surfaces", "data") for spec in item["file"][block] if cause_of(spec) in [c for c, _ in CAUSES]})
    return {"mechanism": "grammar", "class": "file-" + v[0], "rule": "+".join(rules) or "File", "exception": str(v[1])}


def chk_hash(it):
    from vlib.core import chash

    return chash({"f": it["file"], "m": it["mode"], "s": it["seed"]})


def _conflicts():
    """the S/R and R/R conflict counts the translator extracted (evidence: what C12_cfg cannot see)"""
    path = os.path.join(VERIF, "lean", "MontePyVerif", "Gen", "Grammar.lean")
    out = {}
    name = None
    try:
        with open(path) as fh:
            for line in fh:
                line = line.strip()
                if line.startswith("name := "):
                    name = line.split('"')[1]
                elif line.startswith("srConflicts := ") and name:
                    out.setdefault(name, {})["sr"] = int(line.split(":=")[1])
                elif line.startswith("rrConflicts := ") and name:
                    out.setdefault(name, {})["rr"] = int(line.split(":=")[1])
    except OSError:
        pass
    return out


def replay(chk, payload):
    global TABLES
    _mp()
    chk.rule = "replay of one stored case"
    drv = leanio.Driver(chk, "drv_c12")
    if not drv.ok:
        raise MachineryError("drv_c12 does not build")
    TABLES = drv.batch([{"op": "tables"}])[0]
    case = payload.get("case") or {}
    if payload.get("verdict") == "no-failing-input-found":
        case = payload["no_longer_checks"][0]["case"] or {}
    items = payload.get("items") or [case]
    for it in items:
        if "file" in it:
            r = run_file(it)
            chk.note_case({"file": chk_hash(it)})
            v = verdict_of(r)
            if v is not None:
                chk.violation(file_signature(it, v), f"file {v[0]} ({v[1]})", dict(it, text=r["text"]))
        elif "spec" in it:
            item = {"spec": it["spec"], "mode": it.get("mode", "single"), "seed": it.get("seed", 0)}
            r = run_card(item)
            chk.note_case(item)
            v = verdict_of(r)
            if v is not None:
                chk.violation(signature(item, v), f"G sentence {v[0]} ({v[1]}): {r['text']!r}", dict(item, text=r["text"], impl={k: r.get(k) for k in ("ok", "exc", "mis")}))
            else:
                b = g12.build(item["spec"], TABLES)
                g12.layout(b, item["mode"], item["seed"])
                if b.lean is not None:
                    a = drv.batch([{"op": b.op, "ast": b.lean()}])[0]
                    if a.get("classes") != r["tokens"]:
                        chk.broken_obligation("correspondence", "U-lexclass", {"spec": a, "tokens": r["tokens"]}, dict(item, text=r["text"]))
    chk.add_obligation("replay", True)
