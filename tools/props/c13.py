"""C13 — bad input fails in a controlled way: a deliberate error, never a leak or hang.

prove       : lean/MontePyVerif/Props/C13.lean — the error-mapping layer as a decision table over Gen/Errors.lean
              (generated from the live class hierarchy and the AST of the `except` clauses) and the staged reader
              (induction over the abstract file).
correspond  : U-errors-table   the model's decision table vs Python's `issubclass` on the live classes and the AST;
              U-errors-inject  an exception of every class injected at every guarded site of the REAL code
                               (parser, constructor, reader, container, the three linking loops), both modes,
                               vs the model's outcome;
              U-errors-files   structured single and double corruptions of generated files: class raised in normal
                               mode and ordered warning classes in check mode, model vs implementation.
judge       : C13's own oracle on the real code for every corrupted file (structured and token-level, every token
              position of every valid base file): returns or raises deliberately (last traceback frame is a `raise`
              statement inside montepy/), never hangs, check mode returns and reports the condition, and a light
              faithfulness test of what is returned.
NOT proved  : "no internal exception escapes from any Python expression reachable from read_input" (needs a model of
              CPython); that part is exploration (corruption enumeration) and is labelled so in the evidence.
"""
import copy
import json
import os
import re

from vlib import leanio
from vlib import c13lib as L
from vlib import c13gen as G
from vlib.core import VERIF, canon
from vlib.par import pmap

META = {
    "property_id": "C13",
    "technique": "Lean 4 proof: decision table of the exception-mapping layer over tables generated from the source, "
    "induction over abstract files for the staged reader; differential correspondence and fault injection on the real code",
    "design_ref": "6 C13",
}

THEOREMS = [
    "C13_mapping",
    "C13_tables_known",
    "C13_hierarchy",
    "C13_handled_ok",
    "C13_mapping_layers",
    "C13_deliberate_is_documented",
    "C13_check_mode_returns",
    "C13_check_mode_reports",
    "C13_normal_mode_first_error",
    "C13_normal_mode_clean_prefix",
    "C13_link_errors",
    "C13_link_first",
    "C13_any_class_refuted",
    "C13_any_class_partial",
    "C13_reader_total",
    "C13_reader_terminates",
    "C13_pairing",
    "C13_link_visits_all",
    "C13_link_live_skips",
    "C13_link_probe",
]

CORPUS_DIR = os.path.join(VERIF, "corpus", "C13")


# --------------------------------------------------------------------------- U-errors-table
def table_impl():
    """the decision table computed by Python on the live classes (issubclass) and the handler lists of the translator
    (observed on the working tree; AST as fall-back)"""
    import importlib.util
    from vlib import mp  # noqa: F401  (puts VERIF_REPO first on sys.path before the plug-in imports montepy)

    spec = importlib.util.spec_from_file_location("c13_errors", os.path.join(VERIF, "tools", "extractors", "c13_errors.py"))
    ex = importlib.util.module_from_spec(spec)
    spec.loader.exec_module(ex)
    regs = ex.regions()
    return ex, regs


def check_table(chk, drv):
    ex, regs = table_impl()
    model = drv.batch([{"table": True}])[0]
    n = 0
    for row in model:
        r, c = row["region"].split(".")[-1], row["cls"]
        cls = ex._resolve(c)
        hs = tuple(ex._resolve(h) for h in regs[r])
        handled = bool(hs) and issubclass(cls, hs)
        want_n = ("raise:" + c) if handled else ("leak:" + c)
        want_c = "warn" if handled else ("leak:" + c)
        n += 1
        if (row["handled"], row["normal"], row["check"]) != (handled, want_n, want_c):
            chk.broken_obligation("correspondence", "U-errors-table (Model.Errors.outcome vs issubclass on the live classes)",
                                  {"model": row, "impl": {"handled": handled, "normal": want_n, "check": want_c}}, {"region": r, "cls": c})
    chk.traces_validated += n
    chk.units["U-errors-table"] = {"entries": n}
    chk.count("table-entries", n)
    return [row["cls"] for row in model if row["region"].endswith("parseInputInner")]


# --------------------------------------------------------------------------- U-errors-inject
INJECT_SITES = ["parser", "treeNone", "ctor", "reader", "flush", "cellLoop", "surfaceLoop", "dataLoop", "loadData", "blankModifiers"]
SITE_REGION = {"cellLoop": "cellsCellLoop", "surfaceLoop": "uipSurfaceLoop", "dataLoop": "uipDataLoop", "loadData": "uipLoadData",
               "blankModifiers": "cellsBlankModifiers"}

INJECT_FILE = "injection base\n1 0 -1 imp:n=1\n\n1 so 5\n\nmode n\nnps 100\n\n"


def make_exc(name):
    import montepy.errors as E
    import builtins

    if name == "MalformedInputError":
        return E.MalformedInputError(None, "injected")
    if name == "ParsingError":
        return E.ParsingError(None, "injected", [])
    if name == "BrokenObjectLinkError":
        return E.BrokenObjectLinkError("A", 1, "B", 2)
    if name == "RedundantParameterSpecification":
        return E.RedundantParameterSpecification("k", "v")
    if name == "LexError":
        from sly.lex import LexError

        return LexError("injected", "t", 0)
    if name == "UnicodeDecodeError":
        return UnicodeDecodeError("utf-8", b"x", 0, 1, "injected")
    cls = getattr(E, name, None) or getattr(builtins, name)
    return cls("injected")


def run_inject(case):
    """raise an exception of class case['cls'] at site case['site'] of the real read path; observe both modes"""
    from vlib import mp
    import montepy
    import montepy.mcnp_problem as P
    import montepy.input_parser.input_syntax_reader as R
    from unittest import mock

    site, name = case["site"], case["cls"]

    def boom(*a, **k):
        raise make_exc(name)

    patches = []
    if site in ("parser", "treeNone"):
        from montepy.data_inputs import data_input

        parser_cls = type(montepy.data_inputs.data_input.DataInput._parser)
        orig = parser_cls.parse

        def parse(self, tokens, input=None):
            if input is not None and "nps" in input.input_lines[0]:
                if site == "treeNone":
                    return None
                raise make_exc(name)
            return orig(self, tokens, input)

        patches.append(mock.patch.object(parser_cls, "parse", parse))
    elif site == "ctor":
        orig_pd = P.parse_data

        def pd(input):
            if "nps" in input.input_lines[0]:
                raise make_exc(name)
            return orig_pd(input)

        patches.append(mock.patch.object(P, "parse_data", pd))
    elif site == "reader":
        orig_rd = R.read_data

        def rd(fh, version, block_type=None, recursion=False):
            n = 0
            for x in orig_rd(fh, version, block_type, recursion):
                yield x
                n += 1
                if n == 2:
                    raise make_exc(name)

        patches.append(mock.patch.object(R, "read_data", rd))
    elif site == "flush":
        class RI:
            def __init__(self, lines, *a, **k):
                if "nps" in lines[0]:
                    raise make_exc(name)
                raise ValueError("Not a valid Read Input")

        patches.append(mock.patch.object(R, "ReadInput", RI))
    elif site == "cellLoop":
        patches.append(mock.patch.object(montepy.Cell, "update_pointers", boom))
    elif site == "surfaceLoop":
        patches.append(mock.patch.object(montepy.surfaces.surface.Surface, "update_pointers", boom))
    elif site == "dataLoop":
        patches.append(mock.patch.object(montepy.data_inputs.mode.Mode, "update_pointers", boom, create=True))
    elif site == "loadData":
        # the private method by its written name (a class renamed around it keeps the harness working)
        priv = [n for n in vars(P.MCNP_Problem) if n.endswith("__load_data_inputs_to_object")]
        patches.append(mock.patch.object(P.MCNP_Problem, priv[0] if priv else "_MCNP_Problem__load_data_inputs_to_object", boom, create=not priv))
    elif site == "blankModifiers":
        # UniverseInput.push_to_cells is called from __setup_blank_cell_modifiers only (and always: `_universe` is in
        # inputs_to_always_update)
        patches.append(mock.patch.object(montepy.data_inputs.universe_input.UniverseInput, "push_to_cells", boom))
    for p in patches:
        p.start()
    try:
        obs = L.run_bundle({"main": INJECT_FILE, "files": {}})
    finally:
        for p in patches:
            p.stop()
    out = {}
    for mode in ("normal", "check"):
        o = obs[mode]
        out[mode] = {"out": o["out"], "cls": o.get("exc", {}).get("cls"), "warnings": o["warnings"]}
    return out


def inject_model_case(site, name):
    base = [
        {"t": "cell", "num": 1, "mat": 0, "surfs": [1], "comps": [], "mods": [], "fault": None},
        {"t": "surface", "num": 1, "tr": None, "per": None, "fault": None},
        {"t": "mode", "fault": None},
    ]
    if site in ("parser", "treeNone", "ctor"):
        return {"items": base + [{"t": "other", "fault": {"site": site, "cls": name}}]}
    if site == "reader":
        return {"items": base[:2] + [{"t": "reader", "cls": name}] + base[2:] + [{"t": "other", "fault": None}]}
    return None


def check_inject(chk, drv, classes):
    # StopIteration raised inside a generator is turned into RuntimeError by Python itself (PEP 479): not injected
    classes = [c for c in classes if c != "StopIteration"]
    cases = [{"site": s, "cls": c} for s in INJECT_SITES for c in classes if not (s == "treeNone" and c != "ParsingError")]
    impl = pmap(run_inject, cases, chunksize=4)
    table = {(row["region"].split(".")[-1], row["cls"]): row for row in drv.batch([{"table": True}])[0]}
    mcases = [inject_model_case(c["site"], c["cls"]) for c in cases]
    mres = drv.batch([m for m in mcases if m is not None])
    it = iter(mres)
    n = 0
    for case, ri, mc in zip(cases, impl, mcases):
        site, name = case["site"], case["cls"]
        if mc is not None:
            rm = next(it)
            want = {m: {"out": rm[m]["final"]["out"], "cls": rm[m]["final"].get("cls"), "warnings": rm[m]["warnings"]} for m in ("normal", "check")}
        elif site == "flush":
            # flush_input: ValueError that is not ParsingError -> the input is yielded (no error); ParsingError -> re-raised
            # to the outer handler; anything else propagates
            row = table[("flushInput", name)]
            sub_parsing = name == "ParsingError"
            if row["handled"] and not sub_parsing:
                want = {"normal": {"out": "returns", "cls": None, "warnings": []}, "check": {"out": "returns", "cls": None, "warnings": []}}
            else:
                o = table[("parseInputOuter", name)]
                want = {
                    "normal": {"out": "raises", "cls": name, "warnings": []},
                    "check": {"out": "returns", "cls": None, "warnings": [name]} if o["handled"] else {"out": "raises", "cls": name, "warnings": []},
                }
        else:
            row = table[(SITE_REGION[site], name)]
            want = {
                "normal": {"out": "raises", "cls": name, "warnings": []},
                "check": {"out": "returns", "cls": None, "warnings": [name]} if row["handled"] else {"out": "raises", "cls": name, "warnings": []},
            }
        n += 1
        chk.note_case({"inject": case}, True)
        chk.count("inject:" + site)
        got = {m: {"out": ri[m]["out"], "cls": ri[m]["cls"], "warnings": [w for w in ri[m]["warnings"]]} for m in ("normal", "check")}
        if got != want:
            chk.disagreements_checked += 1
            ri2 = run_inject(case)
            got = {m: {"out": ri2[m]["out"], "cls": ri2[m]["cls"], "warnings": ri2[m]["warnings"]} for m in ("normal", "check")}
            if got == want:
                chk.count("flaky:disagreement-not-reproduced")
                continue
            chk.broken_obligation("correspondence", "U-errors-inject (Model.Errors vs exception injected into the real read path)",
                                  {"impl": got, "model": want}, case)
    chk.traces_validated += n
    chk.units["U-errors-inject"] = {"cases": n, "sites": INJECT_SITES, "classes": len(classes)}


# --------------------------------------------------------------------------- U-pairing
PAIR_BASE = "pairing\n1 0 -1 imp:n=1\n2 0 1 imp:n=0\n\n1 so 5\n\nmode n\n"
PAIR_NUCLIDES = ["1001", "8016", "92235", "92238", "6012", "7014", "26056", "13027"]


def pairing_text(n):
    """a material without library suffixes with n entries after its name: nuclide, fraction, nuclide, ..."""
    words = []
    for i in range(n):
        words.append(PAIR_NUCLIDES[(i // 2) % len(PAIR_NUCLIDES)] if i % 2 == 0 else "0.%d" % (i + 1))
    return PAIR_BASE + ("m1 " + " ".join(words)).rstrip() + "\n"


def run_pairing(n):
    obs = L.run_bundle({"main": pairing_text(n), "files": {}})
    o = obs["normal"]
    if o["out"] == "returns":
        pairs = (o["sem"] or {}).get("data", {}).get("m1", {}).get("pairs")
        return {"out": "ok", "pairs": len(pairs) if isinstance(pairs, list) else None}
    return {"out": "error", "cls": o.get("exc", {}).get("cls")} if o["out"] == "raises" else {"out": o["out"]}


def check_pairing(chk, drv):
    """the model's pairing step (Gen.Errors.materialPairing) vs Material.__init__ on 1..12 entries"""
    ns = list(range(1, 13))
    model = drv.batch([{"pair": n} for n in ns])
    for n, rm in zip(ns, model):
        ri = run_pairing(n)
        chk.note_case({"pairing": n}, True)
        chk.traces_validated += 1
        if ri != rm:
            chk.disagreements_checked += 1
            if run_pairing(n) == rm:
                chk.count("flaky:disagreement-not-reproduced")
                continue
            chk.broken_obligation("correspondence", "U-pairing (Model.Errors.pairUp vs Material.__init__ on a flat entry list)",
                                  {"impl": ri, "model": rm}, {"bundle": {"main": pairing_text(n), "files": {}}, "kind": "pairing", "entries": n})
    chk.units["U-pairing"] = {"cases": len(ns)}


# --------------------------------------------------------------------------- structured files (U-errors-files)
def run_struct(case):
    return L.run_bundle(case["bundle"])


def project(o):
    return {"out": o["out"], "cls": o.get("exc", {}).get("cls"), "warnings": list(o["warnings"])}


def model_project(rm):
    return {"out": rm["final"]["out"], "cls": rm["final"].get("cls"), "warnings": rm["warnings"]}


def out_of_model_scope(items):
    """the data loop iterates a list that Material.update_pointers shortens; the model ignores that. It only matters
    when one material number is given twice AND has two MT inputs (a double corruption)."""
    mats = [i["num"] for i in items if i.get("t") == "material"]
    mts = [i["num"] for i in items if i.get("t") == "thermal"]
    return any(mats.count(n) >= 2 and mts.count(n) >= 2 for n in set(mats))


PER_INPUT = {"MalformedInputError", "ParsingError", "UnsupportedFeature", "UnknownElement", "NumberConflictError"}


def judge_abandoned(case, obs):
    """check mode reports *the same conditions*: a file with k >= 2 inputs that each fail on their own (per-input
    faults of the generator, independent of each other) must give at least k per-input warnings — check mode must
    not abandon the file at the first of them.  Judged on the real code, without the model."""
    k = sum(1 for i in case.get("items", []) if i.get("fault"))
    if k < 2 or any(i.get("t") == "reader" for i in case["items"]) or obs["check"]["out"] != "returns":
        return []
    got = [w for w in obs["check"]["warnings"] if w in PER_INPUT]
    if len(got) >= k:
        return []
    first = got[0] if got else None
    return [(
        {"mechanism": "error-policy", "corruption": "double", "class": "check-mode-abandoned", "exception": first},
        f"{k} inputs of the file fail on their own, check mode reports {len(got)} of them ({obs['check']['warnings']}): the rest of the file was abandoned",
    )]


def struct_cases(chk):
    rng = chk.rng("struct")
    nbase = chk.pick(8, 60)
    cases = []
    for i in range(nbase):
        desc = G.gen_desc(rng, i)
        b, items = G.render(desc)
        cases.append({"kind": "none", "bundle": b, "items": items, "desc": i})
        singles = G.corruptions(desc, rng)
        for kind, d in singles:
            b, items = G.render(d)
            cases.append({"kind": kind, "bundle": b, "items": items, "desc": i})
        # double faults: the second corruption applied to the result of the first
        ndouble = chk.pick(25, 120)
        for _ in range(ndouble):
            k1, d1 = rng.choice(singles)
            second = G.corruptions(d1, rng)
            k2, d2 = rng.choice(second)
            b, items = G.render(d2)
            cases.append({"kind": k1 + "+" + k2, "bundle": b, "items": items, "desc": i})
        # two inputs that each fail on their own (per-input fault recipes on different inputs), in both orders
        faults = [(k, d) for k, d in singles if k.startswith("fault:")]
        for _ in range(chk.pick(12, 40)):
            if len(faults) < 2:
                break
            (k1, d1), (k2, d2) = rng.sample(faults, 2)
            d = copy.deepcopy(d1)
            moved = False
            for block in ("cells", "surfaces", "data"):
                for idx, x in enumerate(d2[block]):
                    if x.get("fault") and not d[block][idx].get("fault"):
                        d[block][idx]["fault"] = x["fault"]
                        moved = True
            if moved:
                b, items = G.render(d)
                cases.append({"kind": k1 + "+" + k2, "bundle": b, "items": items, "desc": i})
    # reference defects in every order (deterministic enumeration, not sampled)
    for kind, d in G.ref_order_descs(chk.thorough):
        b, items = G.render(d)
        cases.append({"kind": kind, "bundle": b, "items": items, "desc": -1})
    return cases


# --------------------------------------------------------------------------- token-level corruptions (oracle only)
def token_cases(chk, bases):
    rng = chk.rng("tokens")
    cases = []
    stride = chk.pick(1, 1)
    reps = chk.pick(1, 6)
    for b in bases:
        toks = L.token_positions(b["main"])
        for pos in toks:
            for kind, txt in L.token_corruptions(b["main"], pos, rng, per_kind=reps):
                cases.append({"kind": kind, "base": b["name"], "pos": list(pos), "bundle": {"main": txt, "files": b["files"]}})
        for kind, txt in L.block_corruptions(b["main"]):
            cases.append({"kind": kind, "base": b["name"], "pos": None, "bundle": {"main": txt, "files": b["files"]}})
        # corruptions inside the files pulled in by read inputs, and the read target itself
        for fname, ftxt in sorted(b["files"].items()):
            ftoks = L.token_positions("t\n" + ftxt)
            for pos in ftoks[:: chk.pick(3, 1)]:
                for kind, txt in L.token_corruptions("t\n" + ftxt, pos, rng, per_kind=1):
                    files = dict(b["files"])
                    files[fname] = txt.split("\n", 1)[1] if "\n" in txt else ""
                    cases.append({"kind": "subfile:" + kind, "base": b["name"], "pos": list(pos), "bundle": {"main": b["main"], "files": files}})
            files = dict(b["files"])
            del files[fname]
            cases.append({"kind": "read-target-missing", "base": b["name"], "pos": None, "bundle": {"main": b["main"], "files": files}})
    # deduplicate identical corrupted texts
    seen = set()
    out = []
    for c in cases:
        k = canon(c["bundle"])
        if k not in seen:
            seen.add(k)
            out.append(c)
    return out


def judge_case(case):
    obs = L.run_bundle(case["bundle"])
    return obs, L.judge(case["bundle"], obs, case["kind"].split("+")[0] if "+" not in case["kind"] else "double")


def shrink_bundle(bundle, sig):
    """drop lines of the main file while the same signature (without the corruption kind) is still produced"""
    want = {k: v for k, v in sig.items() if k != "corruption"}

    def fails(lines):
        b = {"main": "\n".join(lines) + "\n", "files": bundle["files"]}
        obs = L.run_bundle(b)
        return any({k: v for k, v in s.items() if k != "corruption"} == want for s, _ in L.judge(b, obs, sig.get("corruption", "")))

    from vlib.par import shrink_list

    lines = bundle["main"].split("\n")
    if lines and lines[-1] == "":
        lines = lines[:-1]
    if len(lines) > 1 and fails(lines):
        head, rest = lines[:1], lines[1:]
        rest = shrink_list(rest, lambda r: fails(head + r))
        lines = head + rest
    return {"main": "\n".join(lines) + "\n", "files": bundle["files"]}


def report_violations(chk, case, verdicts):
    """confirm in this process, shrink, report"""
    if not verdicts:
        return
    obs2 = L.run_bundle(case["bundle"])
    kind = verdicts[0][0].get("corruption", case["kind"])
    again = L.judge(case["bundle"], obs2, kind) + (judge_abandoned(case, obs2) if "items" in case else [])
    confirmed = [(s, w) for s, w in again if any(s == s0 for s0, _ in verdicts)]
    if not confirmed:
        chk.count("flaky:violation-not-reproduced")
        return
    for sig, what in confirmed:
        if sig["class"] == "check-mode-abandoned":
            # generated files are a dozen lines; the verdict needs the generator's description, so no line shrinking
            chk.violation(sig, what, {"bundle": case["bundle"], "kind": case["kind"], "items": case["items"], "observed": obs2})
            continue
        if any(all(sig.get(k) == v for k, v in f["signature"].items()) for f in chk.known):
            # a listed finding (it has a committed minimised replay): counted, not shrunk again
            chk.violation(sig, what, {"bundle": case["bundle"], "kind": case["kind"], "base": case.get("base")})
            continue
        key = canon({k: v for k, v in sig.items() if k != "corruption"})
        store = chk.extra.setdefault("_seen_sigs", {})
        if key in store and store[key] >= 2:
            # already minimised twice for this mechanism: report without shrinking again
            chk.violation(sig, what, {"bundle": case["bundle"], "kind": case["kind"], "base": case.get("base")})
            continue
        store[key] = store.get(key, 0) + 1
        small = shrink_bundle(case["bundle"], sig)
        chk.violation(sig, what, {"bundle": small, "kind": case["kind"], "base": case.get("base"), "observed": L.run_bundle(small)})


SYSTEMATIC = {"delete-token", "duplicate-token", "swap-adjacent", "truncate-line"}


def zoo_cases(chk):
    """every card family in every accepted spelling variant (tools/vlib/c13gen.py ZOO), one card per minimal valid
    file; at EVERY word of the file: drop it (last word / a word in the middle), duplicate it, swap it with the next
    word of another kind, cut the line there"""
    rng = chk.rng("zoo")
    cases, bases = [], []
    for k, entry in enumerate(G.ZOO):
        name, text, own = G.zoo_file(entry)
        bases.append({"kind": "none", "base": name, "pos": None, "bundle": {"main": text, "files": {}}})
        for pos in L.token_positions(text):
            if k > 0 and pos[0] not in own:
                continue
            for kind, txt in L.token_corruptions(text, pos, rng, per_kind=chk.pick(1, 4), kinds=None if chk.thorough else SYSTEMATIC):
                cases.append({"kind": kind, "base": name, "pos": list(pos), "bundle": {"main": txt, "files": {}}})
    seen, out = set(), []
    for c in cases:
        k = c["bundle"]["main"]
        if k not in seen:
            seen.add(k)
            out.append(c)
    return bases, out


def misread_of(bundles_obs):
    """for bundles that read_input accepted: differences between the Spec's denotation of the text and the semantic
    layer of the returned problem -> list (parallel to the input) of lists of (family, where, detail)"""
    from vlib import spec, c13sem
    from vlib.wholefile import ascii_clean

    idx, texts = [], []
    out = [[] for _ in bundles_obs]
    for i, (b, obs) in enumerate(bundles_obs):
        n = obs["normal"]
        sem = n.get("sem")
        if n["out"] != "returns" or not sem or "error" in sem or b.get("files") or L.count_inputs(b) is None:
            continue
        idx.append(i)
        texts.append(ascii_clean(b["main"]))
    dens = spec.denote_many(texts) if texts else []
    for i, den in zip(idx, dens):
        try:
            sem = bundles_obs[i][1]["normal"]["sem"]
            dang = []
            for k, w, n in c13sem.den_dangling(den):
                # the problem holds the target although no card of that name is in the file as MCNP splits it: the
                # disagreement is about a card's NAME (it was misread), not about the reference
                held = ("tr%d" % n in sem["data"]) if k.endswith("transform") else ("m%d" % n in sem["data"]) if k.endswith("material") else False
                dang.append(("data-card-name", w, (f"no card of that name for {k} {n}", "the problem holds one")) if held else ("dangling:" + k, w, (n, "accepted")))
            out[i] = dang + c13sem.misread(den, sem)
        except (KeyError, TypeError, ValueError, IndexError) as e:
            raise leanio.MachineryError(f"c13sem.misread failed on {bundles_obs[i][0]['main']!r}: {e!r}")
    return out


_NUM = r"[+-]?(\d+\.?\d*|\.\d+)([eE][+-]?\d+|[+-]\d+)?"


def glued_word(w):
    """a word (as MCNP splits the line: by blanks) that begins like a number but is not one number, shortcut, ZAID or
    library identifier: `1.2.3`, `4.5.5`, `.80c`"""
    w = w.lower()
    if not re.match(r"[+-]?(\d|\.\d)", w):
        return False
    if re.fullmatch(_NUM, w) or re.fullmatch(_NUM + "m", w) or re.fullmatch(r"\d*(r|i|j|ilog|log)", w):
        return False
    if re.fullmatch(r"\d{4,6}\.\d{2,3}[a-z]{1,2}", w) or re.fullmatch(r"\d+[a-z]", w):  # a ZAID has at least 4 digits
        return False
    return True


def misread_cause(fam, detail, text):
    """the root cause, when it is one of the two lexer laxities that many families share: two tokens written without
    a blank between them are read as two entries (MCNP separates entries by blanks)"""
    if fam == "mode-particles" and sorted("".join(detail[0])) == sorted("".join(detail[1])):
        return "particles-without-blank"
    for line in text.split("\n")[1:]:
        if L.is_comment_line(line):
            continue
        for w in re.split(r"[ \t=():#,]+", line.split("$")[0]):
            if w and glued_word(w):
                return "numbers-without-blank"
    return None


def misread_verdicts(kind, diffs, text=""):
    if not diffs:
        return []
    fam, where, detail = diffs[0]
    if fam.startswith("dangling:"):
        return [(
            {"mechanism": "error-policy", "corruption": kind, "class": "silently-accepted-dangling-reference", "reference": fam[9:]},
            f"the file has a dangling reference ({fam[9:]} {detail[0]} at {where}, by the independent reader), yet read_input returns a problem without error and check mode gives no warning",
        )]
    sig = {"mechanism": "error-policy", "corruption": kind, "class": "silently-misread", "what": fam}
    cause = misread_cause(fam, detail, text)
    if cause:
        sig["cause"] = cause
    return [(
        sig,
        f"read_input accepts the file without error or warning, but the returned problem does not hold what the file says: {fam} at {where}: file {detail[0]!r}, problem {detail[1:]!r}",
    )]


def judge_misread(chk, cases, observations):
    """batch the Spec, confirm each difference by re-running the case in this process, shrink, report"""
    pairs = [(c["bundle"], o) for c, o in zip(cases, observations)]
    diffs = misread_of(pairs)
    n = sum(1 for o in observations if o["normal"]["out"] == "returns")
    cand = [(case, d) for case, d in zip(cases, diffs) if d]
    # confirmation: every candidate is read again in this process; the Spec is asked once for all of them
    again = misread_of([(case["bundle"], L.run_bundle(case["bundle"])) for case, _ in cand])
    for (case, d), d2 in zip(cand, again):
        kind = case["kind"] if "+" not in case["kind"] else "double"
        if not d2 or d2[0][0] != d[0][0]:
            chk.count("flaky:violation-not-reproduced")
            continue
        sig, what = misread_verdicts(kind, d2, case["bundle"]["main"])[0]
        fam = d2[0][0]

        def fails(lines, fam=fam, case=case):
            b = {"main": "\n".join(lines) + "\n", "files": case["bundle"]["files"]}
            o = L.run_bundle(b)
            if any(v[0]["class"] != "returned-problem-not-writable" for v in L.judge(b, o, "x")):
                return False
            dd = misread_of([(b, o)])[0]
            return bool(dd) and dd[0][0] == fam

        store = chk.extra.setdefault("_seen_sigs", {})
        key = canon({k: v for k, v in sig.items() if k != "corruption"})
        bundle = case["bundle"]
        if store.get(key, 0) < 2 and not any(all(sig.get(k) == v for k, v in f["signature"].items()) for f in chk.known):
            store[key] = store.get(key, 0) + 1
            from vlib.par import shrink_list

            lines = bundle["main"].split("\n")
            if lines and lines[-1] == "":
                lines = lines[:-1]
            if len(lines) > 1 and fails(lines):
                lines = lines[:1] + shrink_list(lines[1:], lambda r: fails(lines[:1] + r))
                bundle = {"main": "\n".join(lines) + "\n", "files": bundle["files"]}
                dd = misread_of([(bundle, L.run_bundle(bundle))])[0]
                if dd:
                    sig, what = misread_verdicts(kind, dd, bundle["main"])[0]
        chk.violation(sig, what, {"bundle": bundle, "kind": case["kind"], "base": case.get("base")})
    chk.count("accepted-files-compared-with-spec", n)


def corpus_cases():
    out = []
    if os.path.isdir(CORPUS_DIR):
        for f in sorted(os.listdir(CORPUS_DIR)):
            if f.endswith(".json"):
                with open(os.path.join(CORPUS_DIR, f)) as fh:
                    data = json.load(fh)
                for c in data if isinstance(data, list) else [data]:
                    out.append({"kind": c.get("kind", "corpus"), "base": "corpus/" + f, "pos": None, "bundle": c["bundle"]})
    return out


# --------------------------------------------------------------------------- the check
def run(chk):
    chk.rule = (
        "cases are (a) single corruptions (delete / duplicate / replace a token, junk character, truncated line or token, "
        "number negated / zeroed / made non-integer / redirected, block or separator dropped or doubled, input duplicated "
        "or deleted, read target missing or corrupted) at EVERY token position of every valid tests/inputs/*.imcnp file, "
        "(b) structured single and double corruptions of generated files (dangling reference, duplicate number, per-input "
        "parse/constructor faults, once-only inputs twice, per-cell data in both blocks, reader-level faults), (c) an "
        "exception of every class injected at every guarded site. Each file is read by montepy.read_input and by "
        "parse_input(check_input=True) under a 45 s wall-clock guard. A case is non-trivial if the corrupted text "
        "differs from every other case's text (distinct = distinct canonical JSON)."
    )
    chk.assumptions = [
        "EXPLORATION, not proof: 'no internal exception escapes from any Python expression reachable from read_input' is "
        "not provable by this family without a model of CPython; it is explored by the corruption enumeration above and "
        "judged on the real code only",
        "the abstract file given to the model says which exception class is raised where inside obj_parser(input) "
        "(tools/vlib/c13gen.py RECIPES); each entry is validated by the U-errors-files correspondence of every run",
        "MT inputs follow their material in the generated files (the data loop of __update_internal_pointers iterates a "
        "list that Material.update_pointers shortens; the model ignores the skipping this can cause)",
        "FileNotFoundError raised by open() inside MCNP_InputFile.open counts as deliberate (documented result for a missing file)",
    ]
    chk.trusted_base = [
        "Lean 4.33.0 kernel",
        "translator plug-in tools/extractors/c13_errors.py (issubclass on the live classes; except lists and raise statements from the AST)",
        "hand-written model lean/MontePyVerif/Model/Errors.lean, tied to the code by Gen/Errors.lean and the three U-errors correspondences of this run",
        "harness tools/props/c13.py, tools/vlib/c13lib.py (independent line splitter, traceback/AST classification), tools/vlib/c13gen.py",
    ]
    leanio.prove(chk, "MontePyVerif.Props.C13", THEOREMS, "MontePyVerif.Errors")
    drv = leanio.Driver(chk, "drv_c13")

    # ---- correspondence 1 and 2
    if drv.ok:
        classes = check_table(chk, drv)
        check_inject(chk, drv, classes)
        check_pairing(chk, drv)

    # ---- correspondence 3 + oracle on structured files
    scases = struct_cases(chk)
    sres = pmap(run_struct, scases, chunksize=4)
    smodel = drv.batch([{"items": c["items"]} for c in scases]) if drv.ok else None
    nd = 0
    squiet = []
    for i, (case, obs) in enumerate(zip(scases, sres)):
        chk.note_case({"s": case["bundle"]["main"]}, True, sample_every=2000)
        for k in case["kind"].split("+"):
            chk.count("struct:" + k.split(":")[0])
        kind = case["kind"] if "+" not in case["kind"] else "double"
        verdicts = L.judge(case["bundle"], obs, kind)
        verdicts += judge_abandoned(case, obs)
        if verdicts:
            report_violations(chk, case, verdicts)
            if all(v[0]["class"] == "returned-problem-not-writable" for v in verdicts):
                squiet.append((case, obs))  # why it is not writable may be a reference nobody checked
            continue  # the property itself is violated here: the rest is not compared
        squiet.append((case, obs))
        if smodel is not None:
            chk.traces_validated += 1
            a = {m: project(obs[m]) for m in ("normal", "check")}
            b = {m: model_project(smodel[i][m]) for m in ("normal", "check")}
            if a != b:
                chk.disagreements_checked += 1
                obs2 = L.run_bundle(case["bundle"])
                a = {m: project(obs2[m]) for m in ("normal", "check")}
                if a == b:
                    chk.count("flaky:disagreement-not-reproduced")
                    continue
                nd += 1
                chk.broken_obligation(
                    "correspondence",
                    "U-errors-files (Model.Errors.readInput vs montepy.read_input / parse_input(check_input=True))",
                    {"impl": a, "model": b, "kind": case["kind"]},
                    {"bundle": case["bundle"], "items": case["items"], "kind": case["kind"]},
                )
        for m in ("normal", "check"):
            o = obs[m]
            chk.count(f"outcome:{m}:" + (o["out"] if o["out"] != "raises" else o["exc"]["cls"]))
    chk.units["U-errors-files"] = {"cases": len(scases), "disagreements": nd}
    judge_misread(chk, [c for c, _ in squiet], [o for _, o in squiet])

    # ---- oracle on token-level corruptions of the test inputs (exploration)
    bases = []
    nbad = 0
    for b in L.load_test_inputs():
        obs = L.run_bundle(b)
        if obs["normal"]["out"] == "returns" and not L.judge(b, obs, "none"):
            bases.append(b)
        else:
            nbad += 1
    chk.count("base-files-valid", len(bases))
    chk.count("base-files-already-bad", nbad)
    zbases, zcases = zoo_cases(chk)
    zres = pmap(judge_case, zbases, chunksize=4)
    zclean = set()
    zdiffs = misread_of([(c["bundle"], o) for c, (o, _) in zip(zbases, zres)])
    for c, (o, v), d in zip(zbases, zres, zdiffs):
        if o["normal"]["out"] == "returns" and not v and not d and not o["check"]["warnings"]:
            zclean.add(c["base"])
        else:
            chk.count("zoo-base-not-accepted:" + c["base"])
    zcases = [c for c in zcases if c["base"] in zclean]
    chk.units["malformed-stream-card-zoo"] = {
        "families": sorted({e[0] for e in G.ZOO}), "variants": len(G.ZOO), "valid_bases": len(zclean), "cases": len(zcases),
        "mutations": sorted(SYSTEMATIC), "level": "exploration (judged by the oracle on the real code; not a proof)",
    }
    rcases = [{"kind": k, "base": "ref-order", "pos": None, "bundle": {"main": t, "files": {}}} for k, t in G.ref_order_texts()]
    tcases = corpus_cases() + rcases + zcases + token_cases(chk, bases)
    if not chk.thorough:
        # the quick tier enumerates every position too, but keeps a deterministic 60 % of the cases of the larger files
        rng = chk.rng("thin")
        keep = []
        for c in tcases:
            if c["base"].startswith(("corpus/", "zoo:", "ref-order")) or len(c["bundle"]["main"]) < 700 or rng.random() < 0.33:
                keep.append(c)
        tcases = keep
    tres = pmap(judge_case, tcases, chunksize=16)
    for case, (obs, verdicts) in zip(tcases, tres):
        chk.note_case({"t": case["bundle"]}, True, sample_every=5000)
        chk.count("token:" + case["kind"].split(":")[-1])
        for m in ("normal", "check"):
            o = obs[m]
            chk.count(f"outcome:{m}:" + (o["out"] if o["out"] != "raises" else o["exc"]["cls"]))
        if verdicts:
            report_violations(chk, case, verdicts)
    quiet = [(c, o) for c, (o, v) in zip(tcases, tres) if all(x[0]["class"] == "returned-problem-not-writable" for x in v)]
    judge_misread(chk, [c for c, _ in quiet], [o for _, o in quiet])
    chk.units["exploration-token-corruptions"] = {"base_files": len(bases), "cases": len(tcases), "level": "exploration (judged by the oracle on the real code; not a proof)"}
    chk.exhaustive = False
    chk.extra.pop("_seen_sigs", None)


def replay(chk, payload):
    chk.rule = "replay of one stored case"
    if payload.get("verdict") == "no-failing-input-found":
        case = payload["no_longer_checks"][0]["case"]
    else:
        case = payload.get("case", payload)
    if "bundle" not in case:
        if "site" in case:
            drv = leanio.Driver(chk, "drv_c13")
            chk.note_case(case)
            chk.extra["replay_observation"] = run_inject(case)
            chk.add_obligation("replay", True)
            return
        raise leanio.MachineryError("replay file has no bundle")
    kind = case.get("kind", "replay")
    obs = L.run_bundle(case["bundle"])
    chk.note_case({"t": case["bundle"]})
    chk.extra["replay_observation"] = obs
    verdicts = L.judge(case["bundle"], obs, kind if "+" not in kind else "double")
    if not verdicts:
        verdicts = misread_verdicts(kind if "+" not in kind else "double", misread_of([(case["bundle"], obs)])[0], case["bundle"]["main"])
    for sig, what in verdicts:
        chk.violation(sig, what, {"bundle": case["bundle"], "kind": kind})
    if "items" in case:
        drv = leanio.Driver(chk, "drv_c13")
        if drv.ok:
            rm = drv.batch([{"items": case["items"]}])[0]
            a = {m: project(obs[m]) for m in ("normal", "check")}
            b = {m: model_project(rm[m]) for m in ("normal", "check")}
            if a != b:
                chk.broken_obligation("correspondence", "U-errors-files", {"impl": a, "model": b}, case)
    chk.add_obligation("replay", True)
