"""C14 — a rejected edit leaves the problem unchanged.

prove       : lean/MontePyVerif/Props/C14.lean (generated setters over the extracted statement order; every
              modelled mutator by case analysis / induction over its loops; later edits from state equality)
correspond  : units U-setter-gen (every property made by make_prop_val_node / make_prop_pointer, from the
              extracted declaration list) and U-setter-hand (hand-written setters and multi-step mutators):
              Model/Setter.lean vs the real call — outcome class, and the abstract state at the raise point
judge       : on the REAL code: deep snapshot (public attribute reads + bytes of write_to_file) before and
              after every rejected call must be equal; the same remaining valid edits applied to this problem
              and to a twin that never saw the rejected call must end in equal snapshots
"""

import json
import random
import shutil
import signal
import tempfile

from vlib import leanio
from vlib.core import canon as jcanon, chash
from vlib.par import pmap, shrink_list

META = {
    "property_id": "C14",
    "technique": "Lean 4 proof about an executable model of the setters (statement order of the generated "
    "templates extracted from the source); differential correspondence model vs implementation; snapshot/twin "
    "oracle on the real code",
    "design_ref": "6 C14",
}

_S = "MontePyVerif.Setter."
_C = "MontePyVerif.Collection."
THEOREMS = [
    _S + "C14_generated",
    _S + "C14_generated_code",
    _S + "C14_generated_decl",
    _S + "C14_generated_latch_refuted",
    _S + "C14_each",
    _S + "C14_equal_importance_loop",
    _S + "C14_then_valid",
    _S + "C14_rejects",
    _S + "C14_mode_set_old_refuted",
    _S + "C14_geometry_validator_atomic",
    _S + "C14_geometry_setter",
    _S + "C14_geometry_per_container_refuted",
    _S + "C14_geometry_probes",
    _C + "C14_collection",
    _C + "C14_append_renumber_atomic",
]

MODEL_ERRS = {
    "TypeError",
    "ValueError",
    "NumberConflictError",
    "KeyError",
    "ParticleTypeNotInProblem",
    "OverflowError",
}


class _Hang(Exception):
    pass


def _alarm(*a):
    raise _Hang()


# =========================================================================== the mutator table
# A mutator: name, target kind, how to call it, generators of valid / invalid argument specs, and — where the
# Lean model has it — the model operation.  Spec generators get (rng, tw, target) and return a JSON spec.

def F(x):
    return {"t": "float", "v": repr(float(x))}


def I(n):
    return {"t": "int", "v": int(n)}


def S(s):
    return {"t": "str", "v": s}


NONE = {"t": "none"}
HUGE = {"t": "huge"}
OBJ = {"t": "object"}


def B(b):
    return {"t": "bool", "v": bool(b)}


def P(name):
    return {"t": "particle", "v": name}


def LIST(*xs):
    return {"t": "list", "v": list(xs)}


def TUP(*xs):
    return {"t": "tuple", "v": list(xs)}


def REF(kind, i):
    return {"t": "ref", "kind": kind, "i": i}


def NEW(kind, n, key):
    return {"t": "new", "kind": kind, "n": n, "key": key}


def ARR(*xs):
    return {"t": "ndarray", "v": [repr(float(x)) for x in xs]}


def vfloat(rng):
    return F(rng.choice([0.0, 0.5, 1.0, 1.5, 2.0, 2.75, 10.0, 0.125, 3.0]))


def vposfloat(rng):
    return rng.choice([F(0.5), F(1.0), F(2.75), F(10.0), I(3), I(1)])


def vnum(rng):
    return rng.choice([vfloat(rng), I(rng.randint(0, 5))])


def numbers_of(tw, kind):
    return [o.number for o in tw.coll(kind)]


def free_number(rng, tw, kind):
    nums = numbers_of(tw, kind)
    return max(nums + [0]) + rng.randint(1, 6)


def taken_number(rng, tw, kind, avoid=None):
    nums = [n for n in numbers_of(tw, kind) if n != avoid and n > 0]
    return rng.choice(nums) if nums else None


def ridx(rng, tw, kind):
    return rng.randrange(max(1, len(list(tw.coll(kind)))))


def mode_names(tw):
    return sorted(q.value for q in tw.p.mode.particles)


def particle_not_in_mode(tw):
    from vlib import c14lib as L

    for q in L.PARTICLES:
        if q not in tw.p.mode.particles:
            return q.value
    return None


def number_invalid(kind):
    def collision(rng, tw, tgt):
        n = taken_number(rng, tw, kind, avoid=tgt.number)
        return I(n) if n is not None else None

    return {
        "zero": lambda rng, tw, tgt: I(0),
        "negative": lambda rng, tw, tgt: I(-rng.randint(1, 9)),
        "collision": collision,
        "wrong-type-str": lambda rng, tw, tgt: S("7"),
        "wrong-type-none": lambda rng, tw, tgt: NONE,
        "wrong-type-list": lambda rng, tw, tgt: LIST(I(7)),
    }


BOOL_INVALID = {
    "wrong-type-int": lambda rng, tw, tgt: I(1),
    "wrong-type-none": lambda rng, tw, tgt: NONE,
    "wrong-type-str": lambda rng, tw, tgt: S("True"),
}

FLOAT_INVALID = {
    "wrong-type-str": lambda rng, tw, tgt: S("1.5"),
    "wrong-type-list": lambda rng, tw, tgt: LIST(F(1.5)),
    "wrong-type-object": lambda rng, tw, tgt: OBJ,
}


def targets(tw, kind):
    """live candidate targets of a kind, in a deterministic order"""
    from vlib import c14lib as L

    m = L.montepy
    p = tw.p
    if kind in ("problem", "mode", "cells"):
        return [p]
    if kind in L.COLLS:
        objs = list(tw.coll(kind))
        if kind == "universe":
            objs = [u for u in objs if u.number != 0]
        return objs
    if kind == "geomcell":
        # `cell.geometry &= g` needs a geometry to extend (a cell appended from scratch has none)
        return [c for c in p.cells if c.geometry is not None]
    if kind == "axisplane":
        return [s for s in p.surfaces if isinstance(s, m.surfaces.axis_plane.AxisPlane)]
    if kind == "cylonaxis":
        return [s for s in p.surfaces if isinstance(s, m.surfaces.cylinder_on_axis.CylinderOnAxis)]
    if kind == "cylparaxis":
        return [s for s in p.surfaces if isinstance(s, m.surfaces.cylinder_par_axis.CylinderParAxis)]
    if kind == "component":
        return [c for mat in p.materials for c in mat.material_components.values()]
    if kind == "thermal":
        return [mat.thermal_scattering for mat in p.materials if mat.thermal_scattering is not None]
    if kind == "halfspace":
        return [c.geometry for c in p.cells if type(c.geometry) is m.surfaces.half_space.HalfSpace]
    if kind == "unithalfspace":
        out = []
        for c in p.cells:
            g = c.geometry
            while g is not None and type(g) is m.surfaces.half_space.HalfSpace:
                g = g.left
            if g is not None and not g.is_cell:
                out.append(g)
        return out
    if kind == "collection":
        return [getattr(p, a) for a in L.COLLS.values()]
    raise AssertionError(kind)


def _setattr(attr):
    return lambda tw, tgt, v: setattr(tgt, attr, v)


def _cell_index(tw, c):
    for i, o in enumerate(tw.p.cells._objects):
        if o is c:
            return i
    return None


def _index(objs, o):
    for i, x in enumerate(objs):
        if x is o:
            return i
    return None


def gobj(tw, tgt, kind_for_numbers=None):
    """abstraction of `self` for a generated setter (GObj of the model)"""
    taken = numbers_of(tw, kind_for_numbers) if kind_for_numbers else []
    return {"cls": type(tgt).__name__, "value": "none", "linked": getattr(tgt, "_problem", None) is not None, "taken": taken}


MUTATORS = {}


def mut(name, kind, call, valid, invalid, model=None, gen=None, enum_ctx="particle", valid_weight=1.0):
    MUTATORS[name] = dict(
        name=name, kind=kind, call=call, valid=valid, invalid=invalid, model=model, gen=gen, enum_ctx=enum_ctx, valid_weight=valid_weight
    )


def _build_table():
    from vlib import c14lib as L

    m = L.montepy

    # ---------------------------------------------------------------- Mode / problem
    def mode_valid(rng, tw, tgt):
        pool = ["n", "p", "e", "h"]
        k = rng.randint(1, 3)
        names = rng.sample(pool, k)
        if "n" not in names and rng.random() < 0.7:
            names[0] = "n"
        r = rng.random()
        if r < 0.4:
            return S(" ".join(names))
        if r < 0.6:
            return LIST(*[S(x) for x in names])
        if r < 0.8:
            return LIST(*[P(x.upper()) for x in names])
        return {"t": "set", "v": [P(x.upper()) for x in names]}

    mode_invalid = {
        "bad-particle-name": lambda rng, tw, tgt: rng.choice([S("n zz"), LIST(S("p"), S("zz")), S("zz"), S("p e qq")]),
        "wrong-type": lambda rng, tw, tgt: rng.choice([I(5), NONE, TUP(S("n"), S("p")), {"t": "dict"}]),
        "wrong-element-type": lambda rng, tw, tgt: rng.choice([LIST(S("p"), I(5)), LIST(P("P"), NONE), LIST(S("e"), F(1.0))]),
        "mixed-particle-and-str": lambda rng, tw, tgt: rng.choice([LIST(P("P"), S("e")), LIST(S("e"), P("P"))]),
    }
    mode_model = lambda tw, tgt, arg: {"modeSet": {"v": L.lean_val(tw, arg, "particle", words=True)}}
    mut("Mode.set", "mode", lambda tw, tgt, v: tgt.mode.set(v), mode_valid, mode_invalid, mode_model, valid_weight=0.5)
    mut("MCNP_Problem.set_mode", "mode", lambda tw, tgt, v: tgt.set_mode(v), mode_valid, mode_invalid, mode_model, valid_weight=0.3)
    mut(
        "Mode.add",
        "mode",
        lambda tw, tgt, v: tgt.mode.add(v),
        lambda rng, tw, tgt: rng.choice([S("e"), S("p"), P("H"), P("N"), S("N")]),
        {
            "bad-particle-name": lambda rng, tw, tgt: S("zz"),
            "wrong-type": lambda rng, tw, tgt: rng.choice([I(1), NONE, LIST(S("n"))]),
        },
        lambda tw, tgt, arg: {"modeAdd": {"v": L.lean_val(tw, arg)}},
        valid_weight=0.5,
    )
    mut(
        "Mode.remove",
        "mode",
        lambda tw, tgt, v: tgt.mode.remove(v),
        lambda rng, tw, tgt: (lambda ns: rng.choice([S(ns[-1].lower()), P(ns[-1])]) if len(ns) > 1 else None)(mode_names(tw)),
        {
            "not-in-mode": lambda rng, tw, tgt: (lambda q: rng.choice([P(q), S(q.lower())]) if q else None)(particle_not_in_mode(tw)),
            "bad-particle-name": lambda rng, tw, tgt: S("zz"),
            "wrong-type": lambda rng, tw, tgt: rng.choice([I(1), NONE]),
        },
        lambda tw, tgt, arg: {"modeRemove": {"v": L.lean_val(tw, arg)}},
        valid_weight=0.3,
    )

    def cells_valid(rng, tw, tgt):
        n = len(tw.p.cells)
        idx = list(range(n))
        r = rng.random()
        if r < 0.3:
            return {"t": "coll", "kind": "cell", "self": True, "v": []}
        if r < 0.6:
            rng.shuffle(idx)
        if r > 0.85 and n > 2:
            idx = idx[:-1]
        refs = [REF("cell", i) for i in idx]
        return LIST(*refs) if rng.random() < 0.6 else {"t": "coll", "kind": "cell", "v": refs}

    mut(
        "MCNP_Problem.cells",
        "problem",
        lambda tw, tgt, v: setattr(tgt, "cells", v),
        cells_valid,
        {
            "wrong-type": lambda rng, tw, tgt: rng.choice([I(3), NONE, TUP(REF("cell", 0)), S("cells")]),
            "wrong-element-type": lambda rng, tw, tgt: rng.choice(
                [LIST(REF("cell", 0), REF("surface", 0)), LIST(REF("cell", 1), I(3)), LIST(NONE)]
            ),
            "collision": lambda rng, tw, tgt: (lambda i: LIST(REF("cell", 0), REF("cell", i), REF("cell", i)))(ridx(rng, tw, "cell")),
            # a free-standing Cells whose members were renumbered to one number after it was built
            "collision-after-build": lambda rng, tw, tgt: (
                lambda n, k: {"t": "coll", "kind": "cell", "v": [NEW("cell", n, k), NEW("cell", n + 1, k + 1)], "dup": True}
            )(free_number(rng, tw, "cell"), rng.randrange(10**6)),
        },
        lambda tw, tgt, arg: {"problemCells": {"v": L.lean_val(tw, arg)}},
        valid_weight=0.3,
    )

    def mats_valid(rng, tw, tgt):
        idx = list(range(len(tw.p.materials)))
        if rng.random() < 0.5:
            rng.shuffle(idx)
        refs = [REF("material", i) for i in idx]
        return LIST(*refs) if rng.random() < 0.6 else {"t": "coll", "kind": "material", "v": refs}

    mut(
        "MCNP_Problem.materials",
        "problem",
        lambda tw, tgt, v: setattr(tgt, "materials", v),
        mats_valid,
        {
            "wrong-type": lambda rng, tw, tgt: rng.choice([I(3), NONE, TUP(), S("m")]),
            "wrong-element-type": lambda rng, tw, tgt: rng.choice([LIST(REF("material", 0), REF("cell", 0)), LIST(I(1))]),
            "collision": lambda rng, tw, tgt: LIST(REF("material", 0), REF("material", 0)),
        },
        lambda tw, tgt, arg: {"problemMaterials": {"v": L.lean_val(tw, arg)}},
        valid_weight=0.3,
    )
    mut(
        "MCNP_Problem.mcnp_version",
        "problem",
        lambda tw, tgt, v: setattr(tgt, "mcnp_version", v),
        lambda rng, tw, tgt: rng.choice([TUP(I(6), I(2), I(0)), TUP(I(6), I(1), I(0)), TUP(I(5), I(1), I(60)), TUP(I(6), I(3), I(0))]),
        {
            "too-old": lambda rng, tw, tgt: rng.choice([TUP(I(5), I(1), I(59)), TUP(I(4), I(0), I(0)), TUP(I(5), I(1))]),
            "wrong-type": lambda rng, tw, tgt: rng.choice([S("6.2"), NONE, LIST(I(6), I(2), I(0)), F(6.2)]),
        },
        lambda tw, tgt, arg: {"mcnpVersion": {"v": L.lean_val(tw, arg)}},
        valid_weight=0.5,
    )
    mut(
        "MCNP_Problem.title",
        "problem",
        lambda tw, tgt, v: setattr(tgt, "title", v),
        lambda rng, tw, tgt: S(rng.choice(["a new title", "C14 twin", "x"])),
        {"wrong-type": lambda rng, tw, tgt: rng.choice([I(5), NONE, LIST(S("t"))])},
        valid_weight=0.4,
    )

    def pidb_call(tw, tgt, v):
        tgt.print_in_data_block[v[0]] = v[1]

    mut(
        "print_in_data_block.__setitem__",
        "problem",
        pidb_call,
        lambda rng, tw, tgt: TUP(S(rng.choice(["imp", "vol", "IMP", "U", "fill", "lat"])), B(rng.random() < 0.5)),
        {
            "wrong-type": lambda rng, tw, tgt: rng.choice([TUP(S("imp"), I(1)), TUP(S("vol"), NONE), TUP(I(1), B(True))]),
            "structurally-illegal": lambda rng, tw, tgt: TUP(S("notacard"), B(True)),
        },
        valid_weight=0.4,
    )

    # ---------------------------------------------------------------- Cells collection
    def sei_call(tw, tgt, v):
        tgt.cells.set_equal_importance(v[0], v[1])

    def vac_valid(rng, tw):
        nums = numbers_of(tw, "cell")
        k = rng.randint(0, min(2, len(nums)))
        picks = rng.sample(range(len(nums)), k)
        xs = [I(nums[i]) if rng.random() < 0.5 else REF("cell", i) for i in picks]
        kind = rng.choice(["list", "tuple", "list"])
        return {"t": kind, "v": xs}

    mut(
        "Cells.set_equal_importance",
        "cells",
        sei_call,
        lambda rng, tw, tgt: TUP(vnum(rng), vac_valid(rng, tw)),
        {
            "negative": lambda rng, tw, tgt: TUP(F(-1.0), vac_valid(rng, tw)),
            "wrong-type-str": lambda rng, tw, tgt: TUP(S("2"), vac_valid(rng, tw)),
            "wrong-type-none": lambda rng, tw, tgt: TUP(NONE, vac_valid(rng, tw)),
            "out-of-range-huge": lambda rng, tw, tgt: TUP(HUGE, vac_valid(rng, tw)),
            "vacuum-wrong-type": lambda rng, tw, tgt: TUP(vnum(rng), rng.choice([I(numbers_of(tw, "cell")[0]), {"t": "dict"}, NONE])),
            "vacuum-wrong-element-type": lambda rng, tw, tgt: TUP(vnum(rng), LIST(REF("cell", 0), rng.choice([S("1"), REF("surface", 0), NONE]))),
            "vacuum-no-such-cell": lambda rng, tw, tgt: TUP(vnum(rng), LIST(I(numbers_of(tw, "cell")[-1]), I(free_number(rng, tw, "cell")))),
        },
        lambda tw, tgt, arg: {"setEqualImportance": {"v": L.lean_val(tw, arg["v"][0]), "vacuum": L.lean_val(tw, arg["v"][1])}},
        valid_weight=0.6,
    )
    mut(
        "Cells.allow_mcnp_volume_calc",
        "cells",
        lambda tw, tgt, v: setattr(tgt.cells, "allow_mcnp_volume_calc", v),
        lambda rng, tw, tgt: B(rng.random() < 0.5),
        BOOL_INVALID,
        valid_weight=0.3,
    )

    # ---------------------------------------------------------------- collection mutators (model: C06)
    def kind_of_coll(tw, coll):
        for k, a in L.COLLS.items():
            if getattr(tw.p, a) is coll:
                return k

    def other_kind(k):
        return {"cell": "surface", "surface": "cell", "material": "transform", "transform": "material", "universe": "cell"}[k]

    def newobj(rng, tw, coll, taken=False, other=False):
        k = kind_of_coll(tw, coll)
        key = rng.randrange(10**6)
        if other:
            return NEW(other_kind(k), free_number(rng, tw, other_kind(k)), key)
        n = taken_number(rng, tw, k) if taken else free_number(rng, tw, k)
        if n is None:
            return None
        return NEW(k, n, key)

    def coll_mut(name, call, valid, invalid, w=0.25):
        mut("Collection." + name, "collection", call, valid, invalid, valid_weight=w)

    coll_mut(
        "append",
        lambda tw, tgt, v: tgt.append(v),
        lambda rng, tw, tgt: newobj(rng, tw, tgt),
        {
            "collision": lambda rng, tw, tgt: newobj(rng, tw, tgt, taken=True),
            "wrong-type": lambda rng, tw, tgt: rng.choice([newobj(rng, tw, tgt, other=True), I(3), NONE]),
            "already-member": lambda rng, tw, tgt: REF(kind_of_coll(tw, tgt), ridx(rng, tw, kind_of_coll(tw, tgt))),
        },
    )
    coll_mut(
        "__setitem__",
        lambda tw, tgt, v: tgt.__setitem__(v[0], v[1]),
        lambda rng, tw, tgt: (lambda o: TUP(I(o["n"]), o))(newobj(rng, tw, tgt)),
        {
            "collision": lambda rng, tw, tgt: (lambda o: TUP(I(o["n"]), o) if o else None)(newobj(rng, tw, tgt, taken=True)),
            "wrong-type-key": lambda rng, tw, tgt: TUP(S("1"), newobj(rng, tw, tgt)),
            "wrong-type": lambda rng, tw, tgt: TUP(I(99), newobj(rng, tw, tgt, other=True)),
        },
    )
    for nm, fn in (("extend", lambda tw, tgt, v: tgt.extend(v)), ("__iadd__", lambda tw, tgt, v: tgt.__iadd__(v))):
        coll_mut(
            nm,
            fn,
            lambda rng, tw, tgt: (lambda a, b: LIST(a, b) if a["n"] != b["n"] else LIST(a))(newobj(rng, tw, tgt), newobj(rng, tw, tgt)),
            {
                "collision-with-member": lambda rng, tw, tgt: (lambda a, b: LIST(a, b) if b else None)(newobj(rng, tw, tgt), newobj(rng, tw, tgt, taken=True)),
                "collision-inside-list": lambda rng, tw, tgt: (lambda a: LIST(a, NEW(a["kind"], a["n"], a["key"] + 1)))(newobj(rng, tw, tgt)),
                "wrong-element-type": lambda rng, tw, tgt: LIST(newobj(rng, tw, tgt), rng.choice([newobj(rng, tw, tgt, other=True), I(1)])),
                "wrong-type": lambda rng, tw, tgt: rng.choice([I(1), NONE, TUP(newobj(rng, tw, tgt))]),
            },
        )
    coll_mut(
        "append_renumber",
        lambda tw, tgt, v: tgt.append_renumber(v[0], v[1]),
        lambda rng, tw, tgt: TUP(newobj(rng, tw, tgt, taken=rng.random() < 0.6) or newobj(rng, tw, tgt), I(rng.choice([1, 1, 2, 5]))),
        {
            "zero-step": lambda rng, tw, tgt: (lambda o: TUP(o, I(0)) if o else None)(newobj(rng, tw, tgt, taken=True)),
            "no-positive-number-left": lambda rng, tw, tgt: (lambda o: TUP(o, I(-10**6)) if o else None)(newobj(rng, tw, tgt, taken=True)),
            "wrong-type-step": lambda rng, tw, tgt: TUP(newobj(rng, tw, tgt), rng.choice([S("1"), F(1.0), NONE])),
            "wrong-type": lambda rng, tw, tgt: TUP(rng.choice([newobj(rng, tw, tgt, other=True), I(3)]), I(1)),
        },
    )
    coll_mut(
        "remove",
        lambda tw, tgt, v: tgt.remove(v),
        lambda rng, tw, tgt: None,  # valid removals are left to pop/delitem of fresh objects: keep the problem writable
        {"not-a-member": lambda rng, tw, tgt: rng.choice([newobj(rng, tw, tgt), I(3)])},
        w=0.0,
    )
    coll_mut(
        "__delitem__",
        lambda tw, tgt, v: tgt.__delitem__(v),
        lambda rng, tw, tgt: None,
        {
            "no-such-number": lambda rng, tw, tgt: I(free_number(rng, tw, kind_of_coll(tw, tgt))),
            "wrong-type": lambda rng, tw, tgt: rng.choice([S("1"), NONE, F(1.0)]),
        },
        w=0.0,
    )
    coll_mut(
        "pop",
        lambda tw, tgt, v: tgt.pop(v),
        lambda rng, tw, tgt: None,
        {
            "index-out-of-range": lambda rng, tw, tgt: I(len(tgt) + rng.randint(0, 3)),
            "wrong-type": lambda rng, tw, tgt: rng.choice([S("0"), F(0.0), NONE]),
        },
        w=0.0,
    )
    coll_mut(
        "request_number/next_number/check_number",
        lambda tw, tgt, v: getattr(tgt, v[0])(*v[1:]),
        lambda rng, tw, tgt: rng.choice([TUP(S("request_number"), I(1), I(1)), TUP(S("next_number"), I(2)), TUP(S("check_number"), I(free_number(rng, tw, kind_of_coll(tw, tgt))))]),
        {
            "zero-step": lambda rng, tw, tgt: rng.choice([TUP(S("request_number"), I(numbers_of(tw, kind_of_coll(tw, tgt))[0] if len(tgt) else 1), I(0)), TUP(S("next_number"), I(0))]),
            "collision": lambda rng, tw, tgt: (lambda n: TUP(S("check_number"), I(n)) if n else None)(taken_number(rng, tw, kind_of_coll(tw, tgt))),
            "wrong-type": lambda rng, tw, tgt: rng.choice([TUP(S("request_number"), S("1"), I(1)), TUP(S("next_number"), F(1.0)), TUP(S("check_number"), S("1"))]),
        },
        w=0.2,
    )

    # ---------------------------------------------------------------- Cell
    def gen_model(cls, prop, numbers=None, enum_ctx="particle"):
        def f(tw, tgt, arg, self_obj=None):
            return {
                "unit": "gen",
                "cls": cls,
                "prop": prop,
                "self": gobj(tw, self_obj if self_obj is not None else tgt, numbers),
                "arg": L.lean_atom(tw, arg, enum_ctx),
            }

        return f

    for kind, cls in (("cell", "Cell"), ("surface", "Surface"), ("material", "Material"), ("transform", "Transform")):
        mut(
            f"{cls}.number",
            kind,
            _setattr("number"),
            (lambda kind: lambda rng, tw, tgt: I(free_number(rng, tw, kind)))(kind),
            number_invalid(kind),
            gen=gen_model(cls, "number", kind),
            valid_weight=0.6,
        )
    mut(
        "Cell.material",
        "cell",
        _setattr("material"),
        lambda rng, tw, tgt: REF("material", ridx(rng, tw, "material")),
        {
            "wrong-type-int": lambda rng, tw, tgt: I(1),
            "wrong-type-str": lambda rng, tw, tgt: S("m1"),
            "wrong-type-object": lambda rng, tw, tgt: REF("surface", 0),
        },
        gen=gen_model("Cell", "material"),
        valid_weight=0.4,
    )
    # ------------------------------------------------------------ geometry edits (one validator, five doors)
    def GEOM(tree):
        return {"t": "geom", "g": tree}

    def AND(a, b):
        return {"and": [a, b]}

    def OR(a, b):
        return {"or": [a, b]}

    def key(rng):
        return rng.randrange(10**6)

    def owner_of(tw, tgt):
        """the cell a geometry target belongs to (the target itself for `Cell.geometry`)"""
        if isinstance(tgt, m.Cell):
            return tgt
        for c in tw.p.cells:
            if c.geometry is tgt:
                return c
        return None

    def other_cell(rng, tw, c, in_complements=False):
        idx = [i for i, o in enumerate(tw.p.cells) if o is not c and (any(o is x for x in c.complements) == in_complements)]
        return REF("cell", rng.choice(idx)) if idx else None

    def surf_leaf(rng, spec):
        return {"s": spec, "side": rng.random() < 0.5}

    def new_surface(rng, tw):
        return NEW(rng.choice(["surface", "cylinder"]), free_number(rng, tw, "surface"), key(rng))

    def colliding_surface(rng, tw, c):
        """a copy that was never renumbered: another Surface object with the number of a surface of the cell"""
        nums = [x.number for x in c.surfaces]
        return NEW("surface", rng.choice(nums), key(rng)) if nums else None

    def mix(rng, a, b):
        """both orders and both operators: the validator sees the leaves, not the tree"""
        if a is None or b is None:
            return None
        if rng.random() < 0.5:
            a, b = b, a
        return (AND if rng.random() < 0.7 else OR)(a, b)

    def g_valid(rng, tw, tgt):
        c = owner_of(tw, tgt)
        ns = len(tw.p.surfaces)
        if c is None or ns < 2:
            return None
        i, j = rng.sample(range(ns), 2)
        tree = mix(rng, surf_leaf(rng, REF("surface", i)), surf_leaf(rng, REF("surface", j)))
        r = rng.random()
        if r < 0.35:
            oc = other_cell(rng, tw, c, in_complements=rng.random() < 0.3) or other_cell(rng, tw, c)
            if oc is not None:
                tree = mix(rng, tree, {"c": oc})
        elif r < 0.55:
            tree = mix(rng, tree, surf_leaf(rng, new_surface(rng, tw)))
        return GEOM(tree)

    def g_invalid(f):
        def gen(rng, tw, tgt):
            c = owner_of(tw, tgt)
            if c is None:
                return None
            tree = f(rng, tw, c)
            return GEOM(tree) if tree is not None else None

        return gen

    def _complement(spec):
        return {"c": spec} if spec is not None else None

    def _colliding_complement(rng, tw, c):
        nums = [x.number for x in c.complements]
        return {"c": NEW("cell", rng.choice(nums), key(rng))} if nums else None

    def _two_sharing(rng, kind, n):
        k = key(rng)
        mk = (lambda kk: {"c": NEW("cell", n, kk)}) if kind == "cell" else (lambda kk: surf_leaf(rng, NEW("surface", n, kk)))
        return AND(mk(k), mk(k + 1))

    def _leaf_or_none(rng, spec):
        return surf_leaf(rng, spec) if spec is not None else None

    GEOM_COMPOSITE = {
        # invalid for one reason while bringing valid new children of the other kind
        "new-complement+colliding-surface-copy": g_invalid(
            lambda rng, tw, c: mix(rng, _complement(other_cell(rng, tw, c)), _leaf_or_none(rng, colliding_surface(rng, tw, c)))
        ),
        "new-surface+complement-of-colliding-cell": g_invalid(
            lambda rng, tw, c: mix(rng, surf_leaf(rng, new_surface(rng, tw)), _colliding_complement(rng, tw, c))
        ),
        "new-complement+two-new-surfaces-sharing-a-number": g_invalid(
            lambda rng, tw, c: mix(rng, _complement(other_cell(rng, tw, c)), _two_sharing(rng, "surface", free_number(rng, tw, "surface")))
        ),
        "new-surface+two-new-complements-sharing-a-number": g_invalid(
            lambda rng, tw, c: mix(rng, surf_leaf(rng, new_surface(rng, tw)), _two_sharing(rng, "cell", free_number(rng, tw, "cell")))
        ),
        # a leaf of the wrong kind deep inside a tree whose other leaves are new
        "new-complement+cell-as-surface-divider": g_invalid(
            lambda rng, tw, c: (lambda a, b: AND(a, {"raw": b["c"], "side": True, "cell": False}) if a and b else None)(
                _complement(other_cell(rng, tw, c)), _complement(other_cell(rng, tw, c))
            )
        ),
        "new-leaves+surface-as-cell-divider": g_invalid(
            lambda rng, tw, c: (lambda a: AND(AND(a, surf_leaf(rng, new_surface(rng, tw))), {"raw": REF("surface", ridx(rng, tw, "surface")), "side": True, "cell": True}) if a else None)(
                _complement(other_cell(rng, tw, c))
            )
        ),
        "new-leaves+unresolved-int-divider": g_invalid(
            lambda rng, tw, c: (lambda a: AND(AND(a, surf_leaf(rng, new_surface(rng, tw))), {"raw": I(rng.randint(1, 9)), "side": True, "cell": rng.random() < 0.3}) if a else None)(
                _complement(other_cell(rng, tw, c))
            )
        ),
    }
    GEOM_WRONG_TYPE = {
        "wrong-type-int": lambda rng, tw, tgt: I(1),
        "wrong-type-str": lambda rng, tw, tgt: S("-1 2"),
        "wrong-type-none": lambda rng, tw, tgt: NONE,
        "wrong-type-surface": lambda rng, tw, tgt: REF("surface", 0),
    }

    def geom_model(ctor, gen_cls=None, gen_prop=None):
        """geometry arguments go to the hand-written model of the validator; wrong-type atoms of a generated
        property go to the generated-setter model"""

        def f(tw, tgt, arg):
            c = owner_of(tw, tgt)
            if arg["t"] == "geom":
                if c is None:
                    return None
                return {ctor: {"c": _cell_index(tw, c), "v": L.lean_geom(tw, arg, c)}}
            if gen_cls is not None:
                return gen_model(gen_cls, gen_prop)(tw, tgt, arg)
            if c is None:
                return None
            return {ctor: {"c": _cell_index(tw, c), "v": L.lean_val(tw, arg)}}

        return f

    mut(
        "Cell.geometry",
        "cell",
        _setattr("geometry"),
        g_valid,
        dict(GEOM_WRONG_TYPE, **GEOM_COMPOSITE),
        geom_model("cellGeometry", "Cell", "geometry"),
        valid_weight=0.5,
    )

    def _iand(tw, tgt, v):
        tgt.geometry &= v

    def _ior(tw, tgt, v):
        tgt.geometry |= v

    for nm, fn in (("Cell.geometry&=", _iand), ("Cell.geometry|=", _ior)):
        mut(nm, "geomcell", fn, g_valid, dict(GEOM_WRONG_TYPE, **GEOM_COMPOSITE), geom_model("geomChild"), valid_weight=0.25)
    dens_invalid = dict(
        FLOAT_INVALID,
        **{
            "negative": lambda rng, tw, tgt: rng.choice([F(-1.0), I(-2)]),
            "wrong-type-none": lambda rng, tw, tgt: NONE,
            "out-of-range-huge": lambda rng, tw, tgt: HUGE,
        },
    )
    for attr, ctor in (("atom_density", "atomDensity"), ("mass_density", "massDensity")):
        mut(
            "Cell." + attr,
            "cell",
            _setattr(attr),
            lambda rng, tw, tgt: vposfloat(rng),
            dens_invalid,
            (lambda ctor: lambda tw, tgt, arg: {ctor: {"c": _cell_index(tw, tgt), "v": L.lean_val(tw, arg)}})(ctor),
            valid_weight=0.7,
        )
    mut(
        "Cell.universe",
        "cell",
        _setattr("universe"),
        lambda rng, tw, tgt: REF("universe", ridx(rng, tw, "universe")),
        {
            "wrong-type-int": lambda rng, tw, tgt: I(1),
            "wrong-type-none": lambda rng, tw, tgt: NONE,
            "wrong-type-object": lambda rng, tw, tgt: REF("cell", 0),
        },
        lambda tw, tgt, arg: {"cellUniverse": {"c": _cell_index(tw, tgt), "v": L.lean_val(tw, arg)}},
        valid_weight=0.5,
    )
    mut(
        "Cell.not_truncated",
        "cell",
        _setattr("not_truncated"),
        lambda rng, tw, tgt: B(tgt.universe.number != 0 and rng.random() < 0.6),
        dict(BOOL_INVALID, **{"structurally-illegal-universe-0": lambda rng, tw, tgt: B(True) if tgt.universe.number == 0 else None}),
        lambda tw, tgt, arg: {"notTruncated": {"c": _cell_index(tw, tgt), "v": L.lean_val(tw, arg)}},
        valid_weight=0.5,
    )
    mut(
        "Cell.lattice",
        "cell",
        _setattr("lattice"),
        lambda rng, tw, tgt: rng.choice([I(1), I(2), {"t": "enum", "cls": "Lattice", "v": 1}, {"t": "enum", "cls": "Lattice", "v": 2}]) if tgt.lattice is not None else None,
        {
            "out-of-range": lambda rng, tw, tgt: I(rng.choice([0, 3, -1])),
            "wrong-type-str": lambda rng, tw, tgt: S("hex"),
            "wrong-type-float": lambda rng, tw, tgt: F(1.0),
        },
        gen=lambda tw, tgt, arg: gen_model("LatticeInput", "lattice")(tw, tgt, arg, tgt._lattice),
        valid_weight=0.4,
    )
    mut(
        "Cell.volume",
        "cell",
        _setattr("volume"),
        lambda rng, tw, tgt: vposfloat(rng),
        dict(
            FLOAT_INVALID,
            **{
                "negative": lambda rng, tw, tgt: rng.choice([F(-1.0), I(-2)]),
                # `cell.volume = None` is accepted since the repair of volume._ensure_positive (it unsets the volume)
                "out-of-range-huge": lambda rng, tw, tgt: HUGE,
            },
        ),
        gen=lambda tw, tgt, arg: gen_model("Volume", "volume")(tw, tgt, arg, tgt._volume),
        valid_weight=0.6,
    )
    mut(
        "Cell.parameters",
        "cell",
        _setattr("parameters"),
        lambda rng, tw, tgt: None,
        {"wrong-type": lambda rng, tw, tgt: rng.choice([LIST(), NONE, S("x")])},
        valid_weight=0.0,
    )

    # ---------------------------------------------------------------- Importance
    def imp_set_call(tw, tgt, v):
        tgt.importance[v[0]] = v[1]

    def in_mode(rng, tw):
        return rng.choice(mode_names(tw))

    imp_value_invalid = {
        "negative": lambda rng: rng.choice([F(-0.5), I(-1)]),
        "wrong-type-str": lambda rng: S("1"),
        "wrong-type-none": lambda rng: NONE,
        "wrong-type-list": lambda rng: LIST(F(1.0)),
    }
    inv = {k: (lambda f: lambda rng, tw, tgt: TUP(P(in_mode(rng, tw)), f(rng)))(f) for k, f in imp_value_invalid.items()}
    inv["particle-not-in-mode"] = lambda rng, tw, tgt: (lambda q: TUP(P(q), vnum(rng)) if q else None)(particle_not_in_mode(tw))
    inv["wrong-type-key"] = lambda rng, tw, tgt: TUP(rng.choice([S("n"), I(0), NONE]), vnum(rng))
    mut(
        "Importance.__setitem__",
        "cell",
        imp_set_call,
        lambda rng, tw, tgt: TUP(P(in_mode(rng, tw)), vnum(rng)),
        inv,
        lambda tw, tgt, arg: {"impSet": {"cell": _cell_index(tw, tgt), "particle": L.lean_val(tw, arg["v"][0]), "v": L.lean_val(tw, arg["v"][1])}},
        valid_weight=1.0,
    )

    def imp_attr_call(tw, tgt, v):
        setattr(tgt.importance, L.Particle(v[0]).name.lower(), v[1])

    inv2 = {k: (lambda f: lambda rng, tw, tgt: TUP(S(in_mode(rng, tw)), f(rng)))(f) for k, f in imp_value_invalid.items()}
    inv2["particle-not-in-mode"] = lambda rng, tw, tgt: (lambda q: TUP(S(q), vnum(rng)) if q else None)(particle_not_in_mode(tw))
    mut(
        "Importance.<particle>",
        "cell",
        imp_attr_call,
        lambda rng, tw, tgt: TUP(S(in_mode(rng, tw)), vnum(rng)),
        inv2,
        lambda tw, tgt, arg: {
            "impSet": {"cell": _cell_index(tw, tgt), "particle": {"atom": {"a": {"particle": {"p": L.PIDX[L.Particle(arg["v"][0]["v"])]}}}}, "v": L.lean_val(tw, arg["v"][1])}
        },
        valid_weight=0.8,
    )
    mut(
        "Importance.all",
        "cell",
        lambda tw, tgt, v: setattr(tgt.importance, "all", v),
        lambda rng, tw, tgt: vnum(rng),
        {
            "negative": lambda rng, tw, tgt: rng.choice([F(-0.5), I(-1)]),
            "wrong-type-str": lambda rng, tw, tgt: S("1"),
            "wrong-type-none": lambda rng, tw, tgt: NONE,
            "out-of-range-huge": lambda rng, tw, tgt: HUGE,
        },
        lambda tw, tgt, arg: {"impAll": {"cell": _cell_index(tw, tgt), "v": L.lean_val(tw, arg)}},
        valid_weight=0.8,
    )

    def imp_del_call(tw, tgt, v):
        del tgt.importance[v]

    mut(
        "Importance.__delitem__",
        "cell",
        imp_del_call,
        lambda rng, tw, tgt: None,
        {
            "no-such-particle": lambda rng, tw, tgt: (lambda q: P(q) if q else None)(particle_not_in_mode(tw)),
            "wrong-type-key": lambda rng, tw, tgt: rng.choice([S("n"), I(0), NONE]),
        },
        lambda tw, tgt, arg: {"impDel": {"cell": _cell_index(tw, tgt), "particle": L.lean_val(tw, arg)}},
        valid_weight=0.0,
    )

    # ---------------------------------------------------------------- Fill
    def fill_mut(attr, ctor, valid, invalid, w):
        mut(
            "Fill." + attr,
            "cell",
            lambda tw, tgt, v: setattr(tgt.fill, attr, v),
            valid,
            invalid,
            lambda tw, tgt, arg: {ctor: {"c": _cell_index(tw, tgt), "v": L.lean_val(tw, arg)}},
            valid_weight=w,
        )

    fill_mut(
        "universe",
        "fillUniverse",
        lambda rng, tw, tgt: (REF("universe", ridx(rng, tw, "universe")) if tgt.fill.universe is not None else None) if not tgt.fill.multiple_universes else None,
        {
            "wrong-type-int": lambda rng, tw, tgt: I(1),
            "wrong-type-str": lambda rng, tw, tgt: S("u"),
            "wrong-type-object": lambda rng, tw, tgt: REF("cell", 0),
            "structurally-illegal-multiple": lambda rng, tw, tgt: REF("universe", 0) if tgt.fill.multiple_universes else None,
        },
        0.5,
    )
    fill_mut(
        "universes",
        "fillUniverses",
        lambda rng, tw, tgt: None,
        {
            "wrong-type-list": lambda rng, tw, tgt: LIST(REF("universe", 0)),
            "wrong-type-int": lambda rng, tw, tgt: I(1),
            "structurally-illegal-single": lambda rng, tw, tgt: ARR(1, 2) if not tgt.fill.multiple_universes else None,
        },
        0.0,
    )
    fill_mut(
        "multiple_universes",
        "fillMultiple",
        # never switched on (the cell would need a universes array); sometimes switched off, which uncovers `_universe`
        lambda rng, tw, tgt: B(rng.random() < 0.6) if tgt.fill.multiple_universes else B(False),
        BOOL_INVALID,
        0.3,
    )
    fill_mut(
        "transform",
        "fillTransform",
        lambda rng, tw, tgt: rng.choice([REF("transform", ridx(rng, tw, "transform")), NONE]) if tgt.fill.universe is not None and len(tw.p.transforms) else None,
        {
            "wrong-type-int": lambda rng, tw, tgt: I(1),
            "wrong-type-str": lambda rng, tw, tgt: S("tr1"),
            "wrong-type-object": lambda rng, tw, tgt: REF("surface", 0),
        },
        0.5,
    )

    # ---------------------------------------------------------------- Surface
    def surf_model(ctor):
        return lambda tw, tgt, arg: {ctor: {"s": _index(tw.p.surfaces._objects, tgt), "v": L.lean_val(tw, arg)}}

    mut("Surface.is_reflecting", "surface", _setattr("is_reflecting"), lambda rng, tw, tgt: B(rng.random() < 0.5), BOOL_INVALID, surf_model("isReflecting"), valid_weight=0.4)
    mut("Surface.is_white_boundary", "surface", _setattr("is_white_boundary"), lambda rng, tw, tgt: B(rng.random() < 0.3), BOOL_INVALID, surf_model("isWhite"), valid_weight=0.3)

    def consts_valid(rng, tw, tgt):
        return LIST(*[F(float(x) + rng.choice([0.0, 0.5, 1.0])) for x in tgt.surface_constants])

    mut(
        "Surface.surface_constants",
        "surface",
        _setattr("surface_constants"),
        consts_valid,
        {
            "list-of-wrong-length": lambda rng, tw, tgt: LIST(*([F(1.0)] * (len(tgt.surface_constants) + rng.choice([1, -1])))),
            "wrong-element-type-int": lambda rng, tw, tgt: LIST(*([F(1.0)] * (len(tgt.surface_constants) - 1) + [I(2)])),
            "wrong-element-type-str": lambda rng, tw, tgt: LIST(*([F(2.0)] * (len(tgt.surface_constants) - 1) + [S("2.0")])),
            "wrong-type": lambda rng, tw, tgt: rng.choice([TUP(*[F(1.0)] * len(tgt.surface_constants)), NONE, F(1.0)]),
        },
        surf_model("surfaceConstants"),
        valid_weight=0.7,
    )
    mut(
        "Surface.surface_type",
        "surface",
        _setattr("surface_type"),
        lambda rng, tw, tgt: None,
        {
            "bad-mnemonic": lambda rng, tw, tgt: S("QQ"),
            "wrong-type-int": lambda rng, tw, tgt: I(1),
            "wrong-type-none": lambda rng, tw, tgt: NONE,
        },
        gen=gen_model("Surface", "surface_type", enum_ctx="surftype"),
        enum_ctx="surftype",
        valid_weight=0.0,
    )

    def same_class_surface(rng, tw, tgt, same=True):
        idx = [i for i, s in enumerate(tw.p.surfaces) if (isinstance(s, type(tgt)) == same) and s is not tgt]
        return REF("surface", rng.choice(idx)) if idx else None

    mut(
        "Surface.periodic_surface",
        "surface",
        _setattr("periodic_surface"),
        lambda rng, tw, tgt: same_class_surface(rng, tw, tgt) if type(tgt).__name__ == "AxisPlane" else None,
        {
            "wrong-type-int": lambda rng, tw, tgt: I(2),
            "wrong-type-none": lambda rng, tw, tgt: NONE,
            "wrong-class-surface": lambda rng, tw, tgt: same_class_surface(rng, tw, tgt, same=False) if type(tgt).__name__ != "Surface" else None,
        },
        gen=gen_model("Surface", "periodic_surface"),
        valid_weight=0.2,
    )
    mut(
        "Surface.transform",
        "surface",
        _setattr("transform"),
        lambda rng, tw, tgt: REF("transform", ridx(rng, tw, "transform")) if len(tw.p.transforms) else None,
        {
            "wrong-type-int": lambda rng, tw, tgt: I(1),
            "wrong-type-none": lambda rng, tw, tgt: NONE,
            "wrong-type-object": lambda rng, tw, tgt: REF("surface", 0),
        },
        gen=gen_model("Surface", "transform"),
        valid_weight=0.3,
    )
    mut(
        "AxisPlane.location",
        "axisplane",
        _setattr("location"),
        lambda rng, tw, tgt: rng.choice([vfloat(rng), I(rng.randint(-3, 3)), F(-2.5)]),
        dict(FLOAT_INVALID, **{"wrong-type-none": lambda rng, tw, tgt: NONE, "out-of-range-huge": lambda rng, tw, tgt: HUGE}),
        gen=gen_model("AxisPlane", "location"),
        valid_weight=0.7,
    )
    for kind, cls in (("cylonaxis", "CylinderOnAxis"), ("cylparaxis", "CylinderParAxis")):
        mut(
            cls + ".radius",
            kind,
            _setattr("radius"),
            lambda rng, tw, tgt: vposfloat(rng),
            dict(
                FLOAT_INVALID,
                **{
                    "negative": lambda rng, tw, tgt: rng.choice([F(-1.0), I(-1)]),
                    "wrong-type-none": lambda rng, tw, tgt: NONE,
                    "out-of-range-huge": lambda rng, tw, tgt: HUGE,
                },
            ),
            gen=gen_model(cls, "radius"),
            valid_weight=0.7,
        )
    mut(
        "CylinderParAxis.coordinates",
        "cylparaxis",
        _setattr("coordinates"),
        lambda rng, tw, tgt: rng.choice([LIST(vfloat(rng), vfloat(rng)), TUP(vfloat(rng), I(rng.randint(0, 4)))]),
        {
            "list-of-wrong-length": lambda rng, tw, tgt: rng.choice([LIST(F(1.0)), LIST(F(1.0), F(2.0), F(3.0)), LIST()]),
            "wrong-element-type": lambda rng, tw, tgt: rng.choice([LIST(F(1.0), S("2")), LIST(NONE, F(1.0))]),
            "wrong-type": lambda rng, tw, tgt: rng.choice([NONE, F(1.0), {"t": "set", "v": [F(1.0), F(2.0)]}]),
        },
        surf_model("coordinates"),
        valid_weight=0.7,
    )

    # ---------------------------------------------------------------- Material
    mut(
        "MaterialComponent.fraction",
        "component",
        _setattr("fraction"),
        lambda rng, tw, tgt: rng.choice([F(0.5), F(0.25), I(2), F(3.0)]),
        dict(
            FLOAT_INVALID,
            **{
                "zero": lambda rng, tw, tgt: rng.choice([F(0.0), I(0)]),
                "negative": lambda rng, tw, tgt: F(-0.5),
                "wrong-type-none": lambda rng, tw, tgt: NONE,
                "out-of-range-huge": lambda rng, tw, tgt: HUGE,
            },
        ),
        gen=gen_model("MaterialComponent", "fraction"),
        valid_weight=0.7,
    )
    mut(
        "Material.thermal_scattering",
        "material",
        _setattr("thermal_scattering"),
        lambda rng, tw, tgt: None,
        {
            "wrong-type-str": lambda rng, tw, tgt: S("lwtr.20t"),
            "wrong-type-none": lambda rng, tw, tgt: NONE,
            "wrong-type-int": lambda rng, tw, tgt: I(1),
        },
        gen=gen_model("Material", "thermal_scattering"),
        valid_weight=0.0,
    )
    mut(
        "Material.add_thermal_scattering",
        "material",
        lambda tw, tgt, v: tgt.add_thermal_scattering(v),
        lambda rng, tw, tgt: None,
        {"wrong-type": lambda rng, tw, tgt: rng.choice([I(1), NONE, LIST(S("lwtr.20t"))])},
        valid_weight=0.0,
    )
    mut(
        "ThermalScatteringLaw.thermal_scattering_laws",
        "thermal",
        _setattr("thermal_scattering_laws"),
        lambda rng, tw, tgt: LIST(S(rng.choice(["lwtr.20t", "lwtr.23t", "grph.20t"]))),
        {
            "wrong-type": lambda rng, tw, tgt: rng.choice([S("lwtr.20t"), NONE, TUP(S("lwtr.20t"))]),
            "wrong-element-type": lambda rng, tw, tgt: rng.choice([LIST(S("grph.20t"), I(1)), LIST(NONE)]),
        },
        valid_weight=0.4,
    )

    # ---------------------------------------------------------------- Transform
    for attr in ("is_in_degrees", "is_main_to_aux"):
        mut("Transform." + attr, "transform", _setattr(attr), lambda rng, tw, tgt: B(rng.random() < 0.5), BOOL_INVALID, gen=gen_model("Transform", attr), valid_weight=0.3)

    def tr_model(ctor):
        return lambda tw, tgt, arg: {ctor: {"t": _index(tw.p.transforms._objects, tgt), "v": L.lean_val(tw, arg)}}

    mut(
        "Transform.displacement_vector",
        "transform",
        _setattr("displacement_vector"),
        lambda rng, tw, tgt: ARR(rng.randint(0, 3), rng.randint(0, 3), rng.choice([0.5, 1.0, 2.0])),
        {
            "wrong-type": lambda rng, tw, tgt: rng.choice([LIST(F(0.0), F(0.0), F(1.0)), NONE, F(1.0)]),
            "array-of-wrong-length": lambda rng, tw, tgt: rng.choice([ARR(1, 2), ARR(1, 2, 3, 4), ARR()]),
        },
        tr_model("displacement"),
        valid_weight=0.6,
    )
    mut(
        "Transform.rotation_matrix",
        "transform",
        _setattr("rotation_matrix"),
        lambda rng, tw, tgt: rng.choice([ARR(1, 0, 0, 0, 1, 0, 0, 0, 1), ARR(0, 1, 0, 1, 0, 0, 0, 0, 1)]),
        {
            "wrong-type": lambda rng, tw, tgt: rng.choice([LIST(*[F(0.0)] * 9), NONE, I(1)]),
            "array-of-wrong-length": lambda rng, tw, tgt: rng.choice([ARR(1, 0, 0, 0), ARR(*[0] * 10), ARR()]),
        },
        tr_model("rotation"),
        valid_weight=0.4,
    )

    # ---------------------------------------------------------------- Universe
    def uni_index(tw, tgt):
        return _index(tw.p.universes._objects, tgt)

    inv_u = number_invalid("universe")
    inv_u["wrong-type-float"] = lambda rng, tw, tgt: F(7.0)
    mut(
        "Universe.number",
        "universe",
        _setattr("number"),
        lambda rng, tw, tgt: I(free_number(rng, tw, "universe")),
        inv_u,
        lambda tw, tgt, arg: {"universeNumber": {"u": uni_index(tw, tgt), "v": L.lean_val(tw, arg)}},
        valid_weight=0.5,
    )

    def claim_valid(rng, tw, tgt):
        n = len(tw.p.cells)
        picks = rng.sample(range(n), rng.randint(1, min(2, n)))
        r = rng.random()
        if r < 0.3:
            return REF("cell", picks[0])
        if r < 0.8:
            return LIST(*[REF("cell", i) for i in picks])
        return {"t": "coll", "kind": "cell", "v": [REF("cell", i) for i in picks]}

    mut(
        "Universe.claim",
        "universe",
        lambda tw, tgt, v: tgt.claim(v),
        claim_valid,
        {
            "wrong-type": lambda rng, tw, tgt: rng.choice([I(1), NONE, TUP(REF("cell", 0)), REF("surface", 0)]),
            "wrong-element-type": lambda rng, tw, tgt: rng.choice([LIST(REF("cell", 0), I(2)), LIST(REF("cell", 1), REF("surface", 0)), LIST(REF("cell", 0), NONE)]),
            "collision": lambda rng, tw, tgt: (lambda i: LIST(REF("cell", 0), REF("cell", i), REF("cell", i)))(ridx(rng, tw, "cell")),
        },
        lambda tw, tgt, arg: {"claim": {"u": uni_index(tw, tgt), "v": L.lean_val(tw, arg)}},
        valid_weight=0.5,
    )

    # ---------------------------------------------------------------- HalfSpace
    mut(
        "HalfSpace.operator",
        "halfspace",
        _setattr("operator"),
        lambda rng, tw, tgt: None,
        {
            "wrong-type-str": lambda rng, tw, tgt: S("*"),
            "wrong-type-none": lambda rng, tw, tgt: NONE,
            "wrong-type-int": lambda rng, tw, tgt: I(1),
        },
        gen=gen_model("HalfSpace", "operator"),
        valid_weight=0.0,
    )
    for attr in ("left", "right"):
        mut(
            "HalfSpace." + attr,
            "halfspace",
            _setattr(attr),
            g_valid,
            dict(
                {
                    "wrong-type-int": lambda rng, tw, tgt: I(1),
                    "wrong-type-none": lambda rng, tw, tgt: NONE,
                    "wrong-type-surface": lambda rng, tw, tgt: REF("surface", 0),
                },
                **GEOM_COMPOSITE,
            ),
            geom_model("geomChild", "HalfSpace", attr),
            valid_weight=0.12,
        )
    mut("UnitHalfSpace.side", "unithalfspace", _setattr("side"), lambda rng, tw, tgt: B(tgt.side), BOOL_INVALID, gen=gen_model("UnitHalfSpace", "side"), valid_weight=0.2)
    mut("UnitHalfSpace.is_cell", "unithalfspace", _setattr("is_cell"), lambda rng, tw, tgt: B(tgt.is_cell), BOOL_INVALID, gen=gen_model("UnitHalfSpace", "is_cell"), valid_weight=0.1)
    mut(
        "UnitHalfSpace.divider",
        "unithalfspace",
        _setattr("divider"),
        lambda rng, tw, tgt: None,
        {
            "wrong-type-int": lambda rng, tw, tgt: I(1),
            "wrong-type-none": lambda rng, tw, tgt: NONE,
            "structurally-illegal-cell-for-surface": lambda rng, tw, tgt: REF("cell", 0),
        },
        valid_weight=0.0,
    )


_TABLE_BUILT = False


def table():
    global _TABLE_BUILT
    if not _TABLE_BUILT:
        _build_table()
        _TABLE_BUILT = True
    return MUTATORS


def all_pairs():
    t = table()
    return [(name, cls) for name in sorted(t) for cls in sorted(t[name]["invalid"])]


# =========================================================================== running a case on the real code
def _errname(e):
    return type(e).__name__


def _call(m, tw, tgt, v):
    signal.setitimer(signal.ITIMER_REAL, 60.0)  # generous: the machine may be heavily loaded
    try:
        m["call"](tw, tgt, v)
        return "ok"
    except _Hang:
        return "hang"
    except Exception as e:  # noqa: BLE001
        return _errname(e)
    finally:
        signal.setitimer(signal.ITIMER_REAL, 0)


def gen_step(rng, tw, name, inject_cls):
    """one concrete step for mutator `name` on the live twin; None when there is no target/argument"""
    m = table()[name]
    cands = targets(tw, m["kind"])
    if not cands:
        return None
    for _ in range(6):
        ti = rng.randrange(len(cands))
        tgt = cands[ti]
        try:
            spec = (m["invalid"][inject_cls] if inject_cls else m["valid"])(rng, tw, tgt)
        except (IndexError, ValueError, AttributeError, KeyError, TypeError):
            spec = None
        if spec is not None and _spec_ok(spec):
            return {"m": name, "ti": ti, "arg": spec, "inject": inject_cls}
    return None


def _spec_ok(spec):
    if not isinstance(spec, dict) or "t" not in spec:
        return False
    if spec["t"] in ("list", "tuple", "set", "coll"):
        return all(_spec_ok(x) for x in spec["v"])
    return True


def exec_case(source, script_or_plan, tmpdir, generate=None):
    """Run a case on two twins.  `script_or_plan`: a concrete script (list of steps), or — with
    `generate` = random.Random — a plan [(mutator, inject_class | None), ...] turned into steps on the fly.
    Returns {script, events, model_cases, violation}."""
    from vlib import c14lib as L

    A = L.Twin(L.load(source, tmpdir))
    Bt = L.Twin(L.load(source, tmpdir))
    tab = table()
    script, events, model_cases = [], [], []
    violation = None
    injected = False
    old = signal.signal(signal.SIGALRM, _alarm)
    try:
        for item in script_or_plan:
            if generate is not None:
                step = gen_step(generate, A, item[0], item[1])
                if step is None:
                    events.append({"skipped": item[0]})
                    continue
            else:
                step = item
            m = tab.get(step["m"])
            if m is None:
                continue
            ca, cb = targets(A, m["kind"]), targets(Bt, m["kind"])
            if not ca or len(ca) != len(cb):
                events.append({"skipped": step["m"]})
                continue
            ta, tb = ca[step["ti"] % len(ca)], cb[step["ti"] % len(cb)]
            script.append(step)
            # arguments are built on both twins before anything is observed (fresh objects exist in both);
            # outside any try: a harness error must never look like a rejection
            va, vb = L.build(A, step["arg"]), L.build(Bt, step["arg"])
            # the model's view of the call (before it happens)
            mcase = None
            try:
                if m["model"] is not None:
                    w = L.world(A)
                    op = m["model"](A, ta, step["arg"])
                    if isinstance(op, dict) and "unit" in op:
                        mcase = op  # a complete case of the other unit (wrong-type atoms of a generated property)
                    elif op is not None and L.world_ok(w):
                        mcase = {"unit": "hand", "world": _blank_geometry(w, op), "op": op}
                elif m["gen"] is not None:
                    mcase = m["gen"](A, ta, step["arg"])
            except Exception as e:  # noqa: BLE001 - an argument the abstraction cannot express
                mcase = None
                events.append({"unmodelled": step["m"], "why": _errname(e)})
            if step["inject"]:
                sa0, sb0 = L.snapshot(A, tmpdir), L.snapshot(Bt, tmpdir)
                out = _call(m, A, ta, va)
                ev = {"m": step["m"], "inject": step["inject"], "out": out}
                if out == "ok":
                    # unexpectedly accepted: not a C14 matter; keep the twins in step
                    outb = _call(m, Bt, tb, vb)
                    ev["accepted"] = True
                    if outb != out:
                        ev["twin-diverged"] = outb
                else:
                    injected = True
                    sa1, sb1 = L.snapshot(A, tmpdir), L.snapshot(Bt, tmpdir)
                    # the twin was observed in exactly the same way but never saw the call: if the twins agreed
                    # before and disagree now, the rejected call changed the state (robust against getters and
                    # write_to_file that touch internal trees: both twins undergo them alike)
                    if L.first_diff(sa0, sb0) is None:
                        d = L.first_diff(sb1, sa1)
                    else:
                        ev["twins-not-in-step"] = L.first_diff(sa0, sb0)
                        d = L.first_diff(sa0, sa1) if L.first_diff(sb0, sb1) is None else None
                    if d:
                        violation = {
                            "signature": {
                                "mechanism": "rejected-edit",
                                "class": "state-changed",
                                "mutator": step["m"],
                                "invalid": step["inject"],
                                "changed": L.attr_of(d),
                            },
                            "what": f"{step['m']} rejected ({out}) an argument of class {step['inject']} but changed {d}",
                            "detail": {"path": d, "exception": out},
                        }
                events.append(ev)
                if mcase is not None:
                    post = None
                    if mcase.get("unit") == "hand" and out != "ok":
                        post = _blank_geometry(L.world(A), mcase["op"])
                    model_cases.append({"case": mcase, "out": out, "post": post, "m": step["m"], "inject": step["inject"]})
                if violation:
                    break
            else:
                oa = _call(m, A, ta, va)
                ob = _call(m, Bt, tb, vb)
                events.append({"m": step["m"], "out": oa})
                if mcase is not None:
                    post = None
                    if mcase.get("unit") == "hand" and not step["m"].startswith("Importance") and step["m"] != "Cells.set_equal_importance":
                        post = _blank_geometry(L.world(A), mcase["op"])
                        if not L.world_ok(post):
                            post = None
                    model_cases.append({"case": mcase, "out": oa, "post": post, "m": step["m"], "inject": None})
                if oa != ob:
                    if injected:
                        violation = {
                            "signature": {
                                "mechanism": "rejected-edit",
                                "class": "later-edit-differs",
                                "mutator": _last_injected(script),
                                "invalid": _last_injected(script, "inject"),
                                "changed": "outcome of " + step["m"],
                            },
                            "what": f"after a rejected {_last_injected(script)} the valid edit {step['m']} gives {oa}; without the rejected call {ob}",
                            "detail": {"with": oa, "without": ob},
                        }
                        break
                    events.append({"twin-diverged-before-injection": step["m"]})
                    break
        if violation is None and injected:
            fa, fb = L.snapshot(A, tmpdir), L.snapshot(Bt, tmpdir)
            d = L.first_diff(fa, fb)
            if d:
                violation = {
                    "signature": {
                        "mechanism": "rejected-edit",
                        "class": "later-edit-differs",
                        "mutator": _last_injected(script),
                        "invalid": _last_injected(script, "inject"),
                        "changed": L.attr_of(d),
                    },
                    "what": f"after a rejected {_last_injected(script)} and the same valid edits, the problem differs from its twin at {d}",
                    "detail": {"path": d},
                }
    finally:
        signal.signal(signal.SIGALRM, old)
    return {"script": script, "events": events, "model_cases": model_cases, "violation": violation}


def _blank_geometry(w, op):
    """`geomChild` (left / right / &= / |=) models the cell's containers only, not the tree: its text is not compared"""
    if isinstance(op, dict) and "geomChild" in op:
        for c in w["cells"]:
            c["geometry"] = ""
    return w


def _last_injected(script, key="m"):
    for s in reversed(script):
        if s["inject"]:
            return s[key]
    return None


def run_case(case):
    """worker entry: case = {source, plan, rs} (generated) or {source, script} (concrete)"""
    tmpdir = tempfile.mkdtemp(prefix="c14_")
    try:
        if "script" in case:
            return exec_case(case["source"], case["script"], tmpdir)
        return exec_case(case["source"], case["plan"], tmpdir, generate=random.Random(case["rs"]))
    finally:
        shutil.rmtree(tmpdir, ignore_errors=True)


# =========================================================================== generators
def sources():
    from vlib import c14lib as L

    return [{"kind": "gen", "extra": k} for k in (0, 0, 1, 3)] + [{"kind": "fixture", "name": n} for n in L.FIXTURES]


def valid_names():
    t = table()
    names = sorted(n for n in t if t[n]["valid_weight"] > 0)
    return names, [t[n]["valid_weight"] for n in names]


def gen_plan(rng, pair, npre, npost):
    names, weights = valid_names()
    plan = [(n, None) for n in rng.choices(names, weights, k=npre)]
    plan.append((pair[0], pair[1]))
    if rng.random() < 0.25:
        allp = all_pairs()
        plan += [(n, None) for n in rng.choices(names, weights, k=rng.randint(0, 2))]
        plan.append(rng.choice(allp))
    plan += [(n, None) for n in rng.choices(names, weights, k=npost)]
    return plan


def gen_cases(chk, reps):
    rng = chk.rng("plans")
    srcs = sources()
    cases = []
    for pair in all_pairs():
        for r in range(reps):
            # the generated problem has a target for every mutator; fixtures add variety
            src = srcs[r % 4] if r % 5 != 4 else srcs[4 + (r // 5) % (len(srcs) - 4)]
            cases.append(
                {
                    "source": src,
                    "plan": gen_plan(rng, pair, rng.randint(0, 5), rng.randint(1, 5)),
                    "rs": rng.getrandbits(48),
                    "pair": list(pair),
                }
            )
    return cases


# minimised past failures (each was a genuine defect, see known_findings.json "fixed"/"findings"); run first
def corpus_cases():
    g0 = {"kind": "gen", "extra": 0}
    fx = {"kind": "fixture", "name": "test.imcnp"}
    st = lambda m, ti, arg, inj=None: {"m": m, "ti": ti, "arg": arg, "inject": inj}
    return [
        # Mode.set("n zz") emptied the mode before failing
        {"source": g0, "script": [st("Mode.set", 0, S("p zz"), "bad-particle-name")]},
        {"source": fx, "script": [st("MCNP_Problem.set_mode", 0, LIST(S("p"), S("zz")), "bad-particle-name"), st("Cell.volume", 0, F(2.0))]},
        # Cell.mass_density = 10**400 flipped the density unit flag, then OverflowError
        {"source": g0, "script": [st("Cell.mass_density", 1, HUGE, "out-of-range-huge")]},
        {"source": g0, "script": [st("Cell.atom_density", 0, HUGE, "out-of-range-huge")]},
        # Importance.all with a mode particle the cell has no importance for: KeyError after the others were set
        {"source": g0, "script": [st("Mode.add", 0, S("e")), st("Importance.all", 0, F(3.0), "negative")]},
        {"source": g0, "script": [st("Mode.add", 0, S("e")), st("Cells.set_equal_importance", 0, TUP(F(5.0), LIST()), "negative")]},
        # problem.cells = Cells with a number used twice: cleared, then NumberConflictError
        {"source": g0, "script": [st("MCNP_Problem.cells", 0, {"t": "coll", "kind": "cell", "v": [NEW("cell", 50, 1), NEW("cell", 51, 2)], "dup": True}, "collision-after-build")]},
        # types=() latched the class of the first caller, also on a rejected call
        {
            "source": g0,
            "script": [
                st("Surface.periodic_surface", 0, I(2), "wrong-type-int"),
                st("Surface.periodic_surface", 1, REF("surface", 2)),
            ],
        },
        # append_renumber used to link the object before it could fail (was finding C14-F1, repaired: regression case)
        {"source": g0, "script": [st("Collection.append_renumber", 0, TUP(NEW("cell", 1, 1), I(0)), "zero-step")]},
        # a rejected geometry edit: new complement + a surface copy whose number the cell already uses (seeded C14c:
        # one extend per container left the complement behind) ...
        {
            "source": g0,
            "script": [
                st(
                    "Cell.geometry",
                    4,
                    {"t": "geom", "g": {"and": [{"c": REF("cell", 0)}, {"s": NEW("surface", 5, 7), "side": True}]}},
                    "new-complement+colliding-surface-copy",
                )
            ],
        },
        # ... and new complement + a cell used as the divider of a surface half-space (TypeError from the second
        # phase after the complement had been added; repaired by a fix: commit)
        {
            "source": g0,
            "script": [
                st(
                    "Cell.geometry",
                    4,
                    {"t": "geom", "g": {"and": [{"c": REF("cell", 0)}, {"raw": REF("cell", 1), "side": True, "cell": False}]}},
                    "new-complement+cell-as-surface-divider",
                )
            ],
        },
    ]


# =========================================================================== the check
def _compare_model(chk, drv, records):
    """records: list of (case_payload, model_case_record). Batch through the driver and compare."""
    if not drv.ok or not records:
        return
    outs = drv.batch([r[1]["case"] for r in records])
    for (payload, rec), mo in zip(records, outs):
        chk.traces_validated += 1
        unit = "U-setter-gen" if rec["case"].get("unit") == "gen" else "U-setter-hand"
        if "error" in mo:
            chk.broken_obligation("correspondence", f"{unit}: driver cannot run the case", mo["error"], {"model_case": rec["case"]})
            continue
        if mo.get("out") in ("no-such-declaration", "no-setter"):
            chk.count("model:" + mo["out"] + ":" + rec["m"])
            chk.broken_obligation(
                "correspondence", f"{unit}: {rec['m']} is not in the extracted declaration list any more", mo, {"model_case": rec["case"]}
            )
            continue
        real = rec["out"] if rec["out"] in MODEL_ERRS or rec["out"] == "ok" else "other:" + rec["out"]
        bad = None
        if mo["out"] != real:
            bad = f"outcome: model {mo['out']} vs implementation {rec['out']}"
        elif rec["post"] is not None and _norm_world(mo["post"]) != _norm_world(rec["post"]):
            bad = "state after the call (at the raise point when it raised) differs: " + str(_world_diff(mo["post"], rec["post"]))
        if bad:
            chk.disagreements_checked += 1
            records_bad = getattr(chk, "_c14_bad", [])
            records_bad.append((payload, rec, bad))
            chk._c14_bad = records_bad


def _norm_world(w):
    return json.loads(json.dumps(w))


def _world_diff(a, b):
    from vlib import c14lib as L

    return L.first_diff(_norm_world(a), _norm_world(b))


def _confirm_and_report_disagreements(chk, drv):
    """re-run each disagreeing case in this process; only reproducible disagreements are reported"""
    for payload, rec, bad in getattr(chk, "_c14_bad", [])[:40]:
        res = run_case(payload)
        again = [r for r in res["model_cases"] if r["m"] == rec["m"] and r["inject"] == rec["inject"]]
        still = None
        for r in again:
            mo = drv.batch([r["case"]])[0]
            real = r["out"] if r["out"] in MODEL_ERRS or r["out"] == "ok" else "other:" + r["out"]
            if mo.get("out") != real or (r["post"] is not None and _norm_world(mo["post"]) != _norm_world(r["post"])):
                still = (r, mo)
                break
        if still is None:
            chk.count("flaky:disagreement-not-reproduced")
            continue
        r, mo = still
        unit = "U-setter-gen" if r["case"].get("unit") == "gen" else "U-setter-hand"
        chk.broken_obligation(
            "correspondence",
            f"{unit} (Model/Setter.lean vs {r['m']})",
            {"what": bad, "model": mo, "implementation": {"out": r["out"], "post": r["post"]}},
            {"source": payload["source"], "script": res["script"], "model_case": r["case"]},
        )


def _shrink_violation(case_payload, res):
    """delta-debug the concrete script, keeping the same signature"""
    sig = res["violation"]["signature"]
    source = case_payload["source"]

    def fails(script):
        r = run_case({"source": source, "script": script})
        return r["violation"] is not None and r["violation"]["signature"] == sig

    script = res["script"]
    if not fails(script):
        return None
    small = shrink_list(script, fails)
    r = run_case({"source": source, "script": small})
    return {"source": source, "script": small}, r


def _account(chk, payload, res):
    inj = [e for e in res["events"] if e.get("inject")]
    nontrivial = any(e.get("out") not in (None, "ok") for e in inj)
    chk.note_case({"source": payload["source"], "script": res["script"]}, nontrivial, sample_every=400)
    for e in res["events"]:
        if "skipped" in e:
            chk.count("skipped-no-target:" + e["skipped"])
        elif "unmodelled" in e:
            chk.count("unmodelled-argument:" + e["unmodelled"])
        elif e.get("inject"):
            chk.count("inject:" + e["m"])
            chk.count("invalid-class:" + e["inject"])
            if e.get("accepted"):
                chk.count("accepted-unexpectedly:" + e["m"] + "/" + e["inject"])
            else:
                chk.count("rejected-with:" + e["out"])
            if "twins-not-in-step" in e:
                chk.count("flaky:twins-not-in-step-before-injection")
            if "twin-diverged" in e:
                chk.count("flaky:twin-diverged")
        elif "m" in e:
            chk.count("valid:" + e["m"])
            chk.count("valid-out:" + e["out"])
        elif "twin-diverged-before-injection" in e:
            chk.count("flaky:twin-diverged-before-injection")


def run(chk):
    chk.rule = (
        "a case is a real problem (generated text with every target kind, or a MontePy fixture) read twice (twins), a "
        "script of random valid API edits, and at a random point one or two rejected calls drawn from the table "
        "(mutator x invalid-argument class) that covers every generated property of Gen/SetterDecls.lean and every "
        "hand-written setter / collection mutator; every pair is hit >= reps times. Non-trivial: at least one injected "
        "call was really rejected (raised). distinct = distinct canonical (source, concrete script)."
    )
    chk.assumptions = [
        "validators of generated properties are pure checks (true in the tree; `_link_geometry_to_cell` mutates but cannot raise)",
        "the model's World abstracts a problem to the attributes the modelled mutators read or write; numpy arrays are lists of exact rationals",
        "collection mutators are modelled and proved under C06 (Model/Collection.lean); C14 re-uses C06_conflict_noop and judges them on the real code",
        "arguments that are NaN / too large for a double are only judged by the oracle when accepted (the model has no value for them)",
        "HalfSpace/UnitHalfSpace targets are the root and the left-most leaf of a cell's geometry",
    ]
    chk.trusted_base = [
        "Lean 4.33.0 kernel",
        "translator plug-in tools/extractors/c14_setters.py (AST of montepy/**.py -> Gen/SetterDecls.lean: declarations, statement order of the two setter templates)",
        "hand-written model lean/MontePyVerif/Model/Setter.lean, tied to the code by the U-setter-gen / U-setter-hand correspondence of this run",
        "harness tools/props/c14.py + tools/vlib/c14lib.py (calls the real setters in-process; snapshots through public attribute reads and write_to_file)",
    ]
    leanio.prove(chk, "MontePyVerif.Props.C14", THEOREMS, "")
    drv = leanio.Driver(chk, "drv_c14")

    reps = chk.pick(5, 110)
    cases = [dict(c) for c in corpus_cases()] + gen_cases(chk, reps)
    ncorpus = len(corpus_cases())
    pairs_hit = {}
    decl_hit = set()
    nrecords = 0
    BATCH = 2400  # bounded memory: results carry the abstract worlds of every modelled call
    for b0 in range(0, len(cases), BATCH):
        batch = cases[b0 : b0 + BATCH]
        results = pmap(run_case, batch, chunksize=4)
        records = []
        for payload, res in zip(batch, results):
            _account(chk, payload, res)
            for e in res["events"]:
                if e.get("inject") and not e.get("accepted"):
                    pairs_hit[(e["m"], e["inject"])] = pairs_hit.get((e["m"], e["inject"]), 0) + 1
            for rec in res["model_cases"]:
                records.append((payload, rec))
                if rec["case"].get("unit") == "gen":
                    decl_hit.add((rec["case"]["cls"], rec["case"]["prop"]))
            if res["violation"] is not None:
                # confirm in this process, on the concrete script, before anything is reported
                confirm = run_case({"source": payload["source"], "script": res["script"]})
                if confirm["violation"] is None or confirm["violation"]["signature"] != res["violation"]["signature"]:
                    chk.count("flaky:violation-not-reproduced")
                    continue
                sig = res["violation"]["signature"]
                known = any(all(sig.get(k) == v for k, v in f["signature"].items()) for f in chk.known)
                seen = any(v["key"] == jcanon(sig) for v in chk.violations)
                if (known and any(h["count"] >= 3 for h in chk.known_hit.values())) or seen or len(chk.violations) >= 12:
                    # a signature that already has a minimised replay (or a listed finding that already
                    # reproduced): count it, do not shrink it again — keeps a failing run inside the time box
                    chk.violation(sig, res["violation"]["what"], {"case": {"source": payload["source"], "script": res["script"]}})
                    continue
                shr = _shrink_violation(payload, res)
                if shr is None:
                    chk.count("flaky:violation-not-reproduced")
                    continue
                small, r = shr
                v = r["violation"]
                chk.violation(v["signature"], v["what"], {"case": small, "detail": v["detail"], "events": r["events"]})
        _compare_model(chk, drv, records)
        nrecords += len(records)
        del results, records
    _confirm_and_report_disagreements(chk, drv)

    allp = all_pairs()
    never = [p for p in allp if p not in pairs_hit]
    chk.units["U-setter-gen"] = {"declarations_with_setter_hit": sorted(f"{c}.{p}" for c, p in decl_hit)}
    chk.units["U-setter-hand"] = {"model_cases": nrecords}
    chk.units["oracle"] = {
        "corpus": ncorpus,
        "generated_cases": len(cases) - ncorpus,
        "pairs_in_table": len(allp),
        "pairs_rejected_at_least_once": len(pairs_hit),
        "min_rejections_per_hit_pair": min(pairs_hit.values()) if pairs_hit else 0,
        "pairs_never_rejected": [f"{m}/{c}" for m, c in never],
    }
    chk.exhaustive = False
    if chk.thorough:
        leanio.leanchecker(chk, ["MontePyVerif.Props.C14"])
    # every generated property that has a setter must be exercised (the table is checked against the translator)
    _check_decl_coverage(chk, decl_hit)


# properties made by make_prop_* that have a setter but are internal plumbing (no public user edit): not exercised
INTERNAL_DECLS = {("Cell", "_density"), ("UniverseInput", "universe")}


def _check_decl_coverage(chk, decl_hit):
    import re

    path = leanio.LEAN_DIR + "/MontePyVerif/Gen/SetterDecls.lean"
    with open(path) as fh:
        src = fh.read()
    missing = []
    for m in re.finditer(r'cls := "([^"]+)", prop := "([^"]+)".*?types := \.(\w+)', src):
        cls, prop, types = m.groups()
        if types == "absent" or (cls, prop) in INTERNAL_DECLS:
            continue
        if (cls, prop) not in decl_hit:
            missing.append(f"{cls}.{prop}")
    chk.units["U-setter-gen"]["declarations_with_setter_not_hit"] = missing
    if missing:
        chk.broken_obligation(
            "correspondence",
            "U-setter-gen: a generated property with a setter is not in the C14 mutator table",
            {"missing": missing},
            {"missing": missing},
        )


def replay(chk, payload):
    chk.rule = "replay of one stored case"
    case = payload.get("case", {})
    if payload.get("verdict") == "no-failing-input-found":
        case = payload["no_longer_checks"][0]["case"] or {}
    case = case.get("case", case)
    if "script" not in case:
        chk.add_obligation("replay", True, "nothing to run in this replay file")
        return
    drv = leanio.Driver(chk, "drv_c14")
    res = run_case({"source": case["source"], "script": case["script"]})
    _account(chk, case, res)
    if res["violation"] is not None:
        v = res["violation"]
        chk.violation(v["signature"], v["what"], {"case": {"source": case["source"], "script": res["script"]}, "detail": v["detail"], "events": res["events"]})
    _compare_model(chk, drv, [(case, r) for r in res["model_cases"]])
    _confirm_and_report_disagreements(chk, drv)
    chk.add_obligation("replay", True)
