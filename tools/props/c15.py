"""C15 — write_to_file never destroys or half-writes the destination.

prove       : lean/MontePyVerif/Props/C15.lean (guards as truth table; atomicity and no-temp-left for every problem,
              destination state and fault plan; block order through the independent Spec/Blocks reader)
correspond  : unit U-write — Model/Write.lean vs MCNP_Problem.write_to_file + MCNP_InputFile on the real file system,
              with faults injected from the harness (tools/vlib/faultfs.py): outcome class, destination bytes,
              temporary left behind; full enumeration of the fault points of every problem
judge       : the property itself on the real code: destination afterwards byte-identical to before, or a complete
              file (three blank-line delimiters, nothing after the terminator, read back by montepy.read_input with the
              same cells and surfaces); never a file replaced without overwrite=True; never a write into a directory
"""

import glob
import json
import os
import shutil
import tempfile
import warnings

from vlib import leanio
from vlib.core import VERIF, REPO, MachineryError, canon, chash
from vlib.par import pmap, shrink_list

META = {
    "property_id": "C15",
    "technique": "Lean 4 proof: refinement of the modelled writer (guards, temporary file, per-object format, per-line write, close, os.replace, cleanup) to 'destination unchanged or complete' for every problem, destination state and fault plan; block order proved against an independent MCNP block reader; differential correspondence with exhaustive fault injection on the real code",
    "design_ref": "6 C15",
}

THEOREMS = [
    "C15_atomic_written",
    "C15_close_fault_unchanged",
    "C15_atomic_rename_first_refuted",
    "C15_guards",
    "C15_atomic",
    "C15_no_temp_left",
    "C15_error_unchanged",
    "C15_complete_when_no_fault",
    "C15_history",
    "C15_order_sequence",
    "C15_order_closed_form",
    "C15_order_terminator_last",
    "C15_order_blocks",
    "C15_order_nothing_lost",
    "C15_order_before_repair_refuted",
    "C15_commit_table",
]

NAMESPACE = "MontePyVerif.Write"
CORPUS_DIR = os.path.join(VERIF, "corpus", "C15")
DEST_NAME = "out.imcnp"
KEEP_NAME = "keep.txt"
KEEP_BYTES = "a file the user keeps in that directory\n"
ORIGINAL = "the user's original file\nline 2 of the original\n\n"
FORMAT_ERRORS = ["IllegalState", "ValueError", "MalformedInputError", "KeyError"]

TINY = "tiny problem\n1 0 -1 imp:n=1\n2 0 1 imp:n=0\n\n1 so 1\n\nmode n\nnps 10\n\n"


# --------------------------------------------------------------------------- problems
def build_problem(spec, scratch):
    """A fresh MCNP_Problem for the spec: {"fixture": name} | {"text": str} | {"scratch": true}, plus "edits"."""
    from vlib import mp

    montepy = mp.montepy
    with warnings.catch_warnings():
        warnings.simplefilter("ignore")
        if "fixture" in spec:
            p = montepy.read_input(os.path.join(REPO, "tests", "inputs", spec["fixture"]))
        elif "text" in spec:
            src = os.path.join(scratch, "src")
            os.makedirs(src, exist_ok=True)
            path = os.path.join(src, "in.imcnp")
            with open(path, "w") as fh:
                fh.write(spec["text"])
            p = montepy.read_input(path)
        else:
            p = montepy.MCNP_Problem("from-scratch")
        for e in spec.get("edits", []):
            apply_edit(p, e)
    return p


def apply_edit(p, e):
    import copy

    from vlib import mp

    montepy = mp.montepy
    k = e[0]
    if k == "append_empty_cell":  # a new cell without geometry: validate() raises IllegalState
        c = montepy.Cell()
        c.number = p.cells.request_number(900) if len(p.cells) else 1
        p.cells.append(c)
    elif k == "data_block":  # problem.print_in_data_block[key] = flag
        p.print_in_data_block[e[1]] = bool(e[2])
    elif k == "renumber_cell":  # long numbers: LineExpansionWarning while writing
        list(p.cells)[e[1] % len(p.cells)].number = e[2]
    elif k == "renumber_surface":
        list(p.surfaces)[e[1] % len(p.surfaces)].number = e[2]
    elif k == "orphan_mt":  # MT card without its material: MalformedInputError from format_for_mcnp_input
        p.data_inputs.append(mp.data_from("MT87 lwtr.01t"))
    elif k == "clone_cell":  # the test-suite's way to add a valid cell
        c = copy.deepcopy(list(p.cells)[e[1] % len(p.cells)])
        c.number = p.cells.request_number(800)
        p.cells.append(c)
    elif k == "title":  # problem.title = text (non-ASCII text cannot be encoded by the ascii handle)
        p.title = e[1]
    elif k == "importance":  # value change inside a modifier (LineExpansionWarning from the data block card)
        list(p.cells)[e[1] % len(p.cells)].importance.neutron = e[2]
    elif k == "drop_surface_constants":  # surface in an illegal state
        s = list(p.surfaces)[e[1] % len(p.surfaces)]
        s._surface_constants = s._surface_constants[:0]
    else:
        raise MachineryError(f"unknown edit {e}")


def write_order(p):
    """The objects write_to_file formats, in the order of Gen.WriteOrder.sequence (the harness' own reading of
    the writer's order; a different order in the code shows as a byte difference with the model)."""
    from vlib import mp

    montepy = mp.montepy
    segs = {"message": [], "title": [p.title], "cells": list(p.cells), "surfaces": list(p.surfaces), "data": list(p.data_inputs)}
    if p.message:
        segs["message"] = [p.message]
    mods = []
    for attr, _ in montepy.Cell._INPUTS_TO_PROPERTY.values():
        o = getattr(p.cells, attr)
        if o not in p.data_inputs:
            mods.append(o)
    segs["modifiers"] = mods
    return segs


SEG_ORDER = ["message", "title", "cells", "surfaces", "data", "modifiers"]


def errclass(e):
    return type(e).__name__


_REF_CACHE = {}


def reference(spec):
    """Formatter outcome of every object of a fresh problem (the `Problem` of the model) and its counts."""
    key = chash(spec)
    if key not in _REF_CACHE:
        _REF_CACHE[key] = _reference(spec)
    return json.loads(json.dumps(_REF_CACHE[key]))


def _reference(spec):
    scratch = tempfile.mkdtemp(prefix="c15ref_")
    try:
        p = build_problem(spec, scratch)
        segs = write_order(p)
        out = {}
        with warnings.catch_warnings():
            warnings.simplefilter("ignore")
            for name in SEG_ORDER:
                fm = []
                for o in segs[name]:
                    try:
                        lines = o.format_for_mcnp_input(p.mcnp_version)
                        fm.append({"lines": list(lines or [])})
                    except Exception as e:  # noqa: BLE001
                        fm.append({"raises": errclass(e)})
                out[name] = fm
        problem = {
            "message": out["message"][0] if out["message"] else None,
            "title": out["title"][0],
            "cells": out["cells"],
            "surfaces": out["surfaces"],
            "data": out["data"],
            "modifiers": out["modifiers"],
        }
        counts = {
            "cells": len(segs["cells"]),
            "surfaces": len(segs["surfaces"]),
            "data_printed": sum(1 for f in out["data"] if f.get("lines")),
            "modifier_lines": sum(len(f.get("lines", [])) for f in out["modifiers"]),
            "nformat": sum(len(segs[n]) for n in SEG_ORDER),
        }
        return {"problem": problem, "counts": counts}
    finally:
        shutil.rmtree(scratch, ignore_errors=True)


# --------------------------------------------------------------------------- one scenario on the real code
def dest_lines(sc):
    d = sc["dest"]
    return d.get("lines", [])


def to_bytes(lines):
    return "".join(l + "\n" for l in lines)


def run_impl(item):
    """Execute write_to_file once on the real code. item = {"spec":…, "scenario": {"dest":…, "overwrite":b, "fault":…}}"""
    from vlib import mp
    from vlib.faultfs import Injector

    montepy = mp.montepy
    spec, sc = item["spec"], item["scenario"]
    fault = sc["fault"]
    scratch = tempfile.mkdtemp(prefix="c15_")
    try:
        p = build_problem(spec, scratch)
        work = os.path.join(scratch, "work")
        os.makedirs(work)
        dest = os.path.join(work, DEST_NAME)
        kind = sc["dest"]["k"]
        if kind == "file":
            with open(dest, "wb") as fh:
                fh.write(to_bytes(dest_lines(sc)).encode("latin-1"))
        elif kind == "dir":
            os.makedirs(dest)
            with open(os.path.join(dest, KEEP_NAME), "w") as fh:
                fh.write(KEEP_BYTES)
        state = {"fired": False}
        if fault["k"] == "format":
            segs = write_order(p)
            objs = [o for n in SEG_ORDER for o in segs[n]]
            if fault["i"] < len(objs) and objs[fault["i"]] is not None:
                exc = {
                    "IllegalState": montepy.errors.IllegalState,
                    "ValueError": ValueError,
                    "MalformedInputError": None,
                    "KeyError": KeyError,
                }.get(fault["e"], RuntimeError)

                def raiser(*a, _exc=exc, _state=state, **k):
                    _state["fired"] = True
                    if _exc is None:
                        raise montepy.errors.MalformedInputError(montepy.input_parser.mcnp_input.Input(["x"], montepy.input_parser.block_type.BlockType.DATA), "injected by the C15 harness")
                    raise _exc("injected by the C15 harness")

                objs[fault["i"]].format_for_mcnp_input = raiser
        elif fault["k"] == "warn":

            def raiser(*a, _state=state, **k):
                _state["fired"] = True
                raise RuntimeError("injected by the C15 harness")

            p._handle_warnings = raiser
        result = None
        where = None
        if fault["k"] == "rlimit":
            # a REAL fault of the operating system, nothing patched: the file size limit of a forked child
            result, where = _write_under_rlimit(p, dest, sc["overwrite"], fault["limit"])
            fired = where is not None
            nwrites = 0
        else:
            with Injector(work, fault) as inj:
                try:
                    with warnings.catch_warnings(record=True):
                        warnings.simplefilter("always")
                        p.write_to_file(dest, overwrite=sc["overwrite"])
                except Exception as e:  # noqa: BLE001
                    result = errclass(e)
            fired = inj.fired or state["fired"]
            nwrites = inj.nwrites
        # ---- observe the file system
        if os.path.isdir(dest):
            listing = sorted(os.listdir(dest))
            keep = None
            if KEEP_NAME in listing:
                with open(os.path.join(dest, KEEP_NAME)) as fh:
                    keep = fh.read()
            after = {"k": "dir", "listing": listing, "keep_ok": keep == KEEP_BYTES}
        elif os.path.isfile(dest):
            with open(dest, "rb") as fh:
                raw = fh.read()
            after = {"k": "file", "text": raw.decode("latin-1")}
        else:
            after = {"k": "absent"}
        stray = sorted(f for f in os.listdir(work) if f != DEST_NAME)
        return {"result": result, "after": after, "stray": stray, "fired": fired, "nwrites": nwrites, "where": where}
    finally:
        shutil.rmtree(scratch, ignore_errors=True)


def _write_under_rlimit(p, dest, overwrite, limit):
    """write_to_file in a forked child whose RLIMIT_FSIZE is `limit` bytes (SIGXFSZ ignored, so the kernel answers
    EFBIG to the write that would pass the limit).  Returns (exception class or None, where): where = "close" if the
    OSError came out of the handle's __exit__, "write" if out of the with-block, None if the OS raised nothing."""
    import resource
    import signal
    import traceback

    r, w = os.pipe()
    pid = os.fork()
    if pid == 0:
        try:
            os.close(r)
            signal.signal(signal.SIGXFSZ, signal.SIG_IGN)
            resource.setrlimit(resource.RLIMIT_FSIZE, (limit, limit))
            try:
                with warnings.catch_warnings(record=True):
                    warnings.simplefilter("always")
                    p.write_to_file(dest, overwrite=overwrite)
                out = {"result": None, "where": None}
            except BaseException as e:  # noqa: BLE001
                names = [f.name for f in traceback.extract_tb(e.__traceback__)]
                is_os = isinstance(e, OSError) and getattr(e, "errno", None) is not None
                out = {"result": errclass(e), "where": ("close" if "__exit__" in names else "write") if is_os else None}
            os.write(w, json.dumps(out).encode())  # a pipe is not subject to the file size limit
        finally:
            os._exit(0)
    os.close(w)
    data = b""
    while True:
        chunk = os.read(r, 65536)
        if not chunk:
            break
        data += chunk
    os.close(r)
    os.waitpid(pid, 0)
    if not data:
        raise MachineryError("the RLIMIT_FSIZE child died without an answer")
    out = json.loads(data)
    return out["result"], out["where"]


# --------------------------------------------------------------------------- oracle (the property itself, real code only)
_READBACK = {}


def read_back(text):
    """montepy.read_input on the bytes: (#cells, #surfaces, #data) or the exception class."""
    h = chash(text)
    if h in _READBACK:
        return _READBACK[h]
    from vlib import mp

    d = tempfile.mkdtemp(prefix="c15rb_")
    try:
        path = os.path.join(d, "rb.imcnp")
        with open(path, "wb") as fh:
            fh.write(text.encode("latin-1"))
        try:
            with warnings.catch_warnings():
                warnings.simplefilter("ignore")
                q = mp.montepy.read_input(path)
            r = {"cells": len(q.cells), "surfaces": len(q.surfaces), "data": len(q.data_inputs)}
        except Exception as e:  # noqa: BLE001
            r = {"error": errclass(e)}
    finally:
        shutil.rmtree(d, ignore_errors=True)
    _READBACK[h] = r
    return r


_BLOCKS = {}


def spec_blocks(drv, text):
    """The Lean Spec reader (MCNP's block rules) on the real bytes."""
    h = chash(text)
    if h not in _BLOCKS:
        lines = text.split("\n")
        if lines and lines[-1] == "":
            lines.pop()
        else:
            lines[-1] += "<no-final-newline>"
        _BLOCKS[h] = drv.batch([{"op": "spec", "lines": lines}])[0]
    return _BLOCKS[h]


def completeness(drv, text, counts, spec):
    """None if `text` is a complete, readable problem; else the failure class."""
    b = spec_blocks(drv, text)
    if b.get("delimiters") != 3:
        return "incomplete"
    if b.get("lost"):
        return "card-after-terminator"
    if "fixture" in spec:
        # read cards of a fixture name files relative to the fixture's directory: the copy in the scratch directory
        # cannot be read back where it is; the block structure above is the completeness criterion for those.
        if any(l.strip().lower().startswith("read ") for l in b.get("data", []) + b.get("cells", []) + b.get("surfaces", [])):
            return None
    rb = read_back(text)
    if "error" in rb:
        return "unreadable:" + rb["error"]
    if rb["cells"] != counts["cells"] or rb["surfaces"] != counts["surfaces"] or rb["data"] < counts["data_printed"]:
        return "objects-missing"
    return None


def _wrote_every_line(text, problem):
    """the non-blank lines of the file are exactly the lines of all objects, in the writer's order"""
    want = []
    for name in ["message", "title"]:
        if problem.get(name):
            want += problem[name].get("lines", [])
    for name in ["cells", "surfaces", "data", "modifiers"]:
        for f in problem[name]:
            want += f.get("lines", [])
    got = text.split("\n")
    return [l.rstrip() for l in got if l.strip()] == [l.rstrip() for l in want if l.strip()]


def judge(drv, item, obs, ref):
    """First violation of C15 on the observation of the real code: a signature dict, or None."""
    sc = item["scenario"]
    counts = ref["counts"]
    before = sc["dest"]
    after = obs["after"]
    fk = sc["fault"]["k"] if obs["fired"] else "none"
    if fk == "rlimit":
        fk = obs.get("where") or "none"  # the step at which the operating system refused the bytes
    if obs["result"] is not None and fk == "none":
        fk = "object"  # an exception of the problem's own objects (illegal state, unencodable text, …)
    base = {"mechanism": "write", "fault": fk, "dest": before["k"]}
    if obs["stray"]:
        return dict(base, **{"class": "temp-left"})
    if before["k"] == "dir":
        if after["k"] != "dir" or after["listing"] != [KEEP_NAME] or not after["keep_ok"]:
            return dict(base, **{"class": "wrote-into-directory"})
        return None
    unchanged = (before["k"] == "absent" and after["k"] == "absent") or (
        before["k"] == "file" and after["k"] == "file" and after["text"] == to_bytes(dest_lines(sc))
    )
    if before["k"] == "file" and not sc["overwrite"]:
        if not unchanged:
            return dict(base, **{"class": "overwrote-without-flag"})
        return None
    if unchanged:
        return None
    if after["k"] != "file":
        return dict(base, **{"class": "destination-removed"})
    why = completeness(drv, after["text"], counts, item["spec"])
    if why is None:
        return None
    if why == "card-after-terminator":
        return dict(base, **{"class": "card-after-terminator"})
    if (why.startswith("unreadable") or why == "objects-missing") and _wrote_every_line(after["text"], ref["problem"]):
        # the writer put every line of every object into the file, blocks delimited, nothing after the terminator:
        # what cannot be read back is the text the formatters produced (C01/C09/C10's mechanisms, not the writer's)
        site = "other"
        for f in ref["problem"]["data"] + ref["problem"]["modifiers"]:
            card = [l for l in f.get("lines", []) if l.strip()]
            # an IMP card of the data block that carries a comment: Importance appends values behind the comment text
            first = next((l for l in card if not l.lower().startswith("c ")), "")
            if first.lower().lstrip().startswith("imp") and any("$" in l or l.lower().startswith("c ") for l in card):
                site = "importance-card-with-comment"
        return {"mechanism": "format", "class": "unreadable-output", "site": site, "fault": fk, "dest": before["k"]}
    if obs["result"] is None:
        return dict(base, **{"class": "incomplete-on-success", "why": why.split(":")[0]})
    # the original is gone and what is there is not a complete problem: `partial` when the k-th write failed and the
    # lines before it were left, `truncated` for every other step (format, object, open, close, replace, warn)
    return dict(base, **{"class": "partial" if fk == "write" else "truncated"})


# --------------------------------------------------------------------------- model side
def model_scenario(sc, obs, ref_nwrites):
    """The scenario as the model is asked: a fault that did not fire on the real code (the code has no such
    step) is asked as 'no fault'; a write fault is addressed relative to the model's own number of writes."""
    f = dict(sc["fault"])
    if not obs["fired"]:
        f = {"k": "none"}
    elif f["k"] == "write" and ref_nwrites:
        f["i"] = min(f["i"], ref_nwrites - 1)
    elif f["k"] == "rlimit":
        # the OS refused bytes while a chunk was flushed inside fh.write, or while the rest was flushed by close
        f = {"k": "close", "flushed": "none"} if obs.get("where") == "close" else {"k": "write", "i": 0, "sent": 0}
    if f["k"] == "close":
        # how much of Python's buffer reached the file before close failed: (whole lines, characters of the next)
        n = ref_nwrites or 0
        f["lines"], f["chars"] = {"none": (0, 0), "half": (n // 2, 3), "all": (n, 0)}.get(f.get("flushed", "all"), (0, 0))
    return {"dest": sc["dest"], "overwrite": sc["overwrite"], "fault": f}


def canon_impl(obs):
    a = obs["after"]
    if a["k"] == "file":
        d = {"k": "file", "text": a["text"]}
    elif a["k"] == "dir":
        d = {"k": "dir"} if (a["listing"] == [KEEP_NAME] and a["keep_ok"]) else {"k": "dir", "changed": a["listing"]}
    else:
        d = {"k": "absent"}
    return {"result": obs["result"], "dest": d, "tmp": bool(obs["stray"])}


def canon_model(res):
    d = res["dest"]
    if d["k"] == "file":
        d = {"k": "file", "text": to_bytes(d["lines"])}
    else:
        d = {"k": d["k"]}
    return {"result": res["result"], "dest": d, "tmp": res["tmp"]}


# --------------------------------------------------------------------------- generators
def fixture_specs():
    names = sorted(os.path.basename(f) for f in glob.glob(os.path.join(REPO, "tests", "inputs", "*.imcnp")))
    out = []
    from vlib import mp

    for n in names:
        try:
            with warnings.catch_warnings():
                warnings.simplefilter("ignore")
                mp.montepy.read_input(os.path.join(REPO, "tests", "inputs", n))
        except Exception:  # noqa: BLE001  (fixtures that are not readable problems are C13's business)
            continue
        out.append({"fixture": n, "edits": []})
    return out


def big_text():
    """A valid problem of about 18 KiB: Python's 8 KiB buffer is flushed twice before the handle is closed."""
    n = 200
    lines = ["big problem"]
    for i in range(1, n + 1):
        lines.append(f"{i} 0 -{i} imp:n=1 $ " + "filler " * 9)
    lines.append("")
    for i in range(1, n + 1):
        lines.append(f"{i} so {i}.5")
    lines += ["", "mode n", "nps 10", ""]
    return "\n".join(lines) + "\n"


def gen_text(rng):
    """A small valid MCNP input: optional message block, title, cells, surfaces, data cards."""
    ns = rng.randint(1, 5)
    nc = rng.randint(1, 6)
    nm = rng.randint(0, 2)
    lines = []
    if rng.random() < 0.3:
        lines += ["MESSAGE: " + rng.choice(["outp=o.txt", "runtpe=r datapath=/x", "xsdir=x"]), ""]
        if rng.random() < 0.3:
            lines.insert(1, "   continued message")
    lines.append(rng.choice(["generated problem", "Title with  blanks", "t", "c this title looks like a comment"]))
    imp_in_data = rng.random() < 0.35
    vol_in_data = rng.random() < 0.3
    if rng.random() < 0.5:
        lines.append("c cells")
    for i in range(1, nc + 1):
        mat = rng.randint(0, nm)
        geom = " ".join(rng.choice(["-", ""]) + str(rng.randint(1, ns)) for _ in range(rng.randint(1, 3)))
        card = f"{i} {mat}" + (f" {rng.choice(['-1.0', '2.5', '-0.5'])}" if mat else "") + " " + geom
        if not imp_in_data:
            card += rng.choice([" imp:n=1", " imp:n=0", " imp:n=2"])
        if not vol_in_data and rng.random() < 0.3:
            card += " vol=1.5"
        if rng.random() < 0.3:
            card += " $ comment"
        lines.append(card)
        if rng.random() < 0.15:
            lines.append("c a comment between cells")
    lines.append("")
    for i in range(1, ns + 1):
        lines.append(f"{i} " + rng.choice(["so 1", "px 0", "pz 2.5", "cz 3", "s 0 0 1 2", "py -1"]))
    lines.append("")
    lines.append("mode n")
    for m in range(1, nm + 1):
        lines.append(f"m{m} 1001.80c 2 8016.80c 1")
    if imp_in_data:
        lines.append("imp:n " + " ".join(rng.choice(["1", "0", "2"]) for _ in range(nc)))
    if vol_in_data:
        lines.append("vol " + " ".join(rng.choice(["1", "1.5", "j"]) for _ in range(nc)))
    if rng.random() < 0.5:
        lines.append("nps 1000")
    if rng.random() < 0.3:
        lines.append("c trailing comment")
    lines.append("")
    return "\n".join(lines) + "\n"


EDIT_MENU = [
    [],
    [["append_empty_cell"]],
    [["data_block", "imp", True]],
    [["data_block", "vol", True]],
    [["data_block", "imp", False]],
    [["data_block", "imp", True], ["importance", 0, 0.123456789]],
    [["renumber_cell", 0, 123456789], ["renumber_surface", 0, 987654321]],
    [["orphan_mt"]],
    [["clone_cell", 0]],
    [["title", "café model"]],
    [["data_block", "u", True]],
    [["data_block", "fill", True]],
    [["clone_cell", 1], ["append_empty_cell"], ["data_block", "vol", True]],
]


def scenarios_for(ref, rng, full, original):
    """Destination state x overwrite x fault point.  `full`: every k for the two states that pass the guards."""
    nfmt = ref["counts"]["nformat"]
    render = ref.get("render")
    nwr = len(render) if render is not None else max(4, 3 * nfmt)
    dests = {
        "absent": {"k": "absent"},
        "file": {"k": "file", "lines": original},
        "dir": {"k": "dir"},
    }

    def faults(everything, dk):
        fs = [{"k": "none"}, {"k": "open"}, {"k": "replace"}, {"k": "warn", "e": "RuntimeError"}]
        # a failing close after none / half / all of the still buffered data reached the file
        fs += [{"k": "close", "flushed": f} for f in ("none", "half", "all")]
        if everything or dk == "file":
            # the real thing: RLIMIT_FSIZE of a forked child at several limits (0, inside the first lines, inside the
            # file, beyond the first 8 KiB chunk of a big problem, more than the file needs)
            fs += [{"k": "rlimit", "limit": n} for n in (0, 64, 300, 9000, 17000, 1 << 30)]
        ks = range(nfmt) if everything else sorted({0, nfmt - 1, rng.randrange(max(nfmt, 1))})
        for k in ks:
            if k >= 0:
                fs.append({"k": "format", "i": k, "e": FORMAT_ERRORS[k % len(FORMAT_ERRORS)]})
        ws = range(nwr) if everything else sorted({0, nwr - 1, rng.randrange(max(nwr, 1))})
        for k in ws:
            if k >= 0:
                fs.append({"k": "write", "i": k, "sent": [0, 3, 1000][k % 3]})
        return fs

    out = []
    for dk, ow, everything in [
        ("file", True, full),
        ("absent", False, full),
        ("absent", True, False),
        ("file", False, False),
        ("dir", False, False),
        ("dir", True, False),
    ]:
        for f in faults(everything, dk):
            out.append({"dest": dests[dk], "overwrite": ow, "fault": f})
    return out


def load_corpus():
    items = []
    for f in sorted(glob.glob(os.path.join(CORPUS_DIR, "*.json"))):
        with open(f) as fh:
            c = json.load(fh)
        c = c.get("case", c)
        items.append({"spec": c["spec"], "scenario": c["scenario"], "corpus": os.path.basename(f)})
    return items


# --------------------------------------------------------------------------- the check
def _nontrivial(item, obs):
    sc = item["scenario"]
    passes_guard = sc["dest"]["k"] == "absent" or (sc["dest"]["k"] == "file" and sc["overwrite"])
    return passes_guard and (obs["fired"] or obs["result"] is None or sc["fault"]["k"] == "none")


def evaluate(drv, item, ref):
    """impl observation, model prediction (canonical), oracle verdict for one item."""
    obs = run_impl(item)
    render = ref.get("render")
    msc = model_scenario(item["scenario"], obs, len(render) if render is not None else None)
    res = drv.batch([{"op": "write", "problem": ref["problem"], "scenarios": [msc]}])[0]
    if "error" in res:
        raise MachineryError("model driver: " + res["error"])
    return obs, canon_impl(obs), canon_model(res["results"][0]), judge(drv, item, obs, ref)


def shrink_item(drv, item, fails):
    """Smaller failing input: tiny problem, fewer edits, smaller fault index, smaller original file."""
    best = item

    def attempt(cand):
        nonlocal best
        try:
            if fails(cand):
                best = cand
                return True
        except MachineryError:
            raise
        except Exception:  # noqa: BLE001
            pass
        return False

    spec = best["spec"]
    if "text" not in spec or spec["text"] != TINY:
        attempt({"spec": {"text": TINY, "edits": spec.get("edits", [])}, "scenario": best["scenario"]})
    edits = best["spec"].get("edits", [])
    if edits:
        small = shrink_list(edits, lambda es: fails({"spec": dict(best["spec"], edits=es), "scenario": best["scenario"]}))
        attempt({"spec": dict(best["spec"], edits=small), "scenario": best["scenario"]})
    sc = best["scenario"]
    if sc["dest"]["k"] == "file" and sc["dest"].get("lines") != ["x"]:
        attempt({"spec": best["spec"], "scenario": dict(sc, dest={"k": "file", "lines": ["x"]})})
    sc = best["scenario"]
    if sc["fault"]["k"] in ("format", "write") and sc["fault"]["i"] > 0:
        for k in sorted({0, 1, 2, sc["fault"]["i"] // 2} & set(range(sc["fault"]["i"]))):
            f = dict(sc["fault"], i=k)
            if f["k"] == "write":
                f["sent"] = 0
            if attempt({"spec": best["spec"], "scenario": dict(sc, fault=f)}):
                break
    return {"spec": best["spec"], "scenario": best["scenario"]}


def _what(sig):
    return f"write_to_file: {sig['class']} (fault={sig['fault']}, destination before the call: {sig['dest']})"


def run(chk):
    chk.rule = (
        "a case is (problem, destination state, overwrite, fault point): problems are MontePy's own readable fixtures and "
        "generated inputs, each unedited and under edit scripts (invalid new cell, modifiers moved to the data block, "
        "renumbering that expands lines, orphan MT, non-ASCII title, cloned cell); destination absent / existing file / "
        "directory; overwrite False/True; fault none / creating the temporary / k-th format_for_mcnp_input / k-th fh.write "
        "(0, 3 or all characters sent) / close / os.replace / _handle_warnings — every k for (file, overwrite=True) and "
        "(absent, overwrite=False). A case is non-trivial if it gets past the guards and either the injected fault fires "
        "or the write completes; distinct = distinct canonical JSON."
    )
    chk.assumptions = [
        "os.replace is atomic on one file system; creating, writing, closing and removing the temporary touches only the temporary (stated next to the fs* primitives of Model/Write.lean)",
        "a crash of the interpreter or of the machine in the middle of write_to_file is outside the model",
        "what format_for_mcnp_input computes is not modelled here: an object is its outcome (lines or exception class), taken from the real object of each case",
        "a formatted line contains no newline character (checked on every case: the model's lines joined by newlines equal the real bytes)",
        "C15_order_blocks assumes no formatted line is blank and a title that does not start with MESSAGE: (checked by the Spec reader on the real output of every completed write)",
    ]
    chk.trusted_base = [
        "Lean 4.33.0 kernel",
        "hand-written model lean/MontePyVerif/Model/Write.lean, tied to the code by the generated table Gen/WriteOrder.lean (segment order of write_to_file observed by running the working tree's writer on a probe problem; guards and os calls of MCNP_InputFile) and by the U-write correspondence of this run",
        "Spec/Blocks.lean as a reading of the MCNP manual's block rules (message block, title, three blocks, blank line delimiters, nothing read after the terminator)",
        "harness tools/props/c15.py and tools/vlib/faultfs.py (real file system in a scratch directory; faults injected by patching open/os.open/os.replace and the object's bound method)",
    ]
    _t("start")
    proved = leanio.prove(chk, "MontePyVerif.Props.C15", THEOREMS, NAMESPACE)
    if proved and chk.thorough:
        leanio.leanchecker(chk, ["MontePyVerif.Props.C15", "MontePyVerif.Lemmas.Write", "MontePyVerif.Model.Write", "MontePyVerif.Spec.Blocks"])
    drv = leanio.Driver(chk, "drv_c15")
    if not drv.ok:
        return
    _t("prove + driver build")

    rng = chk.rng("problems")
    specs = []
    fixtures = fixture_specs()
    for s in fixtures:
        specs.append(s)
    # edit scripts on the main fixtures
    for name in chk.pick(["test.imcnp", "test_universe.imcnp"], ["test.imcnp", "test_universe.imcnp", "test_importance.imcnp", "test_universe_data.imcnp"]):
        if any(f["fixture"] == name for f in fixtures):
            for edits in EDIT_MENU[1:]:
                specs.append({"fixture": name, "edits": edits})
    specs.append({"scratch": True, "edits": []})
    specs.append({"text": TINY, "edits": []})
    specs.append({"text": big_text(), "edits": []})  # more than two 8 KiB buffers: chunks are flushed inside fh.write
    ngen = chk.pick(10, 450)
    for _ in range(ngen):
        text = gen_text(rng)
        specs.append({"text": text, "edits": rng.choice(EDIT_MENU)})
    # ---- reference pass: the model's Problem for every spec
    refs_raw = pmap(_reference_safe, specs, workers=8, chunksize=2)
    items, refs = [], {}
    keep_specs = []
    for s, r in zip(specs, refs_raw):
        if r is None:
            chk.count("spec:unusable")  # the edit script does not apply to this problem (e.g. no cell to clone)
            continue
        keep_specs.append((s, r))
    ans = drv.batch([{"op": "write", "problem": r["problem"], "scenarios": []} for _, r in keep_specs])
    budget_full = chk.pick(10, 160)
    nfull = 0
    for (s, r), a in zip(keep_specs, ans):
        if "error" in a:
            raise MachineryError("model driver: " + a["error"])
        r["render"] = a["render"]
        key = chash(s)
        refs[key] = r
        small = r["counts"]["nformat"] <= 40
        full = small and (nfull < budget_full or "edits" in s and s["edits"] and nfull < 2 * budget_full)
        if full:
            nfull += 1
        original = ORIGINAL.split("\n")[:-1]
        if "fixture" in s and not s["edits"]:
            with open(os.path.join(REPO, "tests", "inputs", s["fixture"]), "rb") as fh:
                raw = fh.read().decode("latin-1")
            if raw.endswith("\n") and "\r" not in raw:
                original = raw.split("\n")[:-1]  # the realistic case: the user overwrites the file that was read
        for sc in scenarios_for(r, chk.rng("scenarios", key), full, original):
            items.append({"spec": s, "scenario": sc})
    corpus = load_corpus()
    for c in corpus:
        key = chash(c["spec"])
        if key not in refs:
            r = reference(c["spec"])
            r["render"] = drv.batch([{"op": "write", "problem": r["problem"], "scenarios": []}])[0]["render"]
            refs[key] = r
    items = [{"spec": c["spec"], "scenario": c["scenario"]} for c in corpus] + items
    chk.units["U-write"] = {
        "problems": len(keep_specs),
        "problems_with_every_fault_point": nfull,
        "corpus": len(corpus),
        "scenarios": len(items),
    }
    chk.exhaustive = {"fault points (every format call, every write call, open, close, replace, warn) of the problems_with_every_fault_point, for (file, overwrite=True) and (absent, overwrite=False)": True}

    # ---- real code, and the oracle on its observation (both in the workers)
    global _DRV, _REFS
    _DRV, _REFS = drv, refs
    _t("reference pass and scenario generation")
    both = pmap(_impl_and_judge, items, workers=8, chunksize=16)
    _t("real code + oracle")
    obs_all = [b[0] for b in both]
    sig_all = [b[1] for b in both]
    # ---- model, one batch per problem
    by_problem = {}
    for i, (it, obs) in enumerate(zip(items, obs_all)):
        by_problem.setdefault(chash(it["spec"]), []).append(i)
    batch, order = [], []
    for key, idxs in by_problem.items():
        r = refs[key]
        nw = len(r["render"]) if r["render"] is not None else None
        batch.append({"op": "write", "problem": r["problem"], "scenarios": [model_scenario(items[i]["scenario"], obs_all[i], nw) for i in idxs]})
        order.append(idxs)
    answers = drv.batch(batch)
    model_all = [None] * len(items)
    for idxs, a in zip(order, answers):
        if "error" in a:
            raise MachineryError("model driver: " + a["error"])
        for i, res in zip(idxs, a["results"]):
            model_all[i] = canon_model(res)

    _t("model")
    reported = {}
    for i, (it, obs) in enumerate(zip(items, obs_all)):
        r = refs[chash(it["spec"])]
        sc = it["scenario"]
        chk.note_case({"spec": it["spec"], "scenario": sc}, _nontrivial(it, obs), sample_every=2000)
        chk.count("dest:" + sc["dest"]["k"])
        chk.count("overwrite:" + str(sc["overwrite"]))
        chk.count("fault:" + sc["fault"]["k"] + ("" if obs["fired"] or sc["fault"]["k"] == "none" else ":not-reached"))
        chk.count("result:" + str(obs["result"]))
        chk.count("after:" + obs["after"]["k"])
        chk.count("source:" + ("fixture" if "fixture" in it["spec"] else "generated" if "text" in it["spec"] else "from-scratch") + ("+edits" if it["spec"].get("edits") else ""))
        if r["render"] is not None and sc["fault"]["k"] == "none" and obs["result"] is None and obs["nwrites"] != len(r["render"]):
            chk.count("note:write-calls-differ-from-model")
        sig = sig_all[i]
        if sig is not None:
            key = canon(sig)
            if key in reported:
                chk.violation(sig, _what(sig), reported[key])  # same signature: counted, not minimised again
                continue
            # confirm in this process, then minimise (a case that does not reproduce is only counted)
            obs2 = run_impl(it)
            if judge(drv, it, obs2, r) != sig:
                chk.count("flaky:oracle")
                continue

            def fails(cand, sig=sig):
                rr = reference(cand["spec"])
                return judge(drv, cand, run_impl(cand), rr) == sig

            small = shrink_item(drv, it, fails)
            reported[key] = {"spec": small["spec"], "scenario": small["scenario"], "impl": _clip_obs(run_impl(small))}
            chk.violation(sig, _what(sig), reported[key])
            continue  # the destination is already corrupt: nothing more is compared for this case
        chk.traces_validated += 1
        a, b = canon_impl(obs), model_all[i]
        if a != b:
            chk.disagreements_checked += 1
            if chk.disagreements_checked > 25:
                chk.count("disagreement:not-re-run")  # enough confirmed examples; the rest is only counted
                continue
            obs2, a2, b2, _ = evaluate(drv, it, r)
            if a2 == b2:
                chk.count("flaky:correspondence")
                continue
            if sum(x["count"] for x in chk.broken if x["kind"] == "correspondence") < 3:

                def differs(cand):
                    rr = reference(cand["spec"])
                    rr["render"] = drv.batch([{"op": "write", "problem": rr["problem"], "scenarios": []}])[0]["render"]
                    _, x, y, _ = evaluate(drv, cand, rr)
                    return x != y

                small = shrink_item(drv, it, differs)
                rr = reference(small["spec"])
                rr["render"] = drv.batch([{"op": "write", "problem": rr["problem"], "scenarios": []}])[0]["render"]
                _, a2, b2, _ = evaluate(drv, small, rr)
            else:
                small = it
            chk.broken_obligation(
                "correspondence",
                "U-write (Model/Write.lean vs MCNP_Problem.write_to_file / MCNP_InputFile)",
                {"impl": _clip(a2), "model": _clip(b2)},
                {"spec": small["spec"], "scenario": small["scenario"]},
            )
    _t("compare, confirm, shrink")


_T = [None]


def _t(what):
    """phase times on stderr when C15_DEBUG is set"""
    import sys
    import time

    now = time.time()
    if os.environ.get("C15_DEBUG") and _T[0] is not None:
        sys.stderr.write(f"[C15] {what}: {now - _T[0]:.1f}s\n")
    _T[0] = now


def _clip_obs(obs):
    obs = json.loads(json.dumps(obs))
    a = obs.get("after", {})
    if isinstance(a.get("text"), str) and len(a["text"]) > 3000:
        a["text"] = a["text"][:3000] + f"… ({len(a['text'])} bytes)"
    return obs


def _clip(x):
    x = json.loads(json.dumps(x))
    d = x.get("dest", {})
    if isinstance(d.get("text"), str) and len(d["text"]) > 1500:
        d["text"] = d["text"][:1500] + f"… ({len(d['text'])} bytes)"
    return x


_DRV = None
_REFS = None


def _impl_and_judge(item):
    obs = run_impl(item)
    return obs, judge(_DRV, item, obs, _REFS[chash(item["spec"])])


def _reference_safe(spec):
    try:
        return reference(spec)
    except MachineryError:
        raise
    except Exception:  # noqa: BLE001  the edit script does not apply to this problem
        return None


def replay(chk, payload):
    case = payload.get("case") or payload  # a replay written by the check, or a corpus file
    chk.rule = "replay of one stored case"
    if payload.get("verdict") == "no-failing-input-found":
        cases = [b["case"] for b in payload["no_longer_checks"] if b.get("case")]
        if not cases:  # only theorems were listed: the replay is the proof itself
            leanio.prove(chk, "MontePyVerif.Props.C15", THEOREMS, NAMESPACE)
            return
        case = cases[0]
    if case is None or "spec" not in case:
        raise MachineryError("replay file has no case")
    drv = leanio.Driver(chk, "drv_c15")
    if not drv.ok:
        return
    item = {"spec": case["spec"], "scenario": case["scenario"]}
    r = reference(item["spec"])
    r["render"] = drv.batch([{"op": "write", "problem": r["problem"], "scenarios": []}])[0]["render"]
    obs, a, b, sig = evaluate(drv, item, r)
    chk.note_case(item)
    if sig is not None:
        chk.violation(sig, _what(sig), {"spec": item["spec"], "scenario": item["scenario"], "impl": obs})
    elif a != b:
        chk.broken_obligation("correspondence", "U-write", {"impl": _clip(a), "model": _clip(b)}, item)
    chk.add_obligation("replay", True)
