"""C16 — forward links and reverse look-ups of the object graph always agree.

prove       : lean/MontePyVerif/Props/C16.lean (invariants by induction over edit histories of Model/Links.lean)
correspond  : unit U-links — Model/Links.lean vs the real objects: generated problems are read with
              montepy.read_input, an edit script is applied, after the load and after every step all forward
              fields and all reverse generators are read by object identity and compared with the model
judge       : the six statements of the property evaluated on the observations of the REAL code (identity)
"""

import glob
import json
import os

from vlib import leanio
from vlib.core import VERIF, REPO, canon
from vlib.par import pmap, shrink_list
from vlib import links

META = {
    "property_id": "C16",
    "technique": "Lean 4 proof: invariants by induction over edit histories of a hand-written model of the link graph; differential correspondence model vs implementation; identity-based oracle on the live objects",
    "design_ref": "6 C16",
}

THEOREMS = [
    "C16_contain_blank",
    "C16_contain_step",
    "C16_contain",
    "C16_reverse_surface",
    "C16_reverse_surface_exact",
    "C16_reverse_surface_geometry",
    "C16_reverse_material",
    "C16_reverse_universe",
    "C16_reverse_complement",
    "C16_reverse_complement_geometry",
    "C16_reverse_refuted",
    "C16_reverse_partial",
    "C16_reverse_setMaterial",
    "C16_universe_unique",
    "C16_universe_partial",
    "C16_universe_refuted",
    "C16_universe_setUniverse",
    "C16_linked_blank",
    "C16_linked_step",
    "C16_linked",
    "C16_load",
    "C16_load_contain",
    "C16_children",
    "C16_children_geometry",
    "C16_children_conflict",
    "C16_reach_blank",
    "C16_init",
    "C16_step",
    "C16_reachable",
    "C16_main",
    "C16_exact_surface",
    "C16_exact_surface_geometry",
    "C16_exact_material",
    "C16_exact_universe",
    "C16_exact_complement",
    "C16_exact_partition",
    "C16_linked_here",
    "C16_relink_append",
    "C16_relink_extend",
    "C16_relink_pointee",
]

KINDS = links.KINDS
CORPUS_DIR = os.path.join(VERIF, "corpus", "C16")


# --------------------------------------------------------------------------- oracle (the property itself)
def _cause_missing_surface(x, have, extra):
    """x (a pool id) is not in `have` by identity; is a distinct-but-equal surface there?"""
    return any(j in have for j in extra["seq"][x]) if isinstance(x, int) else False


def judge_obs(obs, extra, after_load, op_name, children_ok=False):
    """All failures of C16's statements on one observation of the real code: list of (signature, what)."""
    out = []
    base = {"mechanism": "links", "op": op_name}

    def fail(cls, cause, what):
        # `what` names the class and the objects concerned: it is the key by which a failure that persists
        # over later steps is recognised (it is reported once, at the step where it first appears)
        out.append((dict(base, **{"class": cls, "cause": cause}), what))

    cells = obs["cells"]
    members = obs["members"]
    mcells = [c for c in members["cell"] if isinstance(c, int)]
    # (1) containers contain every divider of the geometry; exactly those directly after reading
    for ci, c in enumerate(cells):
        for x in c["leaves_s"]:
            if x not in c["surfs"]:
                cause = "equal-but-distinct" if _cause_missing_surface(x, c["surfs"], extra) else "none"
                if cause == "none" and isinstance(x, int) and any(
                    isinstance(y, int) and obs["surfaces"][y]["num"] == obs["surfaces"][x]["num"] for y in c["surfs"]
                ):
                    cause = "number-clash"  # the container holds another surface with the same number
                fail("divider-missing-from-cell-surfaces", cause, f"cell #{ci}: surface #{x} is used by the geometry but is not in cell.surfaces")
                break
        for x in c["leaves_c"]:
            if x not in c["comps"]:
                clash = isinstance(x, int) and any(isinstance(y, int) and cells[y]["num"] == cells[x]["num"] for y in c["comps"])
                fail("divider-missing-from-cell-complements", "number-clash" if clash else "none", f"cell #{ci}: cell #{x} is complemented by the geometry but is not in cell.complements")
                break
        if after_load and ci in mcells:
            if set(map(str, c["surfs"])) != set(map(str, c["leaves_s"])) or set(map(str, c["comps"])) != set(map(str, c["leaves_c"])):
                fail("containers-not-exact-after-reading", "none", f"cell #{ci}: surfaces/complements differ from the dividers of the geometry directly after reading")
    # (2) reverse look-ups, computed independently from the forward links over problem.cells, against what the API yields
    #     (the raw lists: by identity, "foreign" = a cell that is not an object of this case at all)
    raw = extra["rev_raw"]

    def link_cause(link):
        return "none" if link == "here" else ("target-linked-elsewhere" if link == "other" else "target-not-linked")

    def rev(kind, objs, want_of, eqkey):
        for oi, o in enumerate(objs):
            want = [c for c in mcells if want_of(cells[c], oi)]
            got = raw[kind][oi]
            if got == want:
                continue
            if o["link"] == "other" and not want and oi not in members[kind]:
                continue  # an object of another problem that this problem does not use: it answers for that problem
            missing = [c for c in want if c not in got]
            extra_c = [c for c in got if c not in want]
            if missing:
                fail("reverse-lookup-misses-cell", link_cause(o["link"]), f"{kind} #{oi}.cells misses cell(s) {missing} whose forward link points at it")
            elif extra_c:
                cause = link_cause(o["link"]) if o["link"] == "other" else "none"
                if cause == "none" and eqkey is not None:
                    # does the extra cell point at a distinct-but-equal object?
                    if all(any(want_of(cells[c], j) for j in extra[eqkey][oi]) for c in extra_c if isinstance(c, int)):
                        cause = "equal-but-distinct"
                fail("reverse-lookup-extra-cell", cause, f"{kind} #{oi}.cells yields cell(s) {extra_c} whose forward link does not point at it")
            else:
                fail("reverse-lookup-order-or-repeat", "none", f"{kind} #{oi}.cells = {got}, expected {want}")

    rev("surface", obs["surfaces"], lambda c, s: s in c["surfs"], "seq")
    rev("material", obs["materials"], lambda c, m: c["mat"] == m, "meq")
    rev("universe", obs["universes"], lambda c, u: c["univ"] == u, None)
    for ci, c in enumerate(cells):
        want = [d for d in mcells if d != ci and ci in cells[d]["comps"]]
        got = raw["cell"][ci]
        if got != want:
            if c["link"] == "other" and not want and ci not in mcells:
                continue
            missing = [d for d in want if d not in got]
            if missing:
                # a complemented cell that is not itself part of the problem is never linked by the cell that complements it
                cause = "complemented-cell-outside-problem" if (ci not in mcells and c["link"] != "here") else link_cause(c["link"])
                fail("reverse-lookup-misses-cell", cause, f"cell #{ci}.cells_complementing_this misses {missing}")
            else:
                fail("reverse-lookup-extra-cell", link_cause(c["link"]) if c["link"] == "other" else "none", f"cell #{ci}.cells_complementing_this = {got}, expected {want}")
    # (3) every cell of the problem is in exactly one universe
    for ci in mcells:
        c = cells[ci]
        n = sum(1 for ul in raw["universe"] if ci in ul)
        if c["univ"] is None:
            fail("universe-partition", "cell-without-universe", f"cell #{ci} of the problem has no universe")
        elif n != 1:
            u = c["univ"]
            fail("universe-partition", link_cause(obs["universes"][u]["link"]) if isinstance(u, int) else "target-not-linked", f"cell #{ci} is in {n} universes' .cells")
    # (4) every member of a collection of the problem is linked to THAT problem (identity of the link target)
    tables = {"cell": cells, "surface": obs["surfaces"], "material": obs["materials"], "universe": obs["universes"], "transform": obs["transforms"]}
    for k in KINDS:
        for o in members[k]:
            if not isinstance(o, int):
                continue
            if tables[k][o]["link"] != "here":
                where = "linked to ANOTHER problem" if tables[k][o]["link"] == "other" else "not linked to the problem"
                fail("member-not-linked", "linked-elsewhere" if tables[k][o]["link"] == "other" else "none", f"{k} #{o} is in problem.{k}s but is {where}")
                break
    # (5) after add_cell_children_to_problem
    if children_ok:
        for ci in mcells:
            c = cells[ci]
            used = [x for x in list(c["surfs"]) + list(c["leaves_s"]) if isinstance(x, int)]
            for s in used:
                if s not in members["surface"]:
                    cause = "equal-but-distinct" if _cause_missing_surface(s, members["surface"], extra) else "none"
                    fail("child-not-member", cause, f"surface #{s} used by cell #{ci} is not in problem.surfaces after add_cell_children_to_problem")
                    break
                t = extra["strans"][s]
                if t is not None and (t not in members["transform"] or t not in obs["data"]["t"]):
                    fail("child-not-member", "none", f"transform #{t} of surface #{s} used by cell #{ci} is not in problem.transforms/data_inputs")
                    break
            m = c["mat"]
            if m is not None and (m not in members["material"] or m not in obs["data"]["m"]):
                cause = "equal-but-distinct" if isinstance(m, int) and any(j in members["material"] for j in extra["meq"][m]) else "none"
                fail("child-not-member", cause, f"material #{m} of cell #{ci} is not in problem.materials/data_inputs after add_cell_children_to_problem")
    return out


def _seen(chk, sig):
    return sum(v["count"] for v in chk.violations if v["key"] == canon(sig))


def is_known(chk, sig):
    return any(all(sig.get(k) == v for k, v in f["signature"].items()) for f in chk.known)


def judge(case, res):
    """[(step index or -1 for the load, signature, what)] — every failure, in order."""
    if not isinstance(res.get("load"), dict):
        return []
    out = [(-1, s, w) for s, w in judge_obs(res["load"], res["load_extra"], True, "read")]
    prev = {(s["class"], w) for _, s, w in out}
    for k, (op, st) in enumerate(zip(case["ops"], res["steps"])):
        if "obs" not in st or "observe_failed" in st["obs"]:
            if "obs" in st:
                out.append((k, {"mechanism": "links", "op": op[0], "class": "graph-not-observable", "cause": "none"}, st["obs"]["observe_failed"]))
            break
        if st["out"].startswith("leak:") or st["out"] == "hang":
            # an undeclared exception of an edit is C13/C14's subject; the graph is still judged
            pass
        now = judge_obs(st["obs"], st["extra"], False, op[0], children_ok=(op[0] == "children" and st["out"] == "ok"))
        out += [(k, s, w) for s, w in now if (s["class"], w) not in prev]
        prev = {(s["class"], w) for s, w in now}
    return out


# --------------------------------------------------------------------------- comparison with the model
def compare(case, ri, rm, upto=None):
    """First difference between implementation and model, or None.  A `reupdate` step
    (remove_duplicate_surfaces) that really merged duplicates ends the comparison (C18's subject)."""
    if not isinstance(ri.get("load"), dict) or not isinstance(rm.get("load"), dict):
        a = ri.get("load") if not isinstance(ri.get("load"), dict) else "ok"
        b = rm.get("load") if not isinstance(rm.get("load"), dict) else "ok"
        return None if a == b else {"at": "load", "impl": a, "model": b}
    if ri["load"] != rm["load"]:
        return {"at": "load", "diff": _first_diff(ri["load"], rm["load"])}
    n = len(case["ops"]) if upto is None else upto
    for k in range(min(n, len(ri["steps"]))):
        op, si, sm = case["ops"][k], ri["steps"][k], rm["steps"][k]
        if (op[0] == "reupdate" and si.get("dups")) or si.get("foreign_num"):
            return None  # merged duplicates (C18) / a number setter that asked another problem's collection
        if si["out"] != sm["out"]:
            return {"at": k, "op": op, "impl_out": si["out"], "model_out": sm["out"]}
        if "obs" not in si or "observe_failed" in si["obs"]:
            return None
        if si["obs"] != sm["obs"]:
            return {"at": k, "op": op, "diff": _first_diff(si["obs"], sm["obs"])}
    return None


def _first_diff(a, b, path=""):
    if type(a) != type(b):
        return {"path": path, "impl": a, "model": b}
    if isinstance(a, dict):
        for k in sorted(set(a) | set(b)):
            if a.get(k) != b.get(k):
                return _first_diff(a.get(k), b.get(k), path + "/" + str(k))
    if isinstance(a, list) and len(a) == len(b):
        for i, (x, y) in enumerate(zip(a, b)):
            if x != y:
                return _first_diff(x, y, path + "/" + str(i))
    return {"path": path, "impl": a, "model": b}


# --------------------------------------------------------------------------- generators
def gen_tree(rng, surf_ids, cell_ids, depth=0, p_comp=0.2):
    r = rng.random()
    if depth >= 3 or r < 0.35:
        if cell_ids and rng.random() < p_comp:
            return ["c", rng.choice(cell_ids)]
        return ["s", rng.choice(surf_ids), rng.random() < 0.5]
    if r < 0.45:
        return ["#", gen_tree(rng, surf_ids, cell_ids, depth + 1, p_comp)]
    return [rng.choice(["&", "&", "|"]), gen_tree(rng, surf_ids, cell_ids, depth + 1, p_comp), gen_tree(rng, surf_ids, cell_ids, depth + 1, p_comp)]


def map_leaves(g, fs, fc):
    t = g[0]
    if t == "s":
        return ["s", fs(g[1]), g[2]]
    if t == "c":
        return ["c", fc(g[1])]
    if t == "#":
        return ["#", map_leaves(g[1], fs, fc)]
    return [t, map_leaves(g[1], fs, fc), map_leaves(g[2], fs, fc)]


def node_paths(g, path=()):
    """(path, kind, is_cell) for every node the edits can address: 'leaf' and 'inner'"""
    t = g[0]
    if t == "s":
        yield list(path), "leaf", False
    elif t == "c":
        yield list(path), "compl", None
        yield list(path) + [False], "leaf", True
    elif t == "#":
        yield list(path), "compl", None
        yield from node_paths(g[1], path + (False,))
    else:
        yield list(path), "bin", None
        yield from node_paths(g[1], path + (False,))
        yield from node_paths(g[2], path + (True,))


def d_iop(sym, g, other):
    """generator-side tracking of the tree shape after `g &= other` (mirrors HalfSpace.__iand__)"""
    t = g[0]
    if t in ("s", "c", "#"):
        return g, [sym, g, other]
    if g[2][0] == "s":
        return [t, g[1], [sym, g[2], other]], None
    r1, ret = d_iop(sym, g[2], other)
    return [t, g[1], ret if ret is not None else r1], None


def d_set(g, path, new):
    if not path:
        return new
    t = g[0]
    if t == "c":
        return g
    if t == "#":
        return ["#", d_set(g[1], path[1:], new)] if not path[0] else g
    if t in ("&", "|"):
        return [t, g[1], d_set(g[2], path[1:], new)] if path[0] else [t, d_set(g[1], path[1:], new), g[2]]
    return g


def d_get(g, path):
    for b in path:
        t = g[0]
        if t == "c":
            return ["cell-leaf"]
        if t == "#":
            g = g[1]
        elif t in ("&", "|"):
            g = g[2] if b else g[1]
        else:
            return None
    return g


def gen_case(rng, i, max_ops=10):
    nfs = rng.randint(2, 5)
    nums = rng.sample(range(1, 10), nfs)
    surfaces = []
    nft = rng.randint(0, 2)
    transforms = rng.sample(range(1, 6), nft)
    for n in nums:
        shape = rng.randint(0, 4) if rng.random() < 0.3 else 10 + len(surfaces)
        tr = rng.randrange(nft) if nft and rng.random() < 0.25 else None
        surfaces.append([n, shape, tr])
    if rng.random() < 0.5:
        transforms.append(rng.choice([6, 7, transforms[0] if transforms and rng.random() < 0.3 else 8]))
        if rng.random() < 0.4:
            # a surface of the file is given this transform (not in the file) after reading: only
            # add_cell_children_to_problem brings it into problem.transforms / data_inputs
            rng.choice(surfaces)[2] = len(transforms) - 1
    for _ in range(rng.randint(1, 3)):
        r = rng.random()
        tr = rng.randrange(len(transforms)) if transforms and rng.random() < 0.3 else None
        if r < 0.10:  # a distinct object that is == to a pool surface (known finding C16-F1)
            src = rng.choice(surfaces)
            surfaces.append([src[0], src[1], tr])
        elif r < 0.20:  # same number, different shape: refused by a cell's container that holds the other one
            src = rng.choice(surfaces)
            surfaces.append([src[0], 30 + len(surfaces), tr])
        else:
            surfaces.append([rng.randint(10, 14), (rng.randint(0, 4) if rng.random() < 0.3 else 10 + len(surfaces)), tr])
    nfm = rng.randint(1, 3)
    mnums = rng.sample(range(1, 7), nfm)
    materials = [[n, k] for k, n in enumerate(mnums)]
    for _ in range(rng.randint(1, 2)):
        r = rng.random()
        if r < 0.10:
            src = rng.choice(materials)
            materials.append([src[0], src[1]])
        elif r < 0.20:
            materials.append([rng.choice(materials)[0], 10 + len(materials)])
        else:
            materials.append([rng.randint(7, 9), 10 + len(materials)])
    ncell = rng.randint(2, 4)
    cnums = rng.sample(range(1, 8), ncell)
    unums = [rng.choice([None, None, 1, 2, 3]) for _ in range(ncell)]
    cells = []
    broken = rng.random() < 0.03
    for k in range(ncell):
        g = gen_tree(rng, list(range(nfs)), list(range(k)), p_comp=0.25)
        g = map_leaves(g, lambda s: nums[s], lambda c: cnums[c])
        mat = rng.choice([0] + mnums)
        others = sorted({u for j, u in enumerate(unums) if u is not None and j != k and u != unums[k]})
        fill = rng.choice(others) if others and rng.random() < 0.3 else None
        cells.append({"num": cnums[k], "mat": mat, "geom": g, "u": unums[k], "fill": fill})
    if broken:
        c = rng.choice(cells)
        if rng.random() < 0.5:
            c["mat"] = 99
        else:
            c["geom"] = ["&", c["geom"], rng.choice([["s", 98, True], ["c", 97]])]
    fresh_cells = [rng.choice(cnums) if rng.random() < 0.1 else 20 + j for j in range(rng.randint(0, 2))]
    loaded_u = []
    for u in unums:
        if (u or 0) not in loaded_u:
            loaded_u.append(u or 0)
    universes = [rng.choice(loaded_u) if rng.random() < 0.1 and loaded_u != [0] else 7 + j for j in range(rng.randint(1, 2))]
    # how every pool object that is not in the file comes into being (all the ways a user makes one)
    def pick_origin(kind):
        r = rng.random()
        if kind == "cell":
            return "scratch" if r < 0.6 else ("qmember" if r < 0.8 else "qremoved")
        if r < 0.45:
            return "scratch"
        if r < 0.70:
            return "deepcopy"
        if r < 0.82:
            return "qmember"
        if r < 0.92:
            return "qremoved"
        return "shallow" if kind != "universe" else "scratch"

    origins = {
        "surface": [pick_origin("surface") for _ in range(len(surfaces) - nfs)],
        "material": [pick_origin("material") for _ in range(len(materials) - nfm)],
        "transform": [pick_origin("transform") if nft else "scratch" for _ in range(len(transforms) - nft)],
        "cell": [pick_origin("cell") for _ in fresh_cells],
        "universe": [pick_origin("universe") for _ in universes],
    }
    # a copy.copy shares the member's number node: it has the member's number (and is never renumbered below)
    for j, how in enumerate(origins["surface"]):
        if how == "shallow":
            surfaces[nfs + j][0] = surfaces[j % nfs][0]
    for j, how in enumerate(origins["material"]):
        if how == "shallow":
            materials[nfm + j][0] = materials[j % nfm][0]
    for j, how in enumerate(origins["transform"]):
        if how == "shallow":
            transforms[nft + j] = transforms[j % nft]
    shared = {k: set() for k in KINDS}  # objects that share their number node with another one: never renumbered
    for kind, first, nfile in (("surface", nfs, nfs), ("material", nfm, nfm), ("transform", nft, nft)):
        for j, how in enumerate(origins[kind]):
            if how == "shallow" and nfile:
                shared[kind] |= {first + j, j % nfile}
    case = {
        "origins": origins,
        "surfaces": surfaces, "file_surfaces": nfs, "materials": materials, "file_materials": nfm,
        "transforms": transforms, "file_transforms": nft, "cells": cells, "fresh_cells": fresh_cells,
        "universes": universes, "ops": [],
    }
    # pool-id view of the geometries, tracked through the edits so that paths are mostly valid
    geoms = [map_leaves(c["geom"], lambda n: nums.index(n) if n in nums else 0, lambda n: cnums.index(n) if n in cnums else 0) for c in cells]
    geoms += [None] * len(fresh_cells)
    npc, nps, npm, npu, npt = len(geoms), len(surfaces), len(materials), len(loaded_u) + len(universes), len(transforms)
    ops = []
    nops = rng.randint(1, max_ops)
    for k in range(nops):
        r = rng.random()
        c = rng.randrange(npc)
        if c >= len(cells) and origins["cell"][c - len(cells)] != "scratch":
            # a cell of the OTHER problem: putting this problem's objects into it would (rightly) move them over
            # there; it only ever enters this problem (append / extend / cells setter / as a complement)
            c = rng.randrange(len(cells))
        if geoms[c] is None and r < 0.5 and rng.random() < 0.8:
            r = 0.0
        new = lambda d=0: gen_tree(rng, list(range(nps)), [x for x in range(npc) if x != c], depth=d, p_comp=0.15)  # noqa: E731
        if r < 0.12:
            g = new(1)
            ops.append(["set_geom", c, g])
            geoms[c] = g
        elif r < 0.20:
            sym = rng.choice(["iand", "ior"])
            g = new(2)
            ops.append([sym, c, g])
            if geoms[c] is not None:
                g1, ret = d_iop("&" if sym == "iand" else "|", geoms[c], g)
                geoms[c] = ret if ret is not None else g1
        elif r < 0.28:
            sym = rng.choice(["iand_alias", "ior_alias"])
            g = new(2)
            ops.append([sym, c, g])
            if geoms[c] is not None:
                geoms[c], _ = d_iop("&" if sym == "iand_alias" else "|", geoms[c], g)
        elif r < 0.42 and geoms[c] is not None:
            cand = [(p, ic) for p, kind, ic in node_paths(geoms[c]) if kind == "leaf"]
            p, ic = rng.choice(cand)
            if rng.random() < 0.04:
                ic2 = not ic
            else:
                ic2 = ic
            d = rng.randrange(npc) if ic2 else rng.randrange(nps)
            ops.append(["set_div", c, p, ic2, d])
            if ic2 == ic:
                geoms[c] = d_set(geoms[c], p[:-1], ["c", d]) if ic else d_set(geoms[c], p, ["s", d, True])
        elif r < 0.50 and geoms[c] is not None:
            cand = [(p, kind) for p, kind, _ in node_paths(geoms[c]) if kind in ("bin", "compl")]
            if cand:
                p, kind = rng.choice(cand)
                right = kind == "bin" and rng.random() < 0.5
                g = new(2)
                node = d_get(geoms[c], p)
                if node is not None and node[0] == "c":
                    # the complement node of `#cell`: its left must stay a cell leaf to keep the tree well formed; skip
                    ops.append(["set_mat", c, None])
                    continue
                ops.append(["set_right" if right else "set_left", c, p, g])
                geoms[c] = d_set(geoms[c], p + [right], g)
            else:
                ops.append(["set_geom", c, new(1)])
                geoms[c] = ops[-1][2]
        elif r < 0.58:
            ops.append(["set_mat", c, None if rng.random() < 0.2 else (rng.randrange(case["file_materials"]) if rng.random() < 0.75 else rng.randrange(npm))])
        elif r < 0.65:
            u = rng.randrange(len(loaded_u)) if rng.random() < 0.75 else rng.randrange(npu)
            if rng.random() < 0.7:
                ops.append(["set_univ", c, u])
            else:
                own = [x for x in range(npc) if x < len(cells) or origins["cell"][x - len(cells)] == "scratch"]
                ops.append(["claim", u, [rng.choice(own) for _ in range(rng.randint(0, 3))]])
        elif r < 0.69:
            ops.append(["set_fill", c, None if rng.random() < 0.3 else rng.randrange(npu)])
        elif r < 0.78:
            kind = rng.choice(KINDS)
            n = {"cell": npc, "surface": nps, "material": npm, "universe": npu, "transform": npt}[kind]
            if n:
                o = rng.randrange(n)
                first_fresh = {"cell": len(cells), "surface": nfs, "material": nfm, "universe": len(loaded_u), "transform": nft}[kind]
                if o not in shared[kind]:  # a copy.copy shares its number node with the member it was copied from
                    ops.append(["set_num", kind, o, rng.choice([1, 2, 3, 4, 5, 11, 12, 15, 16, 0, -1])])
        elif r < 0.88:
            kind = rng.choice(["cell", "surface", "material", "universe", "universe", "transform"])
            n = {"cell": npc, "surface": nps, "material": npm, "universe": npu, "transform": npt}[kind]
            if n:
                # prefer the objects made from scratch: they are the ones that can be inserted
                first_fresh = {"cell": len(cells), "surface": nfs, "material": nfm, "universe": len(loaded_u), "transform": nft}[kind]
                pick = lambda: rng.randrange(first_fresh, n) if first_fresh < n and rng.random() < 0.8 else rng.randrange(n)  # noqa: E731
                door = rng.random()
                if door < 0.55:
                    ops.append(["append", kind, pick()])
                elif door < 0.70:
                    ops.append(["extend", kind, [pick() for _ in range(rng.randint(1, 2))]])
                elif door < 0.85:
                    ops.append(["iadd", kind, [pick() for _ in range(rng.randint(1, 2))]])
                else:
                    o = pick()
                    if o not in shared[kind]:
                        ops.append(["append_renumber", kind, o])
        elif r < 0.93:
            kind = rng.choice(KINDS)
            n = {"cell": npc, "surface": nps, "material": npm, "universe": npu, "transform": npt}[kind]
            if n:
                ops.append(["remove", kind, rng.randrange(n)])
        elif r < 0.96:
            ops.append(["children"])
        elif r < 0.98:
            ops.append(["set_materials", rng.sample(range(npm), rng.randint(0, npm))])
        elif r < 0.99:
            ops.append(["set_cells", rng.sample(range(npc), rng.randint(1, npc))])
        else:
            ops.append(["children"])
    if rng.random() < 0.12:
        ops.append(["reupdate"])
    case["ops"] = ops
    return case


def gen_exhaustive():
    """every script of length <= 2 over a small alphabet on one fixed two-cell problem"""
    base = {
        "surfaces": [[1, 10, None], [2, 11, None], [3, 12, 0], [1, 10, None], [1, 31, None]],
        "file_surfaces": 2,
        "materials": [[1, 0], [2, 11]], "file_materials": 1,
        "transforms": [4], "file_transforms": 0,
        "cells": [{"num": 1, "mat": 1, "geom": ["&", ["s", 1, False], ["s", 2, True]], "u": None, "fill": None},
                  {"num": 2, "mat": 0, "geom": ["c", 1], "u": 1, "fill": None}],
        "fresh_cells": [5], "universes": [7],
        # a surface that is a member of another problem, a deepcopy of a material (linked to a hidden copy of the
        # problem), a universe that was removed from another problem
        "origins": {"surface": ["qmember", "scratch", "scratch"], "material": ["deepcopy"], "transform": ["scratch"],
                    "cell": ["scratch"], "universe": ["qremoved"]},
    }
    leaf = lambda s: ["s", s, True]  # noqa: E731
    alpha = []
    for s in (2, 3, 4):
        alpha += [["set_geom", 0, leaf(s)], ["iand", 0, leaf(s)], ["ior_alias", 0, leaf(s)], ["iand_alias", 0, leaf(s)],
                  ["set_div", 0, [False], False, s], ["set_right", 0, [], leaf(s)], ["set_left", 0, [], ["|", leaf(s), leaf(0)]]]
    alpha += [["set_geom", 2, ["&", leaf(2), ["c", 0]]], ["set_div", 1, [False], True, 2], ["set_mat", 0, 1], ["set_mat", 1, 0],
              ["set_univ", 0, 2], ["set_univ", 0, 1], ["claim", 1, [0, 1]], ["set_fill", 0, 1],
              ["append", "cell", 2], ["append", "surface", 2], ["append", "universe", 2], ["append", "material", 1],
              ["remove", "cell", 0], ["remove", "surface", 1], ["set_num", "surface", 2, 2], ["set_num", "surface", 2, 9],
              ["set_num", "cell", 0, 5], ["set_num", "material", 1, 1], ["children"], ["set_materials", [1]],
              ["set_materials", [0, 1]], ["set_cells", [1, 2]], ["reupdate"],
              ["extend", "surface", [2]], ["iadd", "material", [1]], ["append_renumber", "surface", 3],
              ["extend", "cell", [2]], ["iadd", "universe", [2]]]
    for a in alpha:
        yield dict(base, ops=[a])
    for a in alpha:
        if a[0] == "reupdate":
            continue
        for b in alpha:
            yield dict(base, ops=[a, b])


def load_corpus():
    cases = []
    for path in sorted(glob.glob(os.path.join(CORPUS_DIR, "*.json"))):
        with open(path) as fh:
            data = json.load(fh)
        case = data.get("case", data)
        case = case.get("case", case)
        if "ops" in case:
            cases.append(case)
    return cases


def _nontrivial(case):
    return len(case["ops"]) >= 2


# --------------------------------------------------------------------------- real inputs (oracle only)
def oracle_on_file(path):
    from vlib import mp
    import warnings

    try:
        with warnings.catch_warnings():
            warnings.simplefilter("ignore")
            p = mp.montepy.read_input(path)
    except Exception as e:  # noqa: BLE001
        return {"file": os.path.basename(path), "load": type(e).__name__}
    w = links.World(p)
    return {"file": os.path.basename(path), "load": w.observe(), "load_extra": w.extra(), "steps": []}


# --------------------------------------------------------------------------- the check
def _patch_for_model(case, ri):
    return case


def process_case(chk, drv, case, ri, rm, unit):
    """judge one executed case on the real code's observations, then compare with the model"""
    failures = judge(case, ri)
    new = [(k, s, w) for k, s, w in failures if not is_known(chk, s)]
    if new and _seen(chk, new[0][1]) < 2:
        # confirm in this process before reporting (a loaded machine must not produce a verdict); a signature
        # that was confirmed and minimised twice already is only counted
        ri = links.run_impl(case)
        failures = judge(case, ri)
        new2 = [(k, s, w) for k, s, w in failures if not is_known(chk, s)]
        if not new2:
            chk.count("flaky:violation-not-reproduced")
        new = new2
    seen = set()
    for k, s, w in failures:
        if is_known(chk, s) and canon(s) not in seen:
            seen.add(canon(s))
            chk.violation(s, w, {"case": dict(case, ops=case["ops"][: k + 1])})
    judged_upto = len(case["ops"])
    if new:
        k, sig, what = new[0]
        judged_upto = max(k, 0)

        def fails(ops, sig=sig, case=case):
            c = dict(case, ops=ops)
            return any(s == sig for _, s, _ in judge(c, links.run_impl(c)))

        if _seen(chk, sig) >= 2:
            # this signature already has two minimised replays to choose from: count it, do not shrink again
            chk.violation(sig, f"{what} (after {sig['op']})", {"case": dict(case, ops=case["ops"][: k + 1])})
        else:
            ops = shrink_list(case["ops"][: k + 1], fails) if k >= 0 else []
            mc = dict(case, ops=ops)
            chk.violation(sig, f"{what} (after {sig['op']})", {"case": mc, "failures": [w for _, s, w in judge(mc, links.run_impl(mc)) if s == sig][:3]})
    if rm is not None:
        chk.traces_validated += 1
        d = compare(case, ri, rm, judged_upto)
        if d is not None and sum(b["count"] for b in chk.broken if b["kind"] == "correspondence") >= 5:
            # confirmed and minimised five times already: count only
            chk.disagreements_checked += 1
            chk.broken_obligation("correspondence", f"{unit} (Model/Links.lean vs the live MontePy object graph)", d, None)
        elif d is not None:
            chk.disagreements_checked += 1
            ri2 = links.run_impl(case)
            d = compare(case, ri2, rm, judged_upto)
            if d is None:
                chk.count("flaky:disagreement-not-reproduced")
                return

            def differs(ops, case=case):
                c = dict(case, ops=ops)
                return compare(c, links.run_impl(c), drv.batch([c])[0]) is not None

            ops = shrink_list(case["ops"][:judged_upto], differs) if len(chk.broken) < 3 else case["ops"]
            mc = dict(case, ops=ops)
            chk.broken_obligation(
                "correspondence",
                f"{unit} (Model/Links.lean vs the live MontePy object graph)",
                compare(mc, links.run_impl(mc), drv.batch([mc])[0]) or d,
                mc,
            )


def count_case(chk, case, ri):
    chk.note_case(case, _nontrivial(case), sample_every=2000)
    if not isinstance(ri.get("load"), dict):
        chk.count("load:" + str(ri.get("load")))
        return
    chk.count("load:ok")
    for op, st in zip(case["ops"], ri.get("steps", [])):
        chk.count("op:" + op[0])
        chk.count("out:" + st["out"])


def run(chk):
    chk.rule = (
        "cases are generated MCNP problems (2-4 cells with shared surfaces, complements, shared materials, universes "
        "and fills; 3-8 pool surfaces incl. from-scratch ones, equal copies (== but distinct objects) and number colliders) read "
        "with montepy.read_input, followed by an edit script of 1-10 steps (geometry assignment, &=, |=, in-place &=/|= "
        "on an alias, divider / left / right replacement, material, universe, claim, fill, renumbering, collection "
        "append/extend/+=/append_renumber/remove, materials/cells setters, add_cell_children_to_problem, a final "
        "remove_duplicate_surfaces). Pool objects that are not in the file are made in every way a user makes one: from "
        "scratch, copy.deepcopy of a member (linked to a hidden copy of the problem), member of / removed from a second "
        "problem, copy.copy of a member; the identity of every _problem link (this problem / another / none) is compared. "
        "After the load and after every step every forward field and every reverse generator is read by identity. "
        "A case is non-trivial if it has >= 2 steps; distinct = distinct canonical JSON."
    )
    chk.assumptions = [
        "a HalfSpace object belongs to one cell: the same HalfSpace object assigned to two cells is not modelled or generated",
        "the number cache of NumberedObjectCollection is abstracted away (C06 proves look-up by number is look-up among the members)",
        "remove_duplicate_surfaces is compared with the model only when no duplicate exists (then it must touch no link); with duplicates the step is judged by the oracle only; it is the last step of a case",
        "lattice (multi-universe) fills, LIKE BUT, data-block U/FILL cards: oracle on tests/inputs only",
    ]
    chk.trusted_base = [
        "Lean 4.33.0 kernel",
        "hand-written model lean/MontePyVerif/Model/Links.lean, tied to the code by the U-links correspondence of this run",
        "harness tools/props/c16.py + tools/vlib/links.py (calls the real setters/collections in-process, identity-based observation)",
    ]
    if THEOREMS:
        leanio.prove(chk, "MontePyVerif.Props.C16", THEOREMS, "MontePyVerif.Links")
    drv = leanio.Driver(chk, "drv_c16")

    corpus = load_corpus()
    rng = chk.rng("random")
    random_cases = [gen_case(rng, i) for i in range(chk.pick(1500, 40000))]
    exh = list(gen_exhaustive())
    cases = corpus + exh + random_cases
    chk.units["U-links"] = {"corpus": len(corpus), "exhaustive_small": len(exh), "random": len(random_cases)}
    chk.exhaustive = False

    impl = pmap(links.run_impl, cases)
    model = drv.batch(cases)
    for i, (case, ri) in enumerate(zip(cases, impl)):
        count_case(chk, case, ri)
        process_case(chk, drv, case, ri, model[i] if model is not None else None, "U-links")

    # real inputs of MontePy's own test-suite: oracle directly after reading
    files = sorted(glob.glob(os.path.join(REPO, "tests", "inputs", "*.imcnp")))
    nfiles = 0
    for path in files:
        r = oracle_on_file(path)
        if not isinstance(r["load"], dict):
            chk.count("file-not-read:" + r["load"])
            continue
        nfiles += 1
        chk.note_case({"file": r["file"]}, True)
        for s, w in judge_obs(r["load"], r["load_extra"], True, "read"):
            chk.violation(dict(s, file=r["file"]), f"{r['file']}: {w}", {"file": r["file"]})
    chk.units["oracle-on-tests-inputs"] = {"files": nfiles}


def replay(chk, payload):
    case = payload.get("case", {})
    case = case.get("case", case)
    if payload.get("verdict") == "no-failing-input-found":
        case = payload["no_longer_checks"][0]["case"]
    chk.rule = "replay of one stored case"
    if "file" in case and "ops" not in case:
        r = oracle_on_file(os.path.join(REPO, "tests", "inputs", case["file"]))
        chk.note_case(case)
        if isinstance(r["load"], dict):
            for s, w in judge_obs(r["load"], r["load_extra"], True, "read"):
                chk.violation(dict(s, file=r["file"]), w, {"file": r["file"]})
        chk.add_obligation("replay", True)
        return
    drv = leanio.Driver(chk, "drv_c16")
    ri = links.run_impl(case)
    count_case(chk, case, ri)
    rm = drv.batch([case])[0] if drv.ok else None
    process_case(chk, drv, case, ri, rm, "U-links")
    chk.add_obligation("replay", True)
