"""C17 — problems are isolated; API behaviour does not depend on unrelated history.

prove       : lean/MontePyVerif/Props/C17.lean over Model/World.lean instantiated with Gen/Setters.lean
              (the shared-state facts the translator reads off the AST of the source on every run: module / class /
              closure state of MontePy and every call that sets state of the INTERPRETER — sys.set*, os.chdir ...)
correspond  : U-world   — modelled histories (reads with read cards and failures at every stage, edits, deep copies,
                          writes, generated-setter calls; cells with deep geometry trees): results, written content,
                          the read-card queue, the shared parser log, the setters' closure cells and the recursion
                          limit, real code vs Model/World.lean (drv_c17)
judge       : the property itself on the REAL code, always from the state of an interpreter that has only imported
              MontePy (a fork of the pristine check process, or a fresh subprocess):
              (a) interleavings on several problems: what a problem's operations return and write must equal what
                  they return and write when every operation on unrelated problems is left out;
              (b) (prefix, call): a call's outcome after a prefix of calls on other objects must equal its outcome
                  when it is the first thing the interpreter does (every generated property on every concrete class x
                  a pool of values);
              (c) the same under three PYTHONHASHSEED values in genuinely fresh interpreters.
"""

import json
import os
import subprocess
import sys

from vlib import leanio
from vlib.core import VERIF, REPO, MachineryError, canon
from vlib.par import pmap, shrink_list

META = {
    "property_id": "C17",
    "technique": "Lean 4 proof: non-interference of a world model (read-card queue, shared parser log, closure cells of generated setters, the interpreter's recursion limit, problems) by induction over operation histories, instantiated with shared-state facts extracted from the source AST (module/class/closure state and every call that sets interpreter-wide state); differential correspondence model vs implementation; history-differential oracle on the real code in pristine interpreters",
    "design_ref": "6 C17",
}

THEOREMS = [
    "C17_cfg_clean",
    "C17_world_covers_shared_state",
    "C17_queue",
    "C17_queue_reachable",
    "C17_queue_per_path_unreset_refutes",
    "C17_log",
    "C17_log_reachable",
    "C17_latch",
    "C17_latch_decls",
    "C17_latch_reintroduced_refutes",
    "C17_interp",
    "C17_interp_reachable",
    "C17_limit_raised_refutes",
    "C17_isolate_frame",
    "C17_isolate_result",
    "C17_copy",
    "C17_prefix",
    "C17_prefix_setter",
    "C17_interleave",
    "C17_drain_fuel_mono",
]

NS = "MontePyVerif.World"
IMPL = os.path.join(VERIF, "tools", "vlib", "c17_impl.py")
CORPUS_DIR = os.path.join(VERIF, "corpus", "C17")
FUEL = 64
WORKERS = int(os.environ.get("VERIF_WORKERS", "8"))

_impl = None


def impl():
    """the implementation-side module; importing it imports MontePy (and executes nothing of it)"""
    global _impl
    if _impl is None:
        from vlib import c17_impl

        _impl = c17_impl
    return _impl


_PFN = None


def _pcall(x):
    return _PFN(x)


def pmap_any(fn, items, workers):
    """like vlib.par.pmap, but parallel also for fewer than 32 (expensive) items"""
    global _PFN
    items = list(items)
    if len(items) >= 32 or len(items) <= 1:
        return pmap(fn, items, workers=workers, chunksize=1)
    import multiprocessing

    _PFN = fn
    with multiprocessing.get_context("fork").Pool(min(workers, len(items))) as pool:
        return pool.map(_pcall, items, chunksize=1)


def run_isolated(run):
    out = impl().isolated(run)
    if "obs" not in out:
        return {"failed": out}
    return out


# --------------------------------------------------------------------------- op metadata (shared by both oracles)
def op_target(op):
    n = op[0]
    if n in ("read", "readtext", "readfix", "readrich", "readbig", "setImp", "setVol", "setNum", "remove", "edit", "write", "report"):
        return op[1]
    if n == "deepcopy":
        return op[2]
    return None


def op_source(op):
    return op[1] if op[0] == "deepcopy" else None


def related(ops, focus):
    """the smallest set of problems containing `focus` and closed under 'source of a deep copy into the set'"""
    rel = {focus}
    changed = True
    while changed:
        changed = False
        for op in ops:
            if op[0] == "deepcopy" and op[2] in rel and op[1] not in rel:
                rel.add(op[1])
                changed = True
    return rel


def strip_obs(o):
    """what the property compares: outcome class, exception class, bytes written / reported"""
    return {k: o[k] for k in ("t", "v", "sha", "len", "gate", "now", "cls", "n", "nums") if k in o}


# --------------------------------------------------------------------------- U-world: model vs implementation
SETPROP_POOL = [
    ["setprop", "surf_cz", "periodic_surface", "surf_cx"],
    ["setprop", "surf_pz", "periodic_surface", "surf_px"],
    ["setprop", "surf_pz", "periodic_surface", "surf_cz"],
    ["setprop", "surf_so", "periodic_surface", "surf_pz"],
    ["setprop", "surf_c/z", "periodic_surface", "surf_c/z"],
    ["setprop", "surf_p", "periodic_surface", "surf_so"],
    ["setprop", "unit", "left", "unit"],
    ["setprop", "unit", "left", "half"],
    ["setprop", "half", "left", "half"],
    ["setprop", "half", "right", "unit"],
    ["setprop", "unit", "right", "unit"],
    ["setprop", "half", "right", "none"],
    ["setprop", "cell", "number", "int3"],
    ["setprop", "cell", "number", "str"],
    ["setprop", "cell", "old_number", "int3"],
    ["setprop", "cell", "material", "material"],
    ["setprop", "cell", "material", "none"],
    ["setprop", "cell", "material", "cell"],
    ["setprop", "cell", "geometry", "half"],
    ["setprop", "cell", "geometry", "surf_pz"],
    ["setprop", "surf_pz", "location", "float"],
    ["setprop", "surf_pz", "location", "str"],
    ["setprop", "surf_cz", "radius", "int3"],
    ["setprop", "surf_so", "transform", "transform"],
    ["setprop", "surf_so", "transform", "material"],
    ["setprop", "transform", "is_in_degrees", "true"],
    ["setprop", "transform", "is_in_degrees", "int0"],
    ["setprop", "half", "operator", "operator"],
    ["setprop", "half", "operator", "str"],
    ["setprop", "unit", "side", "true"],
    ["setprop", "component", "fraction", "float"],
    ["setprop", "material", "thermal_scattering", "thermal"],
    ["setprop", "material", "thermal_scattering", "material"],
]


SMALL_DEPTHS = [1, 1, 2, 3, 5, 12, 40]  # levels of a cell's geometry tree that every walk (also the slow writer) handles


def gen_files(rng, clean=False):
    """a small acyclic tree of files; file 0 is the problem; unless `clean`, a read card may name a file that does
    not exist, numbers may collide, a cell may be malformed in three ways or name a missing surface; a third of the
    cells have a geometry of several surfaces (a tree of up to 40 levels)"""
    nfiles = rng.choice([1, 1, 2, 3, 4])
    used = set()
    files = []
    free = list(range(1, 40))
    rng.shuffle(free)
    for fid in range(nfiles):
        items = []
        for _ in range(rng.choice([1, 2, 2, 3, 4]) if clean else rng.choice([0, 1, 2, 2, 3, 4])):
            r = rng.random()
            if r < 0.62:
                num = free.pop() if (clean or rng.random() < 0.93) else rng.choice(sorted(used) or [1])
                used.add(num)
                items.append(["card", num, rng.randint(0, 3), rng.randint(1, 3), (not clean) and rng.random() < 0.03])
                if rng.random() < 0.33:
                    items[-1].append(rng.choice(SMALL_DEPTHS))
            elif r < 0.88:
                # reads point forward (acyclic) or, rarely, at a missing file
                if fid + 1 < nfiles and (clean or rng.random() < 0.92):
                    items.append(["read", rng.randint(fid + 1, nfiles - 1), "ok"])
                elif not clean:
                    items.append(["read", 9, "ok"] if rng.random() < 0.7 else ["read", 9, "syntax"])
            elif not clean:
                items.append(["bad", rng.choice(["syntax", "logThenRaise", "logThenRaise", "raiseOnly"])])
        files.append([fid, items])
    return files


def with_slot(rng, op):
    """give a read a path that other reads of the history reuse (slots 0 and 1), or leave it a path of its own"""
    if rng.random() < 0.5:
        slot = rng.choice([0, 0, 1])
        if op[0] in ("readrich", "readbig"):
            op[2] = dict(op[2], slot=slot)
        elif op[0] in ("read", "readtext"):
            op = op[:4] + [slot]
    return op


def _card(n, imp=1, vol=1, dangling=False):
    return ["card", n, imp, vol, dangling]


def targeted_histories(extended=False):
    """dirty-then-reuse: an event on problem 1 that leaves process-wide state behind (read cards queued when
    parse_input abandons the reader, reader failures, failures in a sub-file, failures after the queue was drained,
    plain success), then a read of problem 0 from the SAME path string or another one, with the same (repaired)
    content or a different one, then what problem 0 wrote.  Paths are part of the state space."""
    sub = [1, [_card(2)]]
    dirty = [
        [[0, [["read", 1, "ok"], _card(1), ["bad", "syntax"]]], sub],  # parse_input fails after a target was queued
        [[0, [["read", 1, "ok"], _card(1), ["bad", "logThenRaise"]]], sub],
        [[0, [["read", 1, "ok"], _card(1), _card(1)]], sub],  # NumberConflictError from parse_input, target queued
        [[0, [["read", 8, "ok"], ["read", 9, "ok"]]]],  # the reader itself fails (missing file), one target left
        [[0, [["read", 1, "ok"], ["read", 2, "ok"], _card(1)]], [1, [["bad", "syntax"]]], [2, [_card(5)]]],  # fails in a sub-file
        [[0, [["read", 1, "ok"], _card(1, dangling=True)]], sub],  # fails after the queue was drained
        [[0, [["read", 1, "ok"], _card(1)]], sub],  # succeeds
    ]
    reuse = [
        [[0, [["read", 1, "ok"], _card(1), _card(3)]], sub],  # the repaired content of the first dirty event
        [[0, [_card(10), _card(11)]]],  # another problem, no read card
        [[0, [_card(10), ["read", 1, "ok"]]], [1, [_card(12)]]],  # another problem with a read card of its own
        [[0, [_card(10)]], sub],  # another problem; the old sub-file is still lying next to it
    ]
    slots = [(0, 0), (0, 1), (None, None)]

    def rd(pid, files, slot):
        return ["read", pid, files, 0] + ([slot] if slot is not None else [])

    for d in dirty:
        for r in reuse:
            for sd, sr in slots:
                yield {"kind": "world", "ops": [rd(1, d, sd), rd(0, r, sr), ["write", 0, "cells"]]}
    if extended:
        for d1 in dirty:
            for d2 in dirty:
                for r in reuse:
                    yield {"kind": "world", "ops": [rd(1, d1, 0), rd(2, d2, 0), rd(0, r, 0), ["write", 0, "cells"]]}
                    yield {"kind": "world", "ops": [rd(1, d1, 0), rd(2, d2, 1), rd(0, r, 1), ["write", 0, "cells"], rd(3, r, 0), ["write", 3, "cells"]]}


def big_histories():
    """cells with VERY deep geometry trees (one level per surface): the recursive walks over them (copy.deepcopy here)
    succeed or raise RecursionError depending on the interpreter's recursion limit — a process-wide setting.  An
    unrelated problem 1 with a cell of `a` tree levels is read before / after / between the events of problem 0 (cell
    of `b` levels), which is deep-copied; the copies are edited and copied again.  Depths stay clear of the thresholds
    (a copy needs about 6 frames per level: 160 levels at the default limit) so that the model's constants need not be
    exact; nothing that deep is written (the writer is quadratic in the depth)."""
    def rd(pid, depth, extra=()):
        return ["read", pid, [[0, [_card(1) + [depth]] + [list(x) for x in extra]]], 0]

    small = [_card(7, 2, 2)]
    for a, b in ((899, 249), (599, 199), (899, 120), (3, 249), (120, 120)):
        yield {"kind": "world", "ops": [rd(1, a), rd(0, b, small), ["deepcopy", 0, 2], ["setImp", 2, 1, 5], ["deepcopy", 2, 3], ["setVol", 3, 0, 4]]}
        yield {"kind": "world", "ops": [rd(0, b, small), ["deepcopy", 0, 2], rd(1, a), ["deepcopy", 0, 3], ["setImp", 3, 0, 6], ["deepcopy", 1, 2]]}
        yield {"kind": "world", "ops": [rd(0, b), rd(1, a, small), ["remove", 1, 0], ["deepcopy", 0, 2], ["deepcopy", 1, 3], ["write", 3, "cells"]]}


def gen_world_case(rng):
    ops = []
    for p in (0, 1):
        if rng.random() < 0.8:
            ops.append(with_slot(rng, ["read", p, gen_files(rng, clean=True), 0]))
    rng.shuffle(ops)
    for _ in range(rng.randint(1, 12 - len(ops))):
        r = rng.random()
        p = rng.choice([0, 0, 1, 1, 2])
        if r < 0.30 or not ops:
            ops.append(with_slot(rng, ["read", p, gen_files(rng, clean=rng.random() < 0.35), 0 if rng.random() < 0.97 else 5]))
        elif r < 0.62:
            ops.append([rng.choice(["setImp", "setVol", "setNum", "remove"]), p, rng.randint(0, 3), rng.randint(1, 9)])
            if ops[-1][0] == "remove":
                ops[-1] = ops[-1][:3]
        elif r < 0.72:
            ops.append(["deepcopy", p, rng.choice([0, 1, 2, 3])])
        elif r < 0.88:
            ops.append(["write", p, "cells"])
        else:
            ops.append(list(rng.choice(SETPROP_POOL)))
    return {"kind": "world", "ops": ops}


def gen_world_exhaustive():
    """every history of length <= 2 over a small alphabet that exercises each piece of shared state, followed by a
    probing read (read card first) and a probing setter call"""
    leak_log = ["read", 1, [[0, [["bad", "logThenRaise"]]]], 0]
    leak_queue = ["read", 1, [[0, [["read", 8, "ok"], ["read", 9, "ok"]]]], 0]
    alpha = [
        leak_log,
        leak_queue,
        ["read", 1, [[0, [["bad", "syntax"]]]], 0],
        ["read", 1, [[0, [["card", 1, 1, 1, True]]]], 0],
        ["read", 1, [[0, [["card", 1, 1, 1, False], ["read", 1, "ok"]]], [1, [["card", 2, 2, 2, False]]]], 0],
        ["setprop", "surf_cz", "periodic_surface", "surf_cx"],
        ["setprop", "unit", "left", "unit"],
        ["deepcopy", 0, 2],
        ["setImp", 2, 0, 7],
        ["remove", 0, 0],
        ["write", 0, "cells"],
    ]
    first = ["read", 0, [[0, [["read", 1, "ok"], ["card", 1, 1, 1, False]]], [1, [["card", 2, 2, 2, False]]]], 0]
    probes = [
        ["read", 3, [[0, [["read", 1, "ok"], ["card", 3, 1, 1, False]]], [1, [["card", 4, 0, 1, False]]]], 0],
        ["write", 3, "cells"],
        ["write", 0, "cells"],
        ["setprop", "surf_pz", "periodic_surface", "surf_px"],
        ["setprop", "half", "left", "half"],
    ]
    for a in [None] + alpha:
        for b in [None] + alpha:
            if a is None and b is not None:
                continue
            mid = [x for x in (a, b) if x is not None]
            ops = [first] + mid + probes
            # every read of these histories uses the same path string (slot 0)
            yield {"kind": "world", "ops": [op + [0] if op[0] == "read" else op for op in ops]}


class ClassTable:
    def __init__(self):
        self.ids = {}

    def id(self, name):
        return self.ids.setdefault(name, len(self.ids))


_DECL_KIND = None


def decl_kinds():
    """(class name, property) -> (index, kind) from the same AST extraction that writes Gen/Setters.lean"""
    global _DECL_KIND
    if _DECL_KIND is None:
        import importlib.util

        spec = importlib.util.spec_from_file_location("c17_setters", os.path.join(VERIF, "tools", "extractors", "c17_setters.py"))
        mod = importlib.util.module_from_spec(spec)
        spec.loader.exec_module(mod)
        _DECL_KIND = {(d[1], d[2]): (i, d[6]) for i, d in enumerate(mod.decls())}
    return _DECL_KIND


def to_model_case(case, obs):
    """the model's view of a world case; setter calls are described by what the real run saw of the objects
    (class of self, MRO of the value) and by the declaration's kind from the AST"""
    table = ClassTable()
    mops = []
    for i, (op, o) in enumerate(zip(case["ops"], obs)):
        if op[0] == "setprop":
            info = o.get("info")
            if info is None:
                return None
            key = (info["owner"], op[2])
            if key not in decl_kinds():
                return None
            idx, kind = decl_kinds()[key]
            if kind == "notSettable":
                types = None
            elif kind == "selfType":
                types = "self"
            else:
                if not isinstance(info["declared"], list):
                    return None
                types = [table.id(n) for n in info["declared"]]
            mro = [table.id(n) for n in info["value_mro"]]
            if info.get("parses") is None:
                return None
            mops.append(["construct", info["parses"]])  # the harness builds self and value from text first
            mops.append(["set", idx, types, table.id(info["self"]), mro[0], mro])
        elif op[0] == "write":
            mops.append(["write", op[1]])
        elif op[0] == "read":
            # the rendered problem file ends with a surface block and a data block of one input each (render_files)
            files = [[fid, items + ([["other"], ["other"]] if fid == op[3] else [])] for fid, items in op[2]]
            # the path the problem is read from: its slot (reused by other reads of the slot), else one of its own;
            # last: the recursion limit the interpreter had after the read (used only by the shape of the code that sets it)
            mops.append(["read", op[1], files, op[3], op[4] if len(op) > 4 else 1000 + i, o["state"]["limit"]])
        else:
            mops.append(op)
    return {"fuel": FUEL, "ops": mops}, table


def parse_cells(text):
    """the cell block of a written modelled problem as [[num, imp, vol]] (an independent, dumb reader)"""
    import re

    lines = []
    for line in text.split("\n")[1:]:
        if not line.strip():
            break
        if line.startswith("     ") and lines:  # a continuation line
            lines[-1] += " " + line.strip()
        else:
            lines.append(line)
    out = []
    for line in lines:
        m = re.match(r"^\s*(\d+)\s+0\s+(?:-\d+\s+)+imp:n=(\S+)\s+vol=(\S+)\s*$", line, flags=re.I)
        if not m:
            return {"unparsed": line}
        out.append([int(m.group(1)), int(float(m.group(2))), int(float(m.group(3)))])
    return out


def canon_impl_world(case, obs, table):
    out = []
    for op, o in zip(case["ops"], obs):
        if o["t"] == "written":
            res = {"t": "written", "v": parse_cells(o.get("text", ""))}
        elif op[0] == "setprop":
            info = o["info"]
            if o["t"] == "err" and o["v"] == "AttributeError" and info["declared"] is None:
                g = "AttributeError"
            elif o["t"] == "err" and o.get("gate"):
                g = "TypeError"
            else:
                g = "passed"
            res = {"t": "gate", "v": g}
        elif o["t"] == "err":
            res = {"t": "err", "v": o["v"]}
        else:
            res = {"t": "ok"}
        cell = None
        if op[0] == "setprop":
            # the closure cell as it is now: for a types=() declaration anything but () is a latched class
            info = o["info"]
            kind = decl_kinds().get((info["owner"], op[2]), (None, None))[1]
            now = info["cell_now"]
            if kind == "selfType" and now != []:
                cell = table.id(now[0]) if isinstance(now, list) and len(now) == 1 else "?"
            elif info.get("cell_changed"):
                cell = "?"
        out.append({"res": res, "queue": o["state"]["queue"], "log": o["state"]["log"], "limit": o["state"]["limit"], "cell": cell})
    return out


def merge_model(mcase, m):
    """the model's output has one extra entry per setter call (the construction of its objects): fold it in"""
    out = []
    pending_err = None
    for mop, o in zip(mcase["ops"], m):
        if mop[0] == "construct":
            pending_err = o["res"] if o["res"]["t"] == "err" else None
            continue
        if pending_err is not None:
            o = dict(o, res=pending_err)
            pending_err = None
        out.append(o)
    return out


def world_compare(case, drv):
    """run one modelled case on both sides; returns (impl canonical, model canonical) or None when out of scope"""
    r = run_isolated({"ops": case["ops"], "state": True, "count_parses": True})
    if "failed" in r:
        return {"failed": r["failed"]}
    mc = to_model_case(case, r["obs"])
    if mc is None:
        return {"skip": True, "obs": r["obs"]}
    mcase, table = mc
    a = canon_impl_world(case, r["obs"], table)
    return {"impl": a, "mcase": mcase, "obs": r["obs"]}


# --------------------------------------------------------------------------- (a) interleavings: the oracle
FIX_OK = [
    "test.imcnp",
    "test_universe.imcnp",
    "test_universe_data.imcnp",
    "test_importance.imcnp",
    "test_surfaces.imcnp",
    "test_complement_edge.imcnp",
    "testRead.imcnp",
    "testReadRec1.imcnp",
    "test_interp_edge.imcnp",
    "test_dos.imcnp",
    "test_tab.imcnp",
    "test_extra_params.imcnp",
    "readEdgeCase.imcnp",
]
FIX_BAD = [
    "test_bad_syntax.imcnp",
    "test_broken_cell_surf_link.imcnp",
    "test_broken_complement.imcnp",
    "test_broken_mat_link.imcnp",
    "test_broken_surf_link.imcnp",
    "test_broken_transform_link.imcnp",
    "number_conflict_pin_cell.imcnp",
    "testVerticalMode.imcnp",
    "test_excess_mt.imcnp",
    "test_missing_mat_for_mt.imcnp",
    "test_imp_redundant.imcnp",
    "test_vol_redundant.imcnp",
    "bad_encoding.imcnp",
    "no_such_file.imcnp",
]
PERIODIC_TEXT = (
    "periodic planes and cylinders\n"
    "1 0 -1 2 -3 imp:n=1\n2 0 1 -4 imp:n=1\n3 1 -2.5 4 -5 6 imp:n=0\n\n"
    "1 -2 PZ 0\n2 -1 PZ 10\n3 CZ 2\n4 CZ 5\n5 PX 1\n6 PX 9\n7 SO 30\n\n"
    "m1 1001.80c 2 8016.80c 1\nmode n\n\n"
)
READ_FIRST_TEXT = {
    "top.i": "the cell block lives in another file\nread file=cells.txt\n9 0 3 imp:n=0\n\n1 PZ 0\n2 PZ 5\n3 SO 9\n\nmode n\n\n",
    "cells.txt": "1 0 -1 imp:n=1\n2 0 1 -2 imp:n=1\n",
}
EDITS = [
    "imp", "imp_all", "vol", "cellnum", "surfnum", "matnum", "density", "void", "setmat", "surfconst", "reflect",
    "periodic", "periodic_any", "geom_and", "geom_or", "geom_left", "geom_right", "remove_cell", "clone_cell",
    "append_clone", "universe", "fraction", "title", "mode", "transform", "print_data", "dedupe", "add_children",
]


READ_OPS = ("read", "readtext", "readfix", "readrich", "readbig")
# surfaces of the big cell of a `readbig` problem (a geometry tree of n - 1 levels): ordinary, then around the depths at
# which the recursive walks (deepcopy, str, format, parse) stop fitting into the default recursion limit, then far beyond
BIG_SIZES = [3, 30, 120, 170, 200, 200, 250, 250, 300, 400, 600, 900, 1300]
HEAVY = 120  # the writer is quadratic in the depth of a geometry tree: problems deeper than this report instead of writing
BIG_EDITS = ["clone_cell", "append_clone", "geom_and", "geom_or", "imp", "vol", "cellnum", "remove_cell", "add_children", "surfnum", "title"]


def big_cell_text(n, number=1):
    """same text as tools/vlib/c17_impl.py:big_cell_text (kept here so that importing this file does not import MontePy)"""
    words = [f"-{i}" for i in range(1, n + 1)]
    lines = [f"{number} 0 " + " ".join(words[:10])]
    for i in range(10, n, 10):
        lines.append("      " + " ".join(words[i : i + 10]))
    lines.append("      imp:n=1")
    return "\n".join(lines)


def lighten(ops):
    """replace `write` by `report` on problems that hold a very deep cell (and on their deep copies)"""
    heavy = set()
    out = []
    for op in ops:
        if op[0] == "readbig":  # always succeeds (or fails for being too deep: the old problem stays)
            if op[2]["n"] > HEAVY:
                heavy.add(op[1])
            elif op[2]["n"] <= HEAVY:
                heavy.discard(op[1])
        elif op[0] == "deepcopy" and op[1] in heavy:  # any other read may fail and leave the deep problem in place
            heavy.add(op[2])
        if op[0] == "write" and op[1] in heavy:
            op = ["report", op[1]]
        out.append(op)
    return out


def gen_big_interleaving(rng):
    """two or three problems with one very large cell each (sizes from BIG_SIZES), then deep copies of problems and of
    cells, reports, geometry edits, more reads"""
    pids = [0, 1] + ([2] if rng.random() < 0.3 else [])
    ops = [["readbig", p, {"n": rng.choice(BIG_SIZES)}] for p in pids]
    rng.shuffle(ops)
    for _ in range(rng.randint(2, 8)):
        r = rng.random()
        p = rng.choice(pids)
        if r < 0.12:
            ops.append(["readbig", rng.choice([0, 1]), {"n": rng.choice(BIG_SIZES)}])
        elif r < 0.40:
            dst = rng.choice([3, 4])
            ops.append(["deepcopy", p, dst])
            if dst not in pids:
                pids.append(dst)
        elif r < 0.75:
            ops.append(["edit", p, rng.choice(BIG_EDITS), rng.randint(0, 2), rng.randint(0, 7), rng.randint(1, 9)])
        elif r < 0.90:
            ops.append(["report", p])
        else:
            ops.append(["write", p])
    for p in pids:
        ops.append(["report", p])
    return {"kind": "interleave", "ops": lighten(ops)}


def big_interleavings():
    """standing cases: an unrelated problem with a much larger cell is read before / between the events of a problem
    whose cell is deep-copied (as a problem, and alone)"""
    for a, b in ((900, 250), (600, 200)):
        yield {"kind": "interleave", "ops": [["readbig", 1, {"n": a}], ["readbig", 0, {"n": b}], ["deepcopy", 0, 2], ["report", 2]]}
        yield {"kind": "interleave", "ops": [["readbig", 0, {"n": b}], ["readbig", 1, {"n": a}], ["edit", 0, "clone_cell", 0, 0, 1], ["report", 0]]}
        yield {"kind": "interleave", "ops": [["readbig", 0, {"n": b}], ["deepcopy", 0, 2], ["readbig", 1, {"n": a}], ["deepcopy", 0, 3], ["report", 3], ["report", 1]]}
# one card per data-input family / parser class (tools/vlib/c17_impl.py: RICH_DATA, RICH_BAD)
RICH_KINDS = ["m", "mt", "tr", "mode", "kcode", "ksrc", "si", "sp", "sdef", "f", "fm", "fs", "nps", "vol"]
RICH_FAILS = ["cell", "surface", "read", "m", "mt", "tr", "mode", "kcode", "nps", "sdef", "f", "fm", "fs"]
SPECIAL = ["sdef", "f", "fm", "fs"]  # the cards for which DataInput loads a specialised parser


def gen_rich_opts(rng):
    opts = {}
    r = rng.random()
    if r < 0.40:
        opts["fail"] = rng.choice(RICH_FAILS + SPECIAL)
    if rng.random() < 0.6:
        opts["end"] = rng.choice(RICH_KINDS + SPECIAL)
    if rng.random() < 0.5:
        opts["first"] = rng.choice([k for k in RICH_KINDS + SPECIAL if k != opts.get("end")])
    return opts


def rich_reads():
    """every read that ends in each card family, and every read that fails in each parser class"""
    out = [["readrich", 7, {"end": k}] for k in RICH_KINDS]
    out += [["readrich", 7, {"fail": k}] for k in RICH_FAILS]
    out += [["readrich", 7, {"fail": k, "first": k}] for k in SPECIAL]
    return out


def gen_read_op(rng, pid):
    r = rng.random()
    if r < 0.30:
        return ["readfix", pid, rng.choice(FIX_OK)]
    if r < 0.42:
        return ["readfix", pid, rng.choice(FIX_BAD)]
    if r < 0.52:
        return ["readtext", pid, {"p.i": PERIODIC_TEXT}, "p.i"]
    if r < 0.60:
        return ["readtext", pid, READ_FIRST_TEXT, "top.i"]
    if r < 0.80:
        return ["readrich", pid, gen_rich_opts(rng)]
    if r < 0.88:
        return ["readbig", pid, {"n": rng.choice(BIG_SIZES)}]
    return ["read", pid, gen_files(rng, clean=rng.random() < 0.5), 0]


def gen_slotted_read_op(rng, pid):
    """reads reuse path strings deliberately"""
    return with_slot(rng, gen_read_op(rng, pid))


def gen_interleaving(rng):
    ops = [gen_slotted_read_op(rng, 0), gen_slotted_read_op(rng, 1)]
    if rng.random() < 0.5:
        ops.reverse()
    pids = [0, 1]
    for _ in range(rng.randint(1, 10)):
        r = rng.random()
        p = rng.choice(pids)
        if r < 0.12:
            ops.append(gen_slotted_read_op(rng, rng.choice([0, 1])))
        elif r < 0.60:
            ops.append(["edit", p, rng.choice(EDITS), rng.randint(0, 7), rng.randint(0, 7), rng.randint(1, 9)])
        elif r < 0.72:
            dst = rng.choice([2, 3])
            ops.append(["deepcopy", rng.choice(pids), dst])
            if dst not in pids:
                pids.append(dst)
        elif r < 0.90:
            ops.append(["write", p])
        else:
            ops.append(["report", p])
    for p in pids[:2]:
        ops.append(["write", p])
    return {"kind": "interleave", "ops": lighten(ops)}


def enumerated_interleavings(all_probes=True):
    """reads in both orders: a read of problem 1 that ends in each card family or fails in each parser class, before
    and after the read of an unrelated valid problem 0 (three probes), which is then written"""
    probes = [
        ["readrich", 0, {"first": "kcode"}],  # generic data cards before the first tally / source card
        ["readrich", 0, {"first": "sdef", "end": "nps"}],
        ["readfix", 0, "test.imcnp"],
    ]
    if not all_probes:
        probes = probes[:2]
    for other in rich_reads():
        o = ["readrich", 1, other[2]]
        for probe in probes:
            yield {"kind": "interleave", "ops": [o, probe, ["write", 0], ["report", 0]]}
            yield {"kind": "interleave", "ops": [probe, o, ["write", 0], ["report", 0], ["readrich", 2, {}], ["write", 2]]}


def project(ops, rel):
    return [op for op in ops if op_target(op) in rel]


def interleave_eval(case):
    """full history and, for every problem, the history with everything unrelated left out; all in pristine forks"""
    import time

    t0 = time.time()
    ops = case["ops"]
    full = run_isolated({"ops": ops, "state": True})
    if "failed" in full:
        return {"failed": full["failed"]}
    out = {"full": full["obs"], "proj": {}, "wall": round(time.time() - t0, 2)}
    for focus in sorted({op_target(op) for op in ops if op_target(op) is not None}):
        rel = related(ops, focus)
        idx = [i for i, op in enumerate(ops) if op_target(op) in rel]
        if len(idx) == len(ops):
            continue
        pr = run_isolated({"ops": [ops[i] for i in idx], "state": True})
        if "failed" in pr:
            return {"failed": pr["failed"]}
        out["proj"][str(focus)] = {"idx": idx, "obs": pr["obs"]}
    out["wall_all"] = round(time.time() - t0, 2)
    return out


def interleave_judge(case, ev):
    """first operation of some problem whose outcome depends on operations on unrelated problems"""
    for focus, pr in sorted(ev["proj"].items()):
        for k, i in enumerate(pr["idx"]):
            a, b = strip_obs(ev["full"][i]), strip_obs(pr["obs"][k])
            if a != b:
                return {"focus": int(focus), "op_index": i, "with_others": a, "alone": b}
    return None


def classify(ops, full_obs, verdict):
    """narrow signature of a history-dependence, computed from the failing case itself"""
    i = verdict["op_index"]
    focus = verdict["focus"]
    rel = related(ops, focus)
    op = ops[i]
    site = op[0] + (":" + op[2] if op[0] == "edit" else "")
    before = full_obs[i - 1].get("state", {}) if i > 0 else {}
    dropped = [o for o in ops[:i] if op_target(o) not in rel]
    # is a dropped operation acting on a deep copy that descends from a problem of the focus's family (or vice versa)?
    copy_family = False
    for o in dropped:
        t = op_target(o)
        if t is not None and (related(ops, t) & rel):
            copy_family = True
    latch = any(x.get("info", {}).get("cell_changed") or x.get("state", {}).get("latched") for x in full_obs[: i + 1])
    if latch:
        cls = "setter-latch"
    elif before.get("class_state"):
        cls = "class-attr-latch"
        site = before["class_state"][0] + " @ " + site
    elif before.get("interp"):
        cls = "interp-state-leak"  # a setting of the interpreter (recursion limit, warnings filters, cwd ...) was left changed
        site = before["interp"][0].split("=")[0] + " @ " + site
    elif op[0] in READ_OPS and before.get("log") and (not before.get("queue") or verdict["with_others"].get("v") == "ParsingError"):
        cls = "log-leak"  # a dirty log makes parse() return None: ParsingError
    elif op[0] in READ_OPS and before.get("queue"):
        cls = "queue-leak"
    elif op[0] in READ_OPS and before.get("log"):
        cls = "log-leak"
    elif copy_family:
        cls = "deepcopy-aliasing"
    elif op[0] in ("write", "report"):
        cls = "cross-problem-write"
    else:
        cls = "call-outcome"
    return {"mechanism": "shared-state", "class": cls, "site": site}


def interleave_shrink(case, verdict):
    """keep the focus family's operations; drop as many unrelated ones as possible, then family ones"""
    focus = verdict["focus"]

    def fails(ops):
        c = {"kind": "interleave", "ops": ops}
        ev = interleave_eval(c)
        if "failed" in ev:
            return False
        v = interleave_judge(c, ev)
        return v is not None and v["focus"] == focus

    ops = case["ops"][: verdict["op_index"] + 1]
    if not fails(ops):
        ops = case["ops"]
        if not fails(ops):
            return None
    rel = related(ops, focus)
    others = [op for op in ops if op_target(op) not in rel]

    def fails_without(keep_others):
        keep = [canon(o) for o in keep_others]
        cand, pool = [], list(keep)
        for op in ops:
            if op_target(op) in rel:
                cand.append(op)
            elif canon(op) in pool:
                pool.remove(canon(op))
                cand.append(op)
        return fails(cand)

    kept = shrink_list(others, fails_without)
    keep = [canon(o) for o in kept]
    cand = []
    for op in ops:
        if op_target(op) in rel:
            cand.append(op)
        elif canon(op) in keep:
            keep.remove(canon(op))
            cand.append(op)
    cand = shrink_list(cand, fails)
    return {"kind": "interleave", "ops": cand}


# --------------------------------------------------------------------------- (b) (prefix, call) pairs
PROPS_OF_INTEREST = None


def all_prop_names():
    return sorted({p for (_, p) in decl_kinds()} | {"volume", "universe", "lattice", "is_reflecting", "is_white_boundary", "surface_constants"})


def build_call_matrix():
    """every (object, property) pair that exists x every value of the pool, discovered on the real classes"""
    inv = run_isolated({"ops": [["inventory", all_prop_names()]]})
    if "failed" in inv:
        raise MachineryError(f"inventory failed: {inv['failed']}")
    makers = sorted(impl().MAKERS)
    calls = []
    for mk, props in sorted(inv["obs"][0]["v"].items()):
        for prop, owner, has_setter in props:
            for vm in makers:
                calls.append(["setprop", mk, prop, vm])
    return calls


def strip_call(o):
    return {k: o[k] for k in ("t", "v", "gate", "now", "cls", "sha", "n", "nums") if k in o}


def fresh_outcome(call):
    r = run_isolated({"ops": [call]})
    return r if "failed" in r else strip_call(r["obs"][0])


def sequence_outcomes(calls):
    r = run_isolated({"ops": calls, "state": True})
    return r if "failed" in r else r["obs"]


PREFIX_EXTRAS = [
    ["read", 7, [[0, [["bad", "logThenRaise"]]]], 0],
    ["read", 7, [[0, [["read", 8, "ok"], ["read", 9, "ok"]]]], 0],
    ["read", 7, [[0, [["bad", "syntax"]]]], 0],
    ["readfix", 7, "test.imcnp"],
    ["readfix", 7, "test_bad_syntax.imcnp"],
    ["readtext", 7, {"p.i": PERIODIC_TEXT}, "p.i"],
    ["edit", 7, "periodic", 2, 0, 1],
    ["edit", 7, "geom_and", 0, 1, 1],
    ["edit", 7, "geom_left", 0, 1, 1],
    ["write", 7],
    ["deepcopy", 7, 8],
]
CALL_EXTRAS = [
    ["readtext", 5, READ_FIRST_TEXT, "top.i"],
    ["read", 5, [[0, [["read", 1, "ok"], ["card", 3, 1, 1, False]]], [1, [["card", 4, 0, 1, False]]]], 0],
    ["readfix", 5, "testRead.imcnp"],
    ["readfix", 5, "test_bad_syntax.imcnp"],
]


MAKE_CALLS = [
    # direct construction from an Input — every parser class and data-input family, valid and malformed
    ["make", "cell", "1 0 -1 imp:n=1"],
    ["make", "cell", "2 1 -1.5 -1 2 imp:n=1 vol=3"],
    ["make", "cell", "3 0 2 ) ("],
    ["make", "surface", "1 pz 0"],
    ["make", "surface", "2 cz 3"],
    ["make", "surface", "3 so 10 )"],
    ["make", "readinput", "read file=a.txt"],
    ["make", "material", "m1 1001.80c 2 8016.80c 1"],
    ["make", "thermal", "mt1 lwtr.20t"],
    ["make", "transform", "tr1 0 0 1"],
    ["make", "mode", "mode n p"],
    ["make", "volume", "vol 1 2"],
    ["make", "importance", "imp:n 1 0"],
    ["make", "universe_input", "u 1 2"],
    ["make", "lattice", "lat 1 1"],
    ["make", "fill", "fill 1 2"],
]
for _text in [
    "m1 1001.80c 2 8016.80c 1", "mt1 lwtr.20t", "tr1 0 0 1", "mode n", "vol 1 2", "imp:n 1 0",
    "nps 1e6", "ksrc 0 0 0", "kcode 1000 1.0 10 50", "si1 l 1 2 3", "sp1 d 0.2 0.3 0.5", "print", "cut:n 1e6 0.1",
    "sdef pos=0 0 0 erg=1", "f4:n 1", "f4:n (1 2) 3", "fm4 1.0", "fs4 -1", "e4 1 2 3",
    "sdef pos=0 0 0 erg=", "f4:n (1 2", "nps (", "m1 (",
]:
    MAKE_CALLS.append(["make", "data", _text])  # parse_data: the path a read takes
    MAKE_CALLS.append(["make", "datainput", _text])  # DataInput(input) without the internal prefix argument


# very large cells built by hand, and deep copies of free-standing cells (their outcome depends on the recursion limit in
# force; sizes far from the thresholds: the stack depth of the harness differs by a few frames between the runners)
MAKE_CALLS += [
    ["make", "bigcell", big_cell_text(600)],
    ["make", "bigcell", big_cell_text(1300)],
    ["make", "bigcellcopy", big_cell_text(200)],
    ["make", "bigcellcopy", big_cell_text(40)],
]
BIG_PREFIX_READS = [["readbig", 7, {"n": 600}], ["readbig", 7, {"n": 250}]]


def pairs_shrink(prefix, call, fresh):
    def fails(pre):
        obs = sequence_outcomes(pre + [call])
        return isinstance(obs, list) and strip_call(obs[-1]) != fresh

    if not fails(prefix):
        return None
    return shrink_list(prefix, fails)


# --------------------------------------------------------------------------- (c) fresh interpreters, hash seeds
def run_in_fresh_interpreter(runs, hashseed=None, timeout=None):
    """one new /venv/bin/python per call; it executes each run in a fork of itself"""
    env = dict(os.environ)
    env["VERIF_REPO"] = REPO
    if hashseed is not None:
        env["PYTHONHASHSEED"] = str(hashseed)
    data = "".join(json.dumps(r) + "\n" for r in runs)
    timeout = timeout or (120 + 60 * len(runs))
    try:
        r = subprocess.run(["/venv/bin/python", IMPL], input=data, capture_output=True, text=True, env=env, timeout=timeout)
    except subprocess.TimeoutExpired:
        return None
    lines = r.stdout.splitlines()
    if r.returncode != 0 or len(lines) != len(runs):
        raise MachineryError(f"fresh interpreter failed rc={r.returncode}: {r.stderr[-600:]}")
    return [json.loads(l) for l in lines]


def _fresh_job(job):
    runs, seed = job
    return run_in_fresh_interpreter(runs, seed)


# --------------------------------------------------------------------------- corpus
def load_corpus():
    cases = []
    if os.path.isdir(CORPUS_DIR):
        for f in sorted(os.listdir(CORPUS_DIR)):
            if f.endswith(".json"):
                with open(os.path.join(CORPUS_DIR, f)) as fh:
                    data = json.load(fh)
                c = data.get("case", data)
                c = c.get("case", c) if "kind" not in c else c
                c["corpus"] = f
                cases.append(c)
    return cases


# --------------------------------------------------------------------------- reporting helpers (always confirmed)
_SEEN = {}


def _seen(sig, bump=False):
    k = canon(sig)
    if bump:
        _SEEN[k] = _SEEN.get(k, 0) + 1
    return _SEEN.get(k, 0)


def report_interleave(chk, case, first_verdict):
    """confirm by re-running the single case in the parent; shrink; report"""
    ev = interleave_eval(case)
    v = None if "failed" in ev else interleave_judge(case, ev)
    if v is None:
        chk.count("flaky:interleave-not-reproduced")
        return
    sig0 = classify(case["ops"], ev["full"], v)
    if _seen(sig0) >= 2:  # already minimised twice for this signature: count it, keep the smaller replay
        chk.violation(
            sig0,
            f"{sig0['class']} at {sig0['site']}: problem {v['focus']} behaves differently when operations on unrelated problems precede it",
            {"case": {k: case[k] for k in ("kind", "ops")}, "verdict": v},
        )
        return
    small = interleave_shrink(case, v) or case
    ev2 = interleave_eval(small)
    v2 = None if "failed" in ev2 else interleave_judge(small, ev2)
    if v2 is None:
        small, ev2, v2 = case, ev, v
    sig = classify(small["ops"], ev2["full"], v2)
    _seen(sig, bump=True)
    chk.violation(
        sig,
        f"{sig['class']} at {sig['site']}: problem {v2['focus']} behaves differently when operations on unrelated problems precede it",
        {"case": {k: small[k] for k in ("kind", "ops")}, "verdict": v2},
    )


def report_pair(chk, prefix, call, fresh, got, obs):
    again_fresh = fresh_outcome(call)
    quick_sig = {"pair-call": call[:3]}
    if _seen(quick_sig) >= 2 or sum(_SEEN.values()) >= 12:
        # enough minimised replays of this call / of this run: confirm once more and count
        obs2 = sequence_outcomes(prefix + [call])
        if isinstance(obs2, list) and "failed" not in again_fresh and strip_call(obs2[-1]) != again_fresh:
            chk.count("pair:further-differences-not-minimised")
        return
    small = pairs_shrink(prefix, call, again_fresh) if "failed" not in again_fresh else None
    if small is None or again_fresh != fresh:
        chk.count("flaky:pair-not-reproduced")
        return
    seq = sequence_outcomes(small + [call])
    latch = any(o.get("info", {}).get("cell_changed") or o.get("state", {}).get("latched") for o in seq if isinstance(o, dict))
    before = seq[-2].get("state", {}) if len(seq) > 1 else {}
    info = seq[-1].get("info", {})
    site = f"{info.get('owner')}.{call[2]}" if call[0] == "setprop" and info.get("owner") else call[0]
    if call[0] == "make":
        site = f"make:{call[1]}"
    if latch:
        cls = "setter-latch"
    elif before.get("class_state"):
        cls = "class-attr-latch"
        site = before["class_state"][0] + " @ " + site
    elif before.get("interp"):
        cls = "interp-state-leak"
        site = before["interp"][0].split("=")[0] + " @ " + site
    elif before.get("log") and (call[0].startswith("read") or not info):
        cls = "log-leak"  # a read, or the construction of the call's objects from text, met a dirty parser log
    elif call[0].startswith("read") and before.get("queue"):
        cls = "queue-leak"
    else:
        cls = "call-outcome"
    sig = {"mechanism": "shared-state", "class": cls, "site": site}
    _seen(quick_sig, bump=True)
    chk.violation(
        sig,
        f"{cls} at {site}: the call's outcome after a prefix of calls on other objects differs from its outcome in a fresh interpreter",
        {"case": {"kind": "pair", "prefix": small, "call": call}, "fresh": again_fresh, "after_prefix": strip_call(seq[-1])},
    )


def check_world(chk, drv, cases):
    """U-world correspondence; every disagreement is re-run in the parent before it is reported"""
    results = pmap(lambda c: world_compare(c, None), cases, workers=WORKERS)
    todo = [(i, r) for i, r in enumerate(results) if "mcase" in r]
    model = drv.batch([r["mcase"] for _, r in todo]) if drv.ok else None
    nskip = sum(1 for r in results if r.get("skip"))
    chk.count("world:out-of-model", nskip)
    for r in results:
        if "failed" in r:
            chk.count("flaky:world-run-failed")
    if model is None:
        return results
    for (i, r), m in zip(todo, model):
        chk.traces_validated += 1
        if isinstance(m, dict) and "error" in m:
            raise MachineryError(f"model driver rejected a case: {m['error']}")
        if merge_model(r["mcase"], m) != r["impl"]:
            chk.disagreements_checked += 1
            case = cases[i]

            def differs(ops, case=case):
                c = dict(case, ops=ops)
                rr = world_compare(c, None)
                if "mcase" not in rr:
                    return False
                return merge_model(rr["mcase"], drv.batch([rr["mcase"]])[0]) != rr["impl"]

            if not differs(case["ops"]):
                chk.count("flaky:world-disagreement-not-reproduced")
                continue
            ops = shrink_list(case["ops"], differs) if len(chk.broken) < 2 else case["ops"]
            c = dict(case, ops=ops)
            rr = world_compare(c, None)
            chk.broken_obligation(
                "correspondence",
                "U-world (Model/World.lean vs input_syntax_reader / parser_base / utilities setters / problem edits)",
                {"impl": rr.get("impl"), "model": merge_model(rr["mcase"], drv.batch([rr["mcase"]])[0]) if "mcase" in rr else None},
                {"kind": "world", "ops": ops},
            )
    return results


def note_ops(chk, ops, obs):
    for op, o in zip(ops, obs):
        chk.count("op:" + op[0] + (":" + op[2] if op[0] == "edit" else ""))
        chk.count("out:" + (o.get("v") if o.get("t") == "err" else o.get("t", "?")))


# --------------------------------------------------------------------------- the check
def run(chk):
    chk.rule = (
        "every case starts from an interpreter that has only imported MontePy (fork of the pristine check process, or a "
        "new subprocess). world: modelled histories of <= 12 operations (reads of generated file trees with read cards, "
        "missing files and failures at every stage; edits; deep copies; writes; generated-setter calls) compared with the "
        "model. interleave: histories on 2-4 real problems (fixtures of MontePy's test-suite, generated problems, failing "
        "reads, 28 kinds of API edits, deep copies, writes, reports), each compared with its projections on every "
        "problem's family. pair: a property-setter call (every generated property on every concrete class x 31 values) "
        "or a read, alone versus after a shuffled prefix of other calls. Cells with geometry trees of up to 40 levels "
        "everywhere; problems with one very large cell (3 .. 1300 surfaces: around and far beyond the depths at which the "
        "recursive walks stop fitting into the recursion limit) are read, deep-copied (as problems, as cells), edited and "
        "reported in histories of their own and mixed into the others; the interpreter's own settings (recursion limit, "
        "warnings filters, cwd, environ, sys.path, locale, decimal / numpy / random state, gc, signal handlers ...) are "
        "snapshotted before a history and after every operation (U-world compares the recursion limit with the model; "
        "a behavioural difference with a changed setting is classified interp-state-leak). A case is non-trivial if it has >= 2 operations "
        "on >= 2 different objects/problems; distinct = distinct canonical JSON."
    )
    chk.assumptions = [
        "copy.deepcopy reaches no class-level or module-level object (modelled as a value clone; judged on the real code by the interleavings)",
        "the world model contains the shared state found by reading the source (read-card queue, parser log, setter closures) and the interpreter's recursion limit; the translator pins the list of `global` statements, class-level instances, runtime writes to class/module state and every call that sets interpreter-wide state (sys.set*, sys.path, os.chdir/environ, warnings filters, locale, numpy/decimal/random, signal, atexit, gc), so a new one re-opens C17_world_covers_shared_state; state hidden elsewhere is detectable only by the differential runs",
        "frames per tree level of copy.deepcopy (Interp.copyPer/copyBase) are measured constants; the theorems hold for every value, the correspondence uses depths far from the thresholds; recursive walks other than deepcopy (parse beyond ~1000 surfaces, str, format) are judged on the real code only",
        "read-card trees in the model are acyclic (a cycle hangs the code: property C20); fuel 64 >= files opened",
        "threads and generators of two reads advanced alternately are outside the property's quantifier (sequential histories)",
    ]
    chk.trusted_base = [
        "Lean 4.33.0 kernel",
        "hand-written model lean/MontePyVerif/Model/World.lean, tied to the code by Gen/Setters.lean (AST facts) and the U-world correspondence of this run",
        "translator plug-in tools/extractors/c17_setters.py (AST pattern matching for nonlocal/global/closure mutation, queue reset, restart calls)",
        "harness tools/props/c17.py + tools/vlib/c17_impl.py: a fork of a process that only imported MontePy equals a fresh interpreter (validated on every run against real subprocesses)",
    ]
    leanio.prove(chk, "MontePyVerif.Props.C17", THEOREMS, NS)
    if chk.thorough:
        leanio.leanchecker(chk, ["MontePyVerif.Props.C17"])
    drv = leanio.Driver(chk, "drv_c17")
    impl()  # import MontePy now (and never execute it in this process)

    corpus = load_corpus()

    import time

    t_phase = time.time()
    chk.extra["phase_wall_s"] = {}

    def phase(name):
        nonlocal t_phase
        chk.extra["phase_wall_s"][name] = round(time.time() - t_phase, 1)
        t_phase = time.time()

    phase("prove+build")
    # ---- U-world ---------------------------------------------------------------------------------------------
    rng = chk.rng("world")
    wcases = [c for c in corpus if c.get("kind") == "world"]
    nwc = len(wcases)
    exh = list(gen_world_exhaustive())
    # when an obligation no longer builds (e.g. the shared-state inventory changed) the failing-input search starts
    # with the dirty-then-reuse histories, in their extended form
    search_mode = any(not o["ok"] for o in chk.obligations)
    targeted = list(targeted_histories(extended=search_mode or chk.thorough))
    chk.extra["failing_input_search"] = {"obligation_broken": search_mode, "targeted_histories": len(targeted)}
    wcases += targeted
    bigs = list(big_histories())
    wcases += bigs
    wcases += exh
    wcases += [gen_world_case(rng) for _ in range(chk.pick(500, 12000))]
    wres = check_world(chk, drv, wcases)
    chk.units["U-world"] = {
        "corpus": nwc,
        "targeted_dirty_then_reuse": len(targeted),
        "deep_cells_and_recursion_limit": len(bigs),
        "exhaustive_small": len(exh),
        "random": len(wcases) - nwc - len(exh) - len(targeted) - len(bigs),
    }
    chk.exhaustive = {"U-world": "all histories of length <= 2 over an 11-operation alphabet touching each piece of shared state, between a first read and five probes"}
    for case, r in zip(wcases, wres):
        nt = len({canon(op[:2]) for op in case["ops"]}) >= 2
        chk.note_case(case, nt, sample_every=4000)
        if "obs" in r:
            note_ops(chk, case["ops"], r["obs"])
            for o in r["obs"]:
                st = o.get("state", {})
                if st.get("log"):
                    chk.count("state:log-nonempty-after-op")
                if st.get("limit", 1000) != 1000:
                    chk.count("state:recursion-limit-changed-after-op")
                if st.get("queue"):
                    chk.count("state:queue-nonempty-after-op")
                for name in st.get("interp", ()):
                    chk.count("state:interpreter-setting-changed:" + name.split("=")[0])

    phase("U-world")
    # ---- (a) interleavings -----------------------------------------------------------------------------------
    rng = chk.rng("interleave")
    icases = [c for c in corpus if c.get("kind") == "interleave"]
    nic = len(icases)
    # the modelled cases are histories on several problems too: judge them with the same oracle
    icases += [dict(c, kind="interleave") for c in wcases[nwc : nwc + len(targeted) + len(bigs) + chk.pick(120, 1500)]]
    nfrom_world = len(icases) - nic
    enum_i = list(enumerated_interleavings(chk.thorough)) + list(big_interleavings())
    icases += enum_i
    icases += [gen_interleaving(rng) for _ in range(chk.pick(150, 4000))]
    icases += [gen_big_interleaving(rng) for _ in range(chk.pick(24, 600))]
    ievs = pmap(interleave_eval, icases, workers=WORKERS, chunksize=2)
    chk.units["interleavings"] = {
        "corpus": nic,
        "modelled": nfrom_world,
        "enumerated_reads_in_both_orders": len(enum_i),
        "random": len(icases) - nic - nfrom_world - len(enum_i),
    }
    for case, ev in zip(icases, ievs):
        if "failed" in ev:
            chk.count("flaky:interleave-run-failed")
            continue
        chk.note_case({k: case[k] for k in ("kind", "ops")}, len(ev["proj"]) >= 1, sample_every=1500)
        chk.count("interleave:projections", len(ev["proj"]))
        note_ops(chk, case["ops"], ev["full"])
        v = interleave_judge(case, ev)
        if v is not None:
            report_interleave(chk, case, v)

    slow = sorted(((ev.get("wall_all", 0), ev.get("wall", 0), json.dumps(c["ops"])[:400]) for c, ev in zip(icases, ievs)), reverse=True)[:5]
    chk.extra["slowest_interleavings"] = [{"wall_with_projections_s": a, "wall_full_history_s": b, "ops": o} for a, b, o in slow]
    phase("interleavings")
    # ---- (b) (prefix, call) ----------------------------------------------------------------------------------
    rng = chk.rng("pairs")
    matrix = build_call_matrix()
    self_typed = [c for c in matrix if c[2] in ("periodic_surface", "left", "right")]
    others = [c for c in matrix if c not in self_typed]
    sample = self_typed + (others if chk.thorough else rng.sample(others, min(len(others), 600))) + CALL_EXTRAS + MAKE_CALLS
    fresh = pmap(fresh_outcome, sample, workers=WORKERS, chunksize=16)
    fresh_of = {}
    for c, f in zip(sample, fresh):
        if "failed" in f:
            chk.count("flaky:fresh-run-failed")
        else:
            fresh_of[canon(c)] = f
    calls = [c for c in sample if canon(c) in fresh_of]
    sequences = []
    pcases = [c for c in corpus if c.get("kind") == "pair"]
    for c in pcases:
        sequences.append(c["prefix"] + [c["call"]])
        if canon(c["call"]) not in fresh_of:
            f = fresh_outcome(c["call"])
            if "failed" not in f:
                fresh_of[canon(c["call"])] = f
    # exhaustive: every direct construction right after every read that ends in a card family / fails in a parser class
    # (the prefix runs once in a child; each call runs in its own fork of the state the prefix left behind)
    prefix_reads = rich_reads() + BIG_PREFIX_READS
    fan_calls = [c for c in MAKE_CALLS if canon(c) in fresh_of]
    fans = pmap_any(lambda pre: run_isolated({"ops": [pre], "fanout": fan_calls, "state": True}), prefix_reads, WORKERS)
    nenum = 0
    for pre, fr in zip(prefix_reads, fans):
        if "failed" in fr or "fan" not in fr:
            chk.count("flaky:fanout-run-failed")
            continue
        for call, o in zip(fan_calls, fr["fan"]):
            if "obs" not in o:
                chk.count("flaky:fanout-call-failed")
                continue
            nenum += 1
            chk.evaluations += 1
            chk.count("pair:read-then-" + call[0])
            got = strip_call(o["obs"][0])
            if got != fresh_of[canon(call)]:
                report_pair(chk, [pre], call, fresh_of[canon(call)], got, None)
    for _ in range(chk.pick(80, 1500)):
        seq = [list(c) for c in rng.sample(calls, min(len(calls), rng.choice([20, 60, 150])))]
        # unrelated reads, failing reads, edits and writes in between
        for _ in range(rng.randint(0, 4)):
            seq.insert(rng.randrange(len(seq) + 1), rng.choice(PREFIX_EXTRAS))
        for _ in range(rng.randint(0, 3)):
            seq.insert(rng.randrange(len(seq) + 1), rng.choice(prefix_reads))
        for _ in range(8):
            seq.insert(rng.randrange(len(seq) + 1), list(rng.choice(MAKE_CALLS)))
        # make sure the self-typed properties meet every class order
        for _ in range(6):
            seq.insert(rng.randrange(len(seq) + 1), list(rng.choice(self_typed)))
        sequences.append(seq)
    seq_obs = pmap(sequence_outcomes, sequences, workers=WORKERS, chunksize=2)
    npairs = 0
    for seq, obs in zip(sequences, seq_obs):
        if not isinstance(obs, list):
            chk.count("flaky:sequence-run-failed")
            continue
        reported = False
        for k, (call, o) in enumerate(zip(seq, obs)):
            key = canon(call)
            if key not in fresh_of or op_target(call) == 7:
                continue
            npairs += 1
            chk.count("pair:" + call[0])
            if strip_call(o) != fresh_of[key] and not reported:
                reported = True  # the state is already known to be corrupt: stop judging this sequence
                report_pair(chk, seq[:k], call, fresh_of[key], strip_call(o), obs)
        chk.note_case({"kind": "pairs", "seq": seq}, True, sample_every=400)
    chk.units["pairs"] = {
        "calls_in_matrix": len(matrix),
        "calls_with_fresh_outcome": len(fresh_of),
        "self_typed_calls": len(self_typed),
        "sequences": len(sequences),
        "enumerated_read_then_construct_pairs": nenum,
        "construct_calls": len(MAKE_CALLS),
        "pairs_compared": npairs,
    }
    for c, f in fresh_of.items():
        chk.count("fresh:" + (f.get("v") if f.get("t") == "err" else f.get("t", "?")))

    phase("pairs")
    # ---- (c) fresh interpreters and hash seeds ------------------------------------------------------------------
    rng = chk.rng("fresh")
    jobs, meta = [], []
    hs_cases = [c for c in icases[:nic]] + rng.sample(icases[nic + nfrom_world :], chk.pick(12, 120))
    for seed in (0, 1, 12345):
        runs = []
        for case in hs_cases:
            ops = case["ops"]
            runs.append({"ops": ops, "state": True})
            for focus in sorted({op_target(op) for op in ops if op_target(op) is not None}):
                rel = related(ops, focus)
                if len(project(ops, rel)) != len(ops):
                    runs.append({"ops": project(ops, rel), "state": True})
        for lo in range(0, len(runs), 40):
            jobs.append((runs[lo : lo + 40], seed))
            meta.append(("hashseed", seed))
    # (prefix, call) in genuinely fresh interpreters: one interpreter for the call alone, one for prefix + call
    fresh_pairs = []
    for _ in range(chk.pick(10, 60)):
        call = list(rng.choice(self_typed + CALL_EXTRAS + MAKE_CALLS + MAKE_CALLS))
        prefix = [list(c) for c in rng.sample(self_typed, 5)] + [rng.choice(PREFIX_EXTRAS), rng.choice(prefix_reads)]
        rng.shuffle(prefix)
        fresh_pairs.append((prefix, call))
    for c in pcases:
        fresh_pairs.append((c["prefix"], c["call"]))
    for prefix, call in fresh_pairs:
        jobs.append(([{"ops": [call]}], None))
        meta.append(("alone", None))
        jobs.append(([{"ops": prefix + [call], "state": True}], None))
        meta.append(("after", None))
    outs = pmap(_fresh_job, jobs, workers=WORKERS, chunksize=1)
    # hash seeds: judge each seed's runs exactly as in (a)
    k = 0
    nseed_cases = 0
    per_seed = {}
    for (kind, seed), (runs, _), out in zip(meta, jobs, outs):
        if kind != "hashseed":
            continue
        per_seed.setdefault(seed, [])
        per_seed[seed] += [None] * len(runs) if out is None else out
    for seed, results in per_seed.items():
        pos = 0
        for case in hs_cases:
            ops = case["ops"]
            full = results[pos]
            pos += 1
            ev = {"full": None if full is None else full.get("obs"), "proj": {}}
            okcase = ev["full"] is not None
            for focus in sorted({op_target(op) for op in ops if op_target(op) is not None}):
                rel = related(ops, focus)
                idx = [i for i, op in enumerate(ops) if op_target(op) in rel]
                if len(idx) != len(ops):
                    pr = results[pos]
                    pos += 1
                    if pr is None or "obs" not in pr:
                        okcase = False
                    else:
                        ev["proj"][str(focus)] = {"idx": idx, "obs": pr["obs"]}
            if not okcase:
                chk.count("flaky:hashseed-run-failed")
                continue
            nseed_cases += 1
            chk.evaluations += 1
            v = interleave_judge(case, ev)
            if v is not None:
                chk.count(f"hashseed:{seed}:difference")
                report_interleave(chk, case, v)
    # fresh pairs
    alone = [o for (kind, _), o in zip(meta, outs) if kind == "alone"]
    after = [o for (kind, _), o in zip(meta, outs) if kind == "after"]
    nfresh = 0
    for (prefix, call), a, b in zip(fresh_pairs, alone, after):
        if not a or not b or "obs" not in a[0] or "obs" not in b[0]:
            chk.count("flaky:fresh-interpreter-run-failed")
            continue
        nfresh += 1
        chk.evaluations += 1
        fa, fb = strip_call(a[0]["obs"][0]), strip_call(b[0]["obs"][-1])
        # the fork of the check process must agree with a genuinely fresh interpreter
        ff = fresh_outcome(call)
        if "failed" not in ff and ff != fa:
            again = run_in_fresh_interpreter([{"ops": [call]}])
            if again and "obs" in again[0] and strip_call(again[0]["obs"][0]) != fresh_outcome(call):
                chk.broken_obligation(
                    "correspondence",
                    "harness: fork of the pristine check process vs fresh interpreter",
                    {"fork": ff, "fresh_interpreter": fa},
                    {"kind": "pair", "prefix": [], "call": call},
                )
        if fa != fb:
            report_pair(chk, prefix, call, fa, fb, b[0]["obs"])
    phase("fresh-interpreters")
    chk.units["fresh-interpreters"] = {
        "hashseeds": [0, 1, 12345],
        "interleavings_per_seed": len(hs_cases),
        "interleavings_judged": nseed_cases,
        "prefix_call_pairs_in_new_interpreters": nfresh,
    }


def replay(chk, payload):
    chk.rule = "replay of one stored case"
    case = payload
    if payload.get("verdict") == "no-failing-input-found":
        case = next((b["case"] for b in payload["no_longer_checks"] if b.get("case")), {})
    for _ in range(3):  # replay files nest the case: {"case": {"case": {...}, "verdict": ...}}
        if "kind" not in case and isinstance(case.get("case"), dict):
            case = case["case"]
    impl()
    kind = case.get("kind")
    chk.note_case(case)
    if kind == "interleave":
        ev = interleave_eval(case)
        if "failed" in ev:
            raise MachineryError(f"run failed: {ev['failed']}")
        v = interleave_judge(case, ev)
        if v is not None:
            report_interleave(chk, case, v)
    elif kind == "pair":
        f = fresh_outcome(case["call"])
        obs = sequence_outcomes(case["prefix"] + [case["call"]])
        if "failed" in f or not isinstance(obs, list):
            raise MachineryError("run failed")
        if strip_call(obs[-1]) != f:
            report_pair(chk, case["prefix"], case["call"], f, strip_call(obs[-1]), obs)
    elif kind == "world":
        drv = leanio.Driver(chk, "drv_c17")
        check_world(chk, drv, [case])
        ic = dict(case, kind="interleave")
        ev = interleave_eval(ic)
        if "failed" not in ev:
            v = interleave_judge(ic, ev)
            if v is not None:
                report_interleave(chk, ic, v)
    else:
        raise MachineryError(f"unknown replay kind {kind!r}")
    chk.add_obligation("replay", True)
