"""C18 — duplicate-surface removal never changes any cell's region.

prove       : lean/MontePyVerif/Props/C18.lean (loop invariant over the surface list, structural induction over
              geometry trees; the duplicate predicate as a truth-table characterisation of the three finders)
correspond  : unit U-dedupe — Model/Dedupe.lean vs MCNP_Problem.remove_duplicate_surfaces on problems read by
              montepy.read_input from generated text (surviving numbers, every cell's geometry tree, cell.surfaces,
              periodic links), the model being fed the live objects' state
judge       : the property itself on the observations of the real code (vlib/dedupe.py: judge)
"""
import copy
import glob
import json
import os
from decimal import Decimal

from vlib import leanio
from vlib.core import VERIF, MachineryError, canon
from vlib.par import pmap

META = {
    "property_id": "C18",
    "technique": "Lean 4 proof about a hand-written model (loop invariant + structural induction); generated class table; differential correspondence model vs implementation; property oracle on the real code",
    "design_ref": "6 C18",
}

THEOREMS = [
    "C18_finders_modelled",  # generated table: every class overriding find_duplicate_surfaces is a modelled finder
    "C18_finder_types",      # generated table: the mnemonics built as finder classes
    "C18_base_finder_modelled",  # generated: the base class's finder (run by Surface, GeneralPlane) is the modelled `return []`
    "C18_find_iff",          # the three finders return exactly the Spec.dup partners of self
    "C18_dup_symm",          # the duplicate relation (hence the repaired Transform.equivalent) is symmetric
    "C18_only",              # removed => mapped to a surviving duplicate
    "C18_same_arity",        # merged => same mnemonic and equally many constants (a prefix is not a duplicate)
    "C18_generic_kept",      # a surface of a class without its own finder finds nothing, is never removed, never a target
    "C18_map_domain",        # domain of matching_map = to_delete
    "C18_map_range",         # range of matching_map is disjoint from to_delete
    "C18_removed_iff",       # to_delete = the numbers that are gone afterwards
    "C18_region",            # every cell's region evaluates the same under the identification
    "C18_same_sense",        # geometry' = geometry with leaves re-pointed, sides and operators untouched
    "C18_clean",             # no leaf / cell.surfaces entry / collection member / periodic link is removed
    "C18_untouched",         # non-duplicates survive; survivors and unaffected cells are unchanged
    "C18_wf_preserved",      # the hypotheses hold again after the call
    "C18_history",           # ... hence before every call of any sequence of calls
]

UNIT = "U-dedupe (Model/Dedupe.lean vs mcnp_problem.remove_duplicate_surfaces)"

# ------------------------------------------------------------------------------------------------ generators
FINDER_TYPES = {
    "PX": ("AxisPlane", 1), "PY": ("AxisPlane", 1), "PZ": ("AxisPlane", 1),
    "CX": ("CylinderOnAxis", 1), "CY": ("CylinderOnAxis", 1), "CZ": ("CylinderOnAxis", 1),
    "C/X": ("CylinderParAxis", 3), "C/Y": ("CylinderParAxis", 3), "C/Z": ("CylinderParAxis", 3),
}
# mnemonics built as the plain Surface / GeneralPlane class, with the numbers of constants MCNP accepts for them:
# several of them come in more than one length (P: coefficients or three points; KZ, K/Z: optional sheet entry +-1;
# X, Z: one, two or three coordinate pairs), and a shorter card is a *different* surface, not a duplicate of the
# longer one that starts with the same numbers
OTHER_ARITIES = {"P": [4, 9], "SO": [1], "S": [4], "SZ": [2], "KZ": [2, 3], "K/Z": [4, 5], "K/X": [4, 5],
                 "Z": [2, 4, 6], "X": [2, 4, 6], "GQ": [10]}
OTHER_TYPES = {t: a[0] for t, a in OTHER_ARITIES.items()}
SIBLING = {"PX": "PY", "PY": "PZ", "PZ": "PX", "CX": "CY", "CY": "CZ", "CZ": "CX", "C/X": "C/Y", "C/Y": "C/Z",
           "C/Z": "C/X", "P": "S", "S": "P", "SO": "CZ", "KZ": "SZ", "SZ": "KZ", "K/Z": "K/X", "K/X": "K/Z",
           "Z": "X", "X": "Z", "GQ": "SO"}
DELTAS = ["1e-7", "1e-5", "1e-3", "0.125", "0.6"]
BASES = ["0", "1", "1.5", "2.5", "0.25", "3", "10", "0.1"]
VARIANTS = ["equal", "const", "const2", "type", "tr_same", "tr_near", "tr_far", "tr_rot", "tr_deg", "tr_m2a",
            "periodic", "reflecting", "white", "arity"]


def dec(x):
    s = format(Decimal(x).normalize(), "f")
    return s


def nconsts(t):
    return FINDER_TYPES[t][1] if t in FINDER_TYPES else OTHER_TYPES[t]


def arities(t):
    """the numbers of constants a card of this mnemonic may carry"""
    return [FINDER_TYPES[t][1]] if t in FINDER_TYPES else OTHER_ARITIES[t]


def fill_consts(rng, t, cs, n):
    """`cs` cut or continued to `n` constants: the common prefix is kept as it is"""
    cs = list(cs[:n])
    while len(cs) < n:
        if t.startswith("K") and len(cs) == max(arities(t)) - 1:
            cs.append(rng.choice(["-1", "1"]))  # the sheet entry of a cone
        else:
            cs.append(rng.choice(BASES))
    return cs


def base_consts(rng, t):
    n = rng.choice(arities(t))
    cs = fill_consts(rng, t, [], n)
    if t.startswith("C") or t in ("SO", "S", "SZ"):
        cs[-1] = rng.choice(["0.5", "1", "2.5", "10"])  # a radius: positive
    return cs


def transforms_pool(delta):
    d = Decimal(delta)
    ident = ["1", "0", "0", "0", "1", "0", "0", "0", "1"]
    rotz = ["0", "1", "0", "-1", "0", "0", "0", "0", "1"]
    return [
        {"n": 1, "deg": False, "d": ["0", "0", "1"], "r": [], "m2a": True},
        {"n": 2, "deg": False, "d": ["0", "0", dec(Decimal(1) + d)], "r": [], "m2a": True},      # near TR1
        {"n": 3, "deg": False, "d": ["0", "5", "1"], "r": [], "m2a": True},                       # far from TR1
        {"n": 4, "deg": False, "d": ["0", "0", "1"], "r": rotz, "m2a": True},                     # TR1 + a rotation
        {"n": 5, "deg": True, "d": ["0", "0", "1"], "r": [], "m2a": True},                        # TR1 in degrees
        {"n": 6, "deg": False, "d": ["0", "0", "1"], "r": ident, "m2a": False},                   # aux-to-main
        {"n": 7, "deg": False, "d": ["0", "0", "1"], "r": ident, "m2a": True},                    # TR1 + identity
        {"n": 8, "deg": False, "d": ["0", "0", "1"], "r": [dec(Decimal(x) + d) for x in rotz], "m2a": True},  # near TR4
        {"n": 9, "deg": False, "d": ["0", "0", "1"], "r": rotz[:5], "m2a": True},                 # partial rotation
    ]


def variant(rng, base, kind, delta, number, partner):
    """a surface that differs from `base` in exactly the attribute named by `kind`"""
    s = copy.deepcopy(base)
    s["n"] = number
    d = Decimal(delta)
    if kind == "const":
        i = rng.randrange(len(s["c"]))
        s["c"][i] = dec(Decimal(s["c"][i]) + d)
    elif kind == "const2":
        i = rng.randrange(len(s["c"]))
        s["c"][i] = dec(Decimal(s["c"][i]) + 2 * d)
    elif kind == "type":
        s["t"] = SIBLING[s["t"]]
        if len(s["c"]) not in arities(s["t"]):
            s["c"] = (s["c"] * 10)[: nconsts(s["t"])]
    elif kind == "arity":
        # the same card written with another legal number of constants, the shorter list a prefix of the longer
        # (two-sheet / one-sheet cone, one / two / three points of X Y Z, P by coefficients / by points):
        # a different surface however small the tolerance; unchanged for mnemonics with one length only
        other = [n for n in arities(s["t"]) if n != len(s["c"])]
        if other:
            s["c"] = fill_consts(rng, s["t"], s["c"], rng.choice(other))
    elif kind == "tr_same":
        s["tr"], s["per"] = 1, None
    elif kind == "tr_near":
        s["tr"], s["per"] = 2, None
    elif kind == "tr_far":
        s["tr"], s["per"] = 3, None
    elif kind == "tr_rot":
        s["tr"], s["per"] = rng.choice([4, 7, 8, 9]), None
    elif kind == "tr_deg":
        s["tr"], s["per"] = 5, None
    elif kind == "tr_m2a":
        s["tr"], s["per"] = 6, None
    elif kind == "periodic":
        s["per"], s["tr"] = partner, None
    elif kind == "reflecting":
        s["bc"] = "*"
    elif kind == "white":
        s["bc"] = "+"
    return s


def gen_tree(rng, surf_nums, cell_nums, nleaves):
    if nleaves <= 1:
        r = rng.random()
        if cell_nums and r < 0.1:
            return ["#", ["C", rng.choice(cell_nums)]]
        leaf = ["L", rng.choice(surf_nums), rng.random() < 0.5]
        if r > 0.92:
            return ["#", leaf]
        return leaf
    k = rng.randint(1, nleaves - 1)
    node = [rng.choice(["*", "*", ":"]), gen_tree(rng, surf_nums, cell_nums, k), gen_tree(rng, surf_nums, cell_nums, nleaves - k)]
    if rng.random() < 0.12:
        return ["#", node]
    return node


def used_transforms(case, delta):
    need = {s["tr"] for s in case["surfaces"] if s.get("tr") is not None}
    need |= {e[2] for e in case.get("edits", []) if e[0] == "set_transform"}
    return [t for t in transforms_pool(delta) if t["n"] in need]


def tolerances_for(rng, delta, n):
    d = Decimal(delta)
    pool = [d / 2, d * Decimal("0.999"), d, d * Decimal("1.001"), d * Decimal("1.5"), 2 * d, d * Decimal("2.5"),
            Decimal("1e-4"), Decimal("1e-9"), Decimal(0), Decimal(10), Decimal("-1")]
    weights = [3, 2, 3, 2, 4, 3, 3, 2, 1, 1, 1, 0.3]
    tols = sorted(rng.choices(pool, weights, k=n))
    if rng.random() < 0.2:
        rng.shuffle(tols)
    return [format(t.normalize(), "e") if t != 0 else "0" for t in tols]


def gen_random_case(rng):
    delta = rng.choice(DELTAS)
    numbers = rng.sample(range(1, 40), 12)
    surfaces = []
    nfam = rng.choice([1, 1, 2, 2, 3])
    for _ in range(nfam):
        t = rng.choice(list(FINDER_TYPES) * 3 + list(OTHER_TYPES))
        base = {"n": numbers.pop(), "t": t, "c": base_consts(rng, t), "tr": None, "per": None, "bc": ""}
        r = rng.random()
        if r < 0.15:
            base["tr"] = 1
        elif r < 0.22:
            base["bc"] = rng.choice(["*", "+"])
        fam = [base]
        size = rng.choice([2, 2, 3, 3, 4])
        if rng.random() < 0.2 and t in FINDER_TYPES:
            # a chain a ~ b ~ c with a !~ c for tolerances between delta and 2*delta
            i = rng.randrange(len(base["c"]))
            for k in range(1, size):
                s = copy.deepcopy(base)
                s["n"] = numbers.pop()
                s["c"][i] = dec(Decimal(base["c"][i]) + k * Decimal(delta))
                fam.append(s)
        else:
            pool = VARIANTS + (["arity"] * 3 if len(arities(t)) > 1 else [])
            for _k in range(1, size):
                kinds = [rng.choice(pool)]
                if rng.random() < 0.15:
                    kinds.append(rng.choice(pool))
                s = base
                n = numbers.pop()
                for kind in kinds:
                    s = variant(rng, s, kind, delta, n, partner=base["n"])
                fam.append(s)
        surfaces += fam
    if rng.random() < 0.5:
        rng.shuffle(surfaces)
    elif rng.random() < 0.5:
        surfaces.reverse()
    snums = [s["n"] for s in surfaces]
    # a periodic partner may also be any other surface of the problem
    for s in surfaces:
        if s["per"] is not None and rng.random() < 0.3:
            s["per"] = rng.choice([n for n in snums if n != s["n"]])
    cells = []
    for ci in range(rng.choice([1, 2, 2, 3, 4])):
        others = [c["n"] for c in cells]
        cells.append({"n": 10 * (ci + 1), "g": gen_tree(rng, snums, others, rng.choice([1, 2, 3, 3, 4, 5, 6]))})
    edits = []
    if rng.random() < 0.3:
        for _ in range(rng.choice([1, 1, 2])):
            s = rng.choice(surfaces)
            kinds = ["set_reflecting", "set_white", "del_periodic", "set_periodic", "set_transform", "del_transform", "set_const"]
            if s["per"] is not None:
                kinds += ["del_periodic"] * 6  # deleting a link that exists: the surface becomes mergeable
            if s["tr"] is not None:
                kinds += ["del_transform"] * 4 + ["set_transform"] * 2
            k = rng.choice(kinds)
            if k in ("set_reflecting", "set_white"):
                edits.append([k, s["n"], rng.random() < 0.6])
            elif k in ("del_periodic", "del_transform"):
                edits.append([k, s["n"]])
            elif k == "set_periodic":
                o = rng.choice(snums)
                if o != s["n"]:
                    edits.append([k, s["n"], o])
            elif k == "set_transform":
                edits.append([k, s["n"], rng.choice([1, 2, 3, 4])])
            else:
                i = rng.randrange(len(s["c"]))
                edits.append([k, s["n"], i, dec(Decimal(s["c"][i]) + rng.choice([0, 1, 2]) * Decimal(delta))])
    case = {"surfaces": surfaces, "cells": cells, "edits": edits,
            "tols": tolerances_for(rng, delta, rng.choice([1, 1, 1, 2, 2, 3]))}
    case["transforms"] = used_transforms(case, delta)
    return case


def gen_exhaustive(types, tol_factors):
    """three surfaces A (base), B, C where B and C each differ from A in one attribute, for every pair of
    attributes, every given base type and three tolerances around the constant difference 1e-3"""
    delta = "1e-3"

    class Fixed:
        def randrange(self, n):
            return n - 1

        def choice(self, xs):
            return xs[0]

        def random(self):
            return 0.99

    fx = Fixed()
    for t in types:
        cs = {1: ["1.5"], 2: ["1", "2.5"], 3: ["0.25", "3", "2.5"], 4: ["1", "0", "0", "2.5"]}[nconsts(t)]
        base = {"n": 1, "t": t, "c": cs, "tr": None, "per": None, "bc": ""}
        far = {"n": 9, "t": "PZ" if t != "PZ" else "PY", "c": ["77"], "tr": None, "per": None, "bc": ""}
        for v1 in VARIANTS:
            for v2 in VARIANTS:
                b = variant(fx, base, v1, delta, 2, partner=9)
                c = variant(fx, base, v2, delta, 3, partner=9)
                for f in tol_factors:
                    case = {
                        "surfaces": [base, b, c, far],
                        "cells": [{"n": 1, "g": ["*", ["L", 1, True], [":", ["L", 2, False], ["#", ["L", 3, True]]]]},
                                  {"n": 2, "g": ["*", ["L", 3, False], ["#", ["C", 1]]]}],
                        "edits": [],
                        "tols": [format((Decimal(delta) * Decimal(f)).normalize(), "e")],
                    }
                    case["transforms"] = used_transforms(case, delta)
                    yield case


def load_corpus():
    cases = []
    for path in sorted(glob.glob(os.path.join(VERIF, "corpus", "C18", "*.json"))):
        with open(path) as fh:
            data = json.load(fh)
        for c in data.get("cases", [data.get("case")] if data.get("case") else []):
            cases.append(c.get("case", c) if isinstance(c, dict) and "surfaces" not in c else c)
    return cases


# ------------------------------------------------------------------------------------------------ shrinking
def _tree_candidates(t):
    """smaller trees: a child in place of its parent, recursively"""
    if t[0] in ("L", "C"):
        return
    for ch in t[1:]:
        if not (ch[0] == "C"):
            yield ch
    if t[0] == "#":
        for x in _tree_candidates(t[1]):
            yield ["#", x]
    else:
        for x in _tree_candidates(t[1]):
            yield [t[0], x, t[2]]
        for x in _tree_candidates(t[2]):
            yield [t[0], t[1], x]


def _case_candidates(case):
    for i in range(len(case["tols"])):
        if len(case["tols"]) > 1:
            yield dict(case, tols=case["tols"][:i] + case["tols"][i + 1:])
    for i in range(len(case.get("edits", []))):
        yield dict(case, edits=case["edits"][:i] + case["edits"][i + 1:])
    for i in range(len(case["cells"])):
        if len(case["cells"]) > 1:
            yield dict(case, cells=case["cells"][:i] + case["cells"][i + 1:])
    for i in range(len(case["surfaces"])):
        yield dict(case, surfaces=case["surfaces"][:i] + case["surfaces"][i + 1:])
    for i, c in enumerate(case["cells"]):
        for g in _tree_candidates(c["g"]):
            yield dict(case, cells=case["cells"][:i] + [dict(c, g=g)] + case["cells"][i + 1:])
    for i, s in enumerate(case["surfaces"]):
        for k, v in (("tr", None), ("per", None), ("bc", "")):
            if s.get(k) != v:
                yield dict(case, surfaces=case["surfaces"][:i] + [dict(s, **{k: v})] + case["surfaces"][i + 1:])


def shrink_case(case, still_fails, budget=250):
    """greedy structural shrinking; `still_fails(case)` must re-run the real code"""
    n = 0
    progress = True
    while progress and n < budget:
        progress = False
        for cand in _case_candidates(case):
            n += 1
            if n > budget:
                break
            need = {s["tr"] for s in cand["surfaces"] if s.get("tr") is not None} | {e[2] for e in cand.get("edits", []) if e[0] == "set_transform"}
            cand = dict(cand, transforms=[t for t in cand.get("transforms", []) if t["n"] in need])
            try:
                ok = still_fails(cand)
            except Exception:  # noqa: BLE001
                ok = False
            if ok:
                case = cand
                progress = True
                break
    return case


# ------------------------------------------------------------------------------------------------ running
def _impl(case):
    from vlib import dedupe

    return dedupe.run_impl(case)


def canon_impl(res):
    """what is compared with the model: per call the surviving numbers (in order), every cell's geometry tree and
    cell.surfaces (as a set), every survivor's periodic link; an exception class if the call raised"""
    return [
        {
            "out": c["out"],
            "survivors": [s["n"] for s in c["surfaces"]],
            "cells": [{"n": x["n"], "g": x["g"], "s": sorted(x["s"])} for x in c["cells"]],
            "periodic": [[s["n"], s["per"]] for s in c["surfaces"]],
        }
        for c in res["calls"]
    ]


def canon_model(out):
    return [
        {
            "out": "ok",
            "survivors": c["survivors"],
            "cells": [{"n": x["n"], "g": x["g"], "s": sorted(x["s"])} for x in c["cells"]],
            "periodic": c["periodic"],
        }
        for c in out["calls"]
    ]


def _features(case, res):
    f = []
    for s in case["surfaces"]:
        f.append("type:" + s["t"])
        if s.get("tr") is not None:
            f.append("surface:transformed")
        if s.get("per") is not None:
            f.append("surface:periodic")
        if s.get("bc"):
            f.append("surface:bc" + s["bc"])
    for e in case.get("edits", []):
        f.append("edit:" + e[0])
    if any(a["t"] == b["t"] and len(a["c"]) != len(b["c"]) for a in case["surfaces"] for b in case["surfaces"]):
        f.append("family:same-mnemonic-different-arity")
    f.append(f"calls:{len(case['tols'])}")
    f.append(f"cells:{len(case['cells'])}")
    if res.get("read") == "ok":
        prev = res["s0"]
        for c in res["calls"]:
            f.append(f"removed:{min(len(prev['surfaces']) - len(c['surfaces']), 3)}")
            prev = c
    return f


def _near_miss(res, tols):
    """some pair of surfaces of one type fails the duplicate relation in exactly one criterion"""
    from vlib import dedupe

    ss = res["s0"]["surfaces"]
    for tol in tols:
        for i, a in enumerate(ss):
            for b in ss[i + 1:]:
                if len(dedupe.dup_failures(a, b, float(tol))) == 1:
                    return True
    return False


def check_cases(chk, drv, cases, label, shrink=True):
    from vlib import dedupe

    impl = pmap(_impl, cases, workers=8, chunksize=4)
    usable = [i for i, r in enumerate(impl) if r.get("read") == "ok"]
    mcases = [dedupe.model_case(impl[i]["s0"], cases[i]["tols"]) for i in usable]
    model = drv.batch(mcases, timeout=7200) if drv.ok else None
    mres = dict(zip(usable, model)) if model is not None else {}
    for i, (case, ri) in enumerate(zip(cases, impl)):
        if ri.get("read") != "ok":
            chk.count("generated-input-rejected")
            if label == "corpus":
                raise MachineryError(f"corpus case {i} is not readable: {ri.get('read')}")
            continue
        removed_any = any(len(c["surfaces"]) < len(ri["s0"]["surfaces"]) for c in ri["calls"])
        chk.note_case(case, removed_any or _near_miss(ri, case["tols"]), sample_every=4000)
        for f in _features(case, ri):
            chk.count(f)
        chk.count("unit:" + label)
        if "err" in ri.get("written", {}):
            chk.count("write-failed:" + ri["written"]["err"])
        verdict = dedupe.judge(case, ri)
        if verdict is not None:
            # confirm in this process before anything is reported
            r2 = dedupe.run_impl(case)
            v2 = dedupe.judge(case, r2)
            if v2 is None or v2[1] != verdict[1]:
                chk.count("flaky:oracle")
                continue
            _, sig, what = v2

            def fails(c, sig=sig):
                v = dedupe.judge(c, dedupe.run_impl(c))
                return v is not None and v[1] == sig

            mc = shrink_case(case, fails) if shrink else case
            rm = dedupe.run_impl(mc)
            vm = dedupe.judge(mc, rm)
            what = vm[2] if vm else what
            chk.violation(sig, what, {"case": mc, "text": dedupe.render(mc), "impl": canon_impl(rm), "what": what})
            continue  # the state is corrupt: no model comparison for this case
        if i in mres:
            if "error" in mres[i]:
                raise MachineryError(f"model driver rejected a case: {mres[i]['error']}")
            # Spec.dup (Lean) must not accept a pair the Python oracle rejects (the oracle is the more lenient one)
            for call, tol in zip(mres[i]["calls"], case["tols"]):
                for d, t, verdict_lean in call["dup"]:
                    if verdict_lean is False:
                        chk.broken_obligation("correspondence", "Spec.dup on a pair merged by the model", {"pair": [d, t], "tol": tol}, case)
            if dedupe.sensitive(ri["s0"], case["tols"]):
                chk.count("rounding-sensitive:oracle-only")
                continue
            chk.traces_validated += 1
            a, b = canon_impl(ri), canon_model(mres[i])
            if a != b:
                r2 = dedupe.run_impl(case)
                if r2.get("read") != "ok" or canon_impl(r2) != a:
                    chk.count("flaky:correspondence")
                    continue
                chk.disagreements_checked += 1

                def differs(c):
                    r = dedupe.run_impl(c)
                    if r.get("read") != "ok" or dedupe.sensitive(r["s0"], c["tols"]):
                        return False
                    m = drv.batch([dedupe.model_case(r["s0"], c["tols"])])[0]
                    return "error" not in m and canon_impl(r) != canon_model(m)

                mc = shrink_case(case, differs, budget=120) if (shrink and len(chk.broken) < 2) else case
                r = dedupe.run_impl(mc)
                m = drv.batch([dedupe.model_case(r["s0"], mc["tols"])])[0]
                chk.broken_obligation("correspondence", UNIT, {"impl": canon_impl(r), "model": canon_model(m), "text": dedupe.render(mc)}, mc)


def run(chk):
    chk.rule = (
        "cases are MCNP problems rendered from a typed AST (1-3 families of 2-4 surfaces: a base surface of one of 19 "
        "mnemonics (9 built as finder classes, 10 as plain Surface / GeneralPlane) and variants equal to it or differing in "
        "one (sometimes two) of: a constant by delta or 2*delta, the mnemonic, the transform (same / near / far / rotated "
        "/ degrees / direction), a periodic partner, reflecting, white, the number of constants (another legal length "
        "of the same mnemonic, the shorter list a prefix of the longer: K/Z 4|5, KZ 2|3, X Z 2|4|6, P 4|9); chains a~b~c; shuffled card order; 1-4 void cells with random geometry trees over the surfaces and "
        "#cell complements; optional API edits before the call; 1-3 successive calls with tolerances below, at and "
        "above delta and 2*delta, 0, negative, large), read by montepy.read_input. A case is non-trivial when a "
        "surface was removed or when some pair of surfaces misses the duplicate relation in exactly one criterion."
    )
    chk.assumptions = [
        "surface numbers are unique inside problem.surfaces (property C06); Python sets/dicts keyed by Surface are modelled keyed by number",
        "#n (complement of a cell) is an atom of the region: its value is an arbitrary Boolean per cell",
        "numbers are exact rationals in the model; a case in which an exact and an IEEE evaluation of some abs(x-y) < tol disagree is judged by the oracle only",
        "the tolerance is a finite float; NaN/inf constants are not generated",
    ]
    chk.trusted_base = [
        "Lean 4.33.0 kernel",
        "Spec/Dedupe.lean (dup, eval) as the reading of the property",
        "hand-written model lean/MontePyVerif/Model/Dedupe.lean, tied to the code by the U-dedupe correspondence of this run and the generated class table Gen/Dedupe.lean",
        "harness tools/props/c18.py + tools/vlib/dedupe.py (reads generated text with montepy.read_input, calls MCNP_Problem.remove_duplicate_surfaces, serialises the live objects)",
    ]
    leanio.prove(chk, "MontePyVerif.Props.C18", THEOREMS, "MontePyVerif.Dedupe")
    drv = leanio.Driver(chk, "drv_c18")

    corpus = load_corpus()
    check_cases(chk, drv, corpus, "corpus")
    exh = list(gen_exhaustive(chk.pick(["PZ", "C/Z", "K/Z"], ["PZ", "PX", "CZ", "CX", "C/Z", "C/Y", "P", "K/Z", "Z"]),
                              chk.pick(["0.5", "1.5", "10"], ["0.5", "1", "1.5", "2.5", "10"])))
    check_cases(chk, drv, exh, "exhaustive-3-surfaces")
    rng = chk.rng("random")
    rnd = [gen_random_case(rng) for _ in range(chk.pick(700, 40000))]
    check_cases(chk, drv, rnd, "random")
    chk.units["U-dedupe"] = {"corpus": len(corpus), "exhaustive_small": len(exh), "random": len(rnd)}
    chk.exhaustive = {"sub-space": "3 surfaces A,B,C: (B,C) over all 14x14 single-attribute variants of A x base types x tolerances", "cases": len(exh)}
    if chk.thorough:
        leanio.leanchecker(chk, ["MontePyVerif.Props.C18"])


def replay(chk, payload):
    from vlib import dedupe

    chk.rule = "replay of one stored case"
    if payload.get("verdict") == "no-failing-input-found":
        case = payload["no_longer_checks"][0]["case"]
    else:
        case = payload["case"]
        if "surfaces" not in case:
            case = case["case"]
    drv = leanio.Driver(chk, "drv_c18")
    check_cases(chk, drv, [case], "replay", shrink=False)
    chk.add_obligation("replay", True)
