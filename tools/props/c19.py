"""C19 — writing is repeatable: observation is pure and output is a fixed point.

prove       : Props/C19.lean — (i) generic theorems: if every object's formatter is idempotent (second call: same
              text, same state) then write;write gives the same lines and an interleaved observation does not change a
              later write; (ii) Props/C19Gen.lean — the generation fixed point on the model of read_data: the reader loses,
              duplicates and reorders no line (C19_reader_partition, every file and state), files every written line in
              the block it was written in (C19_written_body_read), hence formatting what was read from a written
              body gives that body again when every input echoes its lines (C19_generation).
correspond  : the hypotheses of (i) are checked per object class on the real formatters (idempotence of
              format_for_mcnp_input on every object of every explored problem).
judge       : byte comparison on the real files: write twice; edits with and without interleaved observations;
              generations g1 = write(p), g2 = write(read(g1)), g3 = write(read(g2)).
"""

import copy

from vlib import edits, genprob, leanio, wholefile
from vlib.core import chash
from vlib.par import pmap

META = {
    "property_id": "C19",
    "technique": "Lean 4 proof (idempotent formatters => repeatable write, observation purity; generation fixed point over the model of read_data: reader partition + written-body theorem) + byte-exact differential runs on the real writer",
    "design_ref": "6 C19",
}

THEOREMS = [
    "Repeat.C19_twice",
    "Repeat.C19_observe",
    "Repeat.C19_observe_then_edit",
    "Repeat.writeAll_lines",
    "Repeat.fmt_after_pass",
    "Reader.C19_reader_partition",
    "Reader.C19_written_body_read",
    "Reader.C19_generation",
]


REVISIT_KINDS = ["volume", "atom_density", "mass_density", "surface_constant", "location", "radius", "fraction", "displacement", "importance"]


def _observe(p, rng, how):
    v = p.mcnp_version
    objs = list(p.cells) + list(p.surfaces) + list(p.data_inputs)
    if how == "str":
        for o in rng.sample(objs, min(len(objs), 4)):
            str(o)
            repr(o)
        str(p)
        repr(p)
    elif how == "format":
        for o in rng.sample(objs, min(len(objs), 4)):
            try:
                o.format_for_mcnp_input(v)
            except Exception:  # noqa: BLE001
                pass
    elif how == "write":
        with wholefile.Scratch() as sc:
            try:
                wholefile.write_text(p, sc, "obs.imcnp")
            except Exception:  # noqa: BLE001
                pass
    elif how == "attrs":
        for c in p.cells:
            c.importance, c.volume, c.universe, c.fill, c.geometry, c.material, list(c.surfaces), c.comments
            c.parameters
        for s in p.surfaces:
            s.surface_constants, s.transform, s.periodic_surface, list(s.cells)
        for m in p.materials:
            m.material_components, list(m.cells), m.thermal_scattering


def run_case(case):
    import random
    import warnings

    warnings.simplefilter("ignore")
    limit, text, script_seed, nedits = case["limit"], case["text"], case["seed"], case["nedits"]
    out = {}
    with wholefile.Scratch() as sc:
        try:
            p = wholefile.read_text(text, limit, sc)
            rng = random.Random(script_seed)
            if "script" in case:  # a stored history (corpus)
                script = case["script"]
                for e in script:
                    edits.apply(p, e)
            elif case.get("revisit"):
                # the same quantity is set twice: first to a value that needs many digits, then to a short one
                # (an observation between the two must leave nothing behind: seeded change C19a)
                script = []
                for _ in range(nedits):
                    e = edits.gen_edit(rng, p, REVISIT_KINDS)
                    if e is None:
                        break
                    first = list(e)
                    first[-1] = float(repr(abs(e[-1]) * 1.000000123456 + 1.23456789e-7)[:14]) * (-1 if e[-1] < 0 else 1)
                    for x in (first, e):
                        edits.apply(p, x)
                        script.append(x)
            else:
                script = edits.gen_script(rng, p, nedits, case.get("kinds")) if nedits else []
            out["script"] = script
            g1 = wholefile.write_text(p, sc, "g1.imcnp")
        except Exception as e:  # noqa: BLE001
            return {"skip": type(e).__name__ + ": " + str(e)[:120]}
        out["g1"] = g1
        # (a) write twice in a row
        try:
            out["again"] = wholefile.write_text(p, sc, "g1b.imcnp")
        except Exception as e:  # noqa: BLE001
            out["again_error"] = type(e).__name__
        # (b) the same edits with observations interleaved at every position
        try:
            q = wholefile.read_text(text, limit, sc, "in2.imcnp")
            orng = random.Random(script_seed + 1)
            hows = ["str", "format", "write", "attrs"]
            _observe(q, orng, orng.choice(hows))
            for e in script:
                edits.apply(q, e)
                _observe(q, orng, orng.choice(hows))
            out["observed"] = wholefile.write_text(q, sc, "obs_final.imcnp")
        except Exception as e:  # noqa: BLE001
            out["observed_error"] = type(e).__name__ + ": " + str(e)[:120]
        # (c) generations
        try:
            p2 = wholefile.read_text(g1, limit, sc, "g1_in.imcnp")
            g2 = wholefile.write_text(p2, sc, "g2.imcnp")
            out["g2"] = g2
            p3 = wholefile.read_text(g2, limit, sc, "g2_in.imcnp")
            out["g3"] = wholefile.write_text(p3, sc, "g3.imcnp")
        except Exception as e:  # noqa: BLE001
            out["gen_error"] = type(e).__name__ + ": " + str(e)[:160]
        # hypothesis `Echo` of C19_generation (Props/C19Gen.lean), measured on the objects read from g1: an input formats
        # back to the lines it was read from.  Measured, not judged: a comment card may travel from one object to its
        # neighbour between generations without changing a byte of the file (the verdict is the byte comparison above).
        try:
            pe = wholefile.read_text(g1, limit, sc, "g1_echo.imcnp")
            v = pe.mcnp_version
            ok = bad = bok = bbad = 0
            for objs in (list(pe.cells), list(pe.surfaces), list(pe.data_inputs)):
                got_b, want_b = [], []
                for o in objs:
                    inp = getattr(o, "_input", None)
                    if inp is None:
                        continue
                    got = [l.rstrip() for l in o.format_for_mcnp_input(v)]
                    want = [l.rstrip() for l in inp.input_lines]
                    ts = getattr(o, "thermal_scattering", None)
                    if ts is not None and getattr(ts, "_input", None) is not None:
                        # the MT input is held (and printed) by its material, not by problem.data_inputs
                        want += [l.rstrip() for l in ts._input.input_lines]
                    got_b += got
                    want_b += want
                    if got == want:
                        ok += 1
                    else:
                        bad += 1
                if got_b == want_b:
                    bok += 1
                else:
                    bbad += 1
            out["echo"] = [ok, bad, bok, bbad]
        except Exception as e:  # noqa: BLE001
            out["echo_error"] = type(e).__name__
        # hypothesis of the generic theorems: every formatter is idempotent on the real objects
        try:
            r = wholefile.read_text(text, limit, sc, "in3.imcnp")
            for e in script:
                edits.apply(r, e)
            bad = []
            v = r.mcnp_version
            for o in list(r.cells) + list(r.surfaces) + list(r.data_inputs):
                a = o.format_for_mcnp_input(v)
                b = o.format_for_mcnp_input(v)
                if a != b:
                    bad.append(type(o).__name__)
            out["non_idempotent"] = sorted(set(bad))
        except Exception as e:  # noqa: BLE001
            out["idem_error"] = type(e).__name__
    return out


def first_diff(a, b):
    la, lb = a.split("\n"), b.split("\n")
    for i, (x, y) in enumerate(zip(la, lb)):
        if x != y:
            return i, x, y
    return min(len(la), len(lb)), (la[len(lb):] or [""])[0], (lb[len(la):] or [""])[0]


def diff_kind(x, y):
    if x.split() == y.split():
        return "spacing"
    if x.rstrip().lower() == y.rstrip().lower():
        return "letter-case"
    if sorted(x.split()) == sorted(y.split()):
        return "order"
    return "content"


_SHORTCUT = __import__("re").compile(r"(?<![\w.])[+-]?(\d+\.?\d*|\.\d+)?([eE][+-]?\d+)?(r|m|i|ilog|j)(?![\w.])", __import__("re").I)


def _only_shortcut_lines_differ(a, b, limit):
    """both texts denote the same problem, and every line that differs holds a shortcut word in a or in b"""
    import difflib

    from vlib import spec

    la, lb = a.split("\n"), b.split("\n")
    for tag, i1, i2, j1, j2 in difflib.SequenceMatcher(a=la, b=lb, autojunk=False).get_opcodes():
        if tag == "equal":
            continue
        block = la[i1:i2] + lb[j1:j2]
        if not any(_SHORTCUT.search(l.split("$")[0]) for l in block):
            return False
    try:
        da, db = spec.denote_many([a, b], limit)
        return not spec.diff_problems(da, db)
    except Exception:  # noqa: BLE001
        return False


def _only_importance_separator_differs(a, b):
    """the two texts have the same words on every line, and wherever the runs of blanks between two words differ in
    length the word in front of the run is a cell-block importance entry (imp:n=2): the blank that
    Importance._update_values once gave an entry that was not the last one at that time (finding C19-F2)"""
    import re

    la, lb = a.split("\n"), b.split("\n")
    if len(la) != len(lb):
        return False
    hit = False
    for x, y in zip(la, lb):
        if x == y:
            continue
        px, py = re.findall(r"\S+| +", x.rstrip(" ")), re.findall(r"\S+| +", y.rstrip(" "))
        if len(px) != len(py):
            return False
        for k, (u, v) in enumerate(zip(px, py)):
            if u == v:
                continue
            if u.strip(" ") or v.strip(" ") or k == 0 or not px[k - 1].lower().startswith("imp:"):
                return False
            hit = True
    return hit


def judge(case, r):
    out = []
    if "skip" in r:
        return out
    edited = "edited" if r.get("script") else "unedited"

    def cmp(name, a, b):
        if a != b:
            i, x, y = first_diff(a, b)
            sig = {"mechanism": "repeatable-write", "class": name, "how": diff_kind(x, y), "problem": edited}
            if name == "observation-changes-output" and _only_shortcut_lines_differ(a, b, case["limit"]):
                # the recorded finding C08-F5 seen from C19: once an intermediate rebuild has dropped or shortened a
                # shortcut it does not come back; every differing line holds a shortcut in one of the two files and
                # both files denote the same problem.  Anything else keeps the plain signature.
                sig["cause"] = "shortcut-recompression-history"
            elif name == "observation-changes-output" and sig["how"] == "spacing" and _only_importance_separator_differs(a, b):
                sig["cause"] = "importance-separator-blank-latched"
            out.append((sig, f"{name}: line {i}: {x!r} vs {y!r}"))

    if "again" in r:
        cmp("write-twice-differs", r["g1"], r["again"])
    elif "again_error" in r:
        out.append(({"mechanism": "repeatable-write", "class": "second-write-raised", "exception": r["again_error"], "problem": edited}, "second write raised"))
    if "observed" in r:
        cmp("observation-changes-output", r["g1"], r["observed"])
    elif "observed_error" in r:
        out.append(({"mechanism": "repeatable-write", "class": "observed-run-raised", "exception": r["observed_error"].split(":")[0], "problem": edited}, r["observed_error"]))
    if "g2" in r:
        cmp("generation-2-differs", r["g1"], r["g2"])
        if "g3" in r and r["g2"] == r["g1"]:
            cmp("generation-3-differs", r["g2"], r["g3"])
    elif "gen_error" in r:
        out.append(({"mechanism": "repeatable-write", "class": "own-output-not-readable", "exception": r["gen_error"].split(":")[0], "problem": edited}, r["gen_error"]))
    if r.get("non_idempotent"):
        out.append(({"mechanism": "repeatable-write", "class": "formatter-not-idempotent", "object": r["non_idempotent"][0]},
                    f"format_for_mcnp_input called twice gives different lines for {r['non_idempotent']}"))
    return out


# stored histories that run first: minimised past failures (each is named in known_findings.json under "fixed")
CORPUS = [
    # 5ea339d: a shared entry imp:n,p edited apart and together again was written imp:p,n after an observation
    {"name": "corpus-particle-order", "limit": 128, "seed": 161015, "nedits": 2,
     "script": [["importance", 0, "n", 8.0], ["importance_all", 0, 0.0]],
     "text": "shared importance entry\n46 54 -5.045 (57 -134 -37)\n127 54 -1.5676 134 : 162\n\n37 sph -50. +0.414 14. 50.0\n"
             "57 c/y -50.0 50 50.\n134 c/z -4.63 5.8702 17.\n162 sz -50.0 27\n\nm54 40090.80c 0.203 8016.80c 0.4 6000.80c 0.412\n"
             "mode n p\nimp:n,p 4 2.0\n\n"},
    # a shared cell-block entry imp:n,p=0. set apart and back: an observation in between split it for good
    {"name": "corpus-shared-entry-split", "limit": 128, "seed": 520685, "nedits": 2,
     "script": [["importance", 0, "n", 1.23456789e-07], ["importance", 0, "n", 0.0]],
     "text": "shared cell-block entry\n36 22 3.0 -21 : 67 imp:n,p=0.\n\n21 pz 50.\n67 so 5.055\n\nm22 6000.80c 0.337\nmode n p\nnps 1000\n\n"},
    # seeded C19c: a shared entry followed by a comment, one particle set, then the importances moved to the data block
    {"name": "corpus-split-entry-then-data-block", "limit": 128, "seed": 4242, "nedits": 2,
     "script": [["importance", 0, "n", 2.0], ["print_in_data_block", "imp", True]],
     "text": "shared entries with comments\n1 0 -1 imp:n,p=1 $ inside\n2 0 1 imp:n,p=0 $ graveyard\n\n1 so 1\n\nmode n p\n\n"},
    {"name": "corpus-split-entry-then-all", "limit": 128, "seed": 4243, "nedits": 3,
     "script": [["importance", 0, "p", 3.0], ["importance_all", 0, 1.0], ["print_in_data_block", "imp", True]],
     "text": "shared entries with comments\n1 0 -1 imp:n,p=1 $ inside\n2 0 1 imp:n,p=0 $ graveyard\n\n1 so 1\n\nmode n p\n\n"},
    # seeded C07c: data-block entry shared by two particles, both set, one set back (observed in between)
    {"name": "corpus-shared-data-entry-set-back", "limit": 128, "seed": 4250, "nedits": 3,
     "script": [["importance", 1, "n", 5.0], ["importance", 1, "p", 5.0], ["importance", 1, "n", 1.0]],
     "text": "shared data-block entry\n1 0 -1\n2 0 1 -2\n3 0 2\n\n1 so 1\n2 so 2\n\nmode n p\nimp:n,p 1 1 0\n\n"},
    {"name": "corpus-shared-data-entry-set-back-p", "limit": 128, "seed": 4251, "nedits": 3,
     "script": [["importance", 1, "n", 5.0], ["importance", 1, "p", 5.0], ["importance", 1, "p", 1.0]],
     "text": "shared data-block entry\n1 0 -1\n2 0 1 -2\n3 0 2\n\n1 so 1\n2 so 2\n\nmode n p\nimp:n,p 1 1 0\n\n"},
    # seeded C19e (and C01b): a lattice cell filled with a matrix of universes that is not symmetric under an index swap -
    # a writer whose index order differs from the reader's permutes the matrix on every generation
    {"name": "corpus-lattice-matrix", "limit": 128, "seed": 77120, "nedits": 0, "script": [],
     "text": "lattice matrix\n1 0 -1 u=10 lat=1 fill=0:1 0:2 0:0 2 3 4 5 6 7 imp:n=1\n2 0 -2 u=2 imp:n=1\n3 0 -2 u=3 imp:n=1\n"
             "4 0 -2 u=4 imp:n=1\n5 0 -2 u=5 imp:n=1\n6 0 -2 u=6 imp:n=1\n7 0 -2 u=7 imp:n=1\n8 0 -3 fill=10 imp:n=1\n9 0 3 imp:n=0\n\n"
             "1 rpp -1 1 -1 1 -1 1\n2 so 5\n3 so 50\n\nmode n\n\n"},
    {"name": "corpus-lattice-matrix-3d", "limit": 80, "seed": 77121, "nedits": 0, "script": [],
     "text": "lattice matrix 3d\n1 0 -1 u=10 lat=1 fill=0:1 -1:0 0:1 2 3 4 5 6 7 2 4 imp:n=1\n2 0 -2 u=2 imp:n=1\n3 0 -2 u=3 imp:n=1\n"
             "4 0 -2 u=4 imp:n=1\n5 0 -2 u=5 imp:n=1\n6 0 -2 u=6 imp:n=1\n7 0 -2 u=7 imp:n=1\n8 0 -3 fill=10 imp:n=1\n9 0 3 imp:n=0\n\n"
             "1 rpp -1 1 -1 1 -1 1\n2 so 5\n3 so 50\n\nmode n\n\n"},
    # 3f161a1: a line break after a cell modifier's value was replaced by a blank (generation 2 differed at 80 columns)
    {"name": "corpus-modifier-line-break", "limit": 80, "seed": 891262, "nedits": 0, "script": [],
     "text": "line break after vol\n837 0 (927 :     113 ) 8   113    113 -8   imp:n=2.0000     Imp:P=1 vol=31.0\n     U 20\n"
             "2 0 -8 imp:n,p=1 u=20\n\n8 so 1\n113 so 2\n927 so 3\n\nmode n p\n\n"},
]


def gen_cases(chk):
    cases = [dict(c, seed=c["seed"] + k) for c in CORPUS for k in range(4)]
    for name, text in wholefile.fixtures():
        if any(l.lstrip().lower().startswith("read ") for l in text.split("\n")):
            continue
        for ne in (0, 3):
            cases.append({"name": name, "limit": 128, "text": wholefile.ascii_clean(text), "seed": 1, "nedits": ne})
    n = chk.pick(160, 4000)
    for i in range(n):
        r = chk.rng("gen", i)
        gp = genprob.generate(r, features=genprob.DEFAULT_FEATURES | {"lattice"}) if i % 4 == 1 else genprob.generate(r)
        limit = 80 if i % 3 == 0 else 128
        text = genprob.render(gp, r, limit=limit, style="random" if i % 2 else "plain")
        cases.append({"name": f"gen{i}", "limit": limit, "text": text, "seed": r.randrange(10**6), "nedits": [0, 2, 5, 8][i % 4]})
        if i % 8 == 2:
            cases[-1]["revisit"] = True
        if i % 4 == 1:
            # histories that also switch the block a per-cell datum is printed in (seeded change C19c needed an
            # observation between an importance edit and such a switch)
            cases[-1]["kinds"] = edits.DEFAULT_KINDS + ["print_in_data_block", "print_in_data_block", "importance", "importance"]
    return cases


def run(chk):
    chk.rule = (
        "cases: fixtures and generated problems (vlib/genprob.py), unedited or with a random valid edit script "
        "(vlib/edits.py, 2-8 edits); per case: write twice, the same script with str/repr/format/write/attribute "
        "reads interleaved at every position, and three generations. Non-trivial: the problem was edited or has "
        ">= 4 cards; distinct by hash of (text, script)."
    )
    chk.assumptions = [
        "the order of newly created default IMP cards follows the iteration order of a set of enum members, which depends on PYTHONHASHSEED; all runs of one case are in one interpreter (no property quantifies over interpreters)",
        "the per-object idempotence hypotheses of the generic theorems are checked on the real formatters for every explored object (correspondence), not proved for the unmodelled tree classes",
    ]
    chk.trusted_base = [
        "Lean 4.33.0 kernel",
        "generic model of the writer loop (Props/C19.lean) whose per-object hypotheses are tested on the real formatters on every run",
        "Model/Reader.lean (read_data), tied to the code by the U-reader correspondence of C11/C20; the Echo hypothesis of C19_generation (lossless trees) is measured per input and covered by the byte comparison of generations",
        "harness tools/props/c19.py",
    ]
    leanio.prove(chk, "MontePyVerif.Props.C19", THEOREMS, "MontePyVerif")
    if chk.thorough:
        leanio.leanchecker(chk, ["MontePyVerif.Props.C19"])
    cases = gen_cases(chk)
    results = pmap(run_case, cases, chunksize=2)
    for c, r in zip(cases, results):
        if "skip" in r:
            chk.count("skipped:" + r["skip"].split(":")[0])
            continue
        chk.note_case({"name": c["name"], "limit": c["limit"], "hash": chash([c["text"], r.get("script")]), "script": r.get("script")},
                      bool(r.get("script")) or c["text"].count("\n") > 8)
        chk.count("edited" if r.get("script") else "unedited")
        if "echo" in r:
            chk.count("echo:inputs-formatting-back-to-their-lines", r["echo"][0])
            chk.count("echo:inputs-not-echoing(comment card printed by the neighbour, MT printed by its material)", r["echo"][1])
            chk.count("echoB:blocks-formatting-back-to-their-lines", r["echo"][2])
            chk.count("echoB:blocks-not-echoing(a second IMP input printed by the merged importance object; bytes judged separately)", r["echo"][3])
        chk.traces_validated += 1
        for e in r.get("script") or []:
            chk.count("edit:" + e[0])
        for sig, what in judge(c, r):
            r2 = run_case(c)
            if sig not in [s for s, _ in judge(c, r2)]:
                chk.count("flaky:violation-not-reproduced")
                continue
            text = c["text"]
            if len(chk.violations) < 5:

                def fails(t, sig=sig, c=c):
                    cc = dict(c, text=t)
                    return sig in [s for s, _ in judge(cc, run_case(cc))]

                text = wholefile.shrink_text(text, fails, c["limit"])
            rr = run_case(dict(c, text=text))
            chk.violation(sig, what, {"name": c["name"], "limit": c["limit"], "text": text, "seed": c["seed"], "nedits": c["nedits"],
                                      "revisit": bool(c.get("revisit")), "kinds": c.get("kinds"), "script": rr.get("script"), "observation": {k: rr.get(k) for k in ("g1", "again", "observed", "g2") if k in rr}})


def replay(chk, payload):
    case = payload["case"]
    c = {"name": case.get("name", "replay"), "limit": case["limit"], "text": case["text"], "seed": case.get("seed", 1), "nedits": case.get("nedits", 0)}
    if case.get("revisit"):
        c["revisit"] = True
    if case.get("kinds"):
        c["kinds"] = case["kinds"]
    chk.rule = "replay of one stored case"
    r = run_case(c)
    chk.note_case({"name": c["name"]})
    for sig, what in judge(c, r):
        chk.violation(sig, what, {"name": c["name"], "limit": c["limit"], "text": c["text"], "seed": c["seed"], "nedits": c["nedits"]})
    chk.add_obligation("replay", True)
