"""C20 — files pulled in by read cards are merged exactly once, in the right block.

prove       : lean/MontePyVerif/Props/C20.lean (queue = generation-wise flattening, once, paths, missing, termination)
correspond  : units U-readcards / U-reader — Model/Reader.lean vs input_syntax_reader.read_input_syntax on trees of
              files materialised in a scratch directory and read from a different working directory
judge       : montepy.read_input(tree) == montepy.read_input(flattened single file) as serialised object models;
              missing target -> FileNotFoundError; cycle -> deliberate error; written file = flattened minus read cards
"""

import copy

from vlib import leanio
from vlib import readerlib as rl
from vlib.core import canon
from vlib.par import pmap

META = {
    "property_id": "C20",
    "technique": "Lean 4 proof: refinement of the read-card queue of a hand-written reader model to a generation-wise "
    "flattening in an independent MCNP-rules Spec; differential correspondence model vs implementation",
    "design_ref": "6 C20",
}

THEOREMS = [
    "C20_tables",
    "C20_queue",
    "C20_term",
    "C20_term_always",
    "C20_once",
    "C20_paths",
    "C20_paths_cwd",
    "C20_missing",
    "C20_missing_error",
    "C20_flatten",
    "C20_flatten_spec",
]
BLOCKS = ["cell", "surface", "data"]
NAMES = ["sub", "part", "cells", "geom", "inc", "x", "deck", "Mats"]
EXTS = [".i", ".imcnp", ".txt", "", ".inp", ".mcnp"]
DIRS = ["", "", "", "inc/", "a/b/"]
CARD_STYLES = ["read file={n}", "READ FILE={n}", "read file {n}", "Read File = {n}", "read  file={n} $ pulled in", "  read file={n}",
               "read &\n     file={n}", "read\n     file={n}", "read file= {n}", "read file ={n}   "]
WORKERS = 8


# --------------------------------------------------------------------------- tree specs
def simple_layout(rng, words, plain):
    feats = {"blanks", "newline", "amp", "dollar", "comments", "lead", "trail", "pre"} if (not plain and rng.random() < 0.5) else set()
    return rl.gen_layout(rng, words, 128, feats)


def gen_spec(rng, i):
    prob = rl.gen_problem(rng, rich=False)
    style = {"eq": rng.choice([0, 0, 1, 2, 3]), "glue": 0.5, "case": rng.choice([0, 0, 1, 2])}
    blocks = [[rl.realise_words(rng, a, style) for a in prob[k]] for k in ("cells", "surfaces", "data")]
    counter = [0]
    max_depth = rng.choice([1, 2, 2, 3, 4])
    # plain specs (no comments, one line per input) also take part in the write-back check: the write path of
    # comments / continuation lines is the subject of C01, C07, C10, not of C20
    plain = rng.random() < 0.5

    def new_name():
        counter[0] += 1
        return rng.choice(DIRS) + rng.choice(NAMES) + str(counter[0]) + rng.choice(EXTS)

    def entry(words):
        return {"k": "input", "lay": simple_layout(rng, words, plain)}

    def distribute(items, depth, start):
        """entries of one segment holding `items` (lists of words), possibly delegating groups to children"""
        if not items:
            return []
        if depth >= max_depth or rng.random() < (0.25 if depth == 0 else 0.5):
            return [entry(w) for w in items]
        nchild = rng.randint(1, min(3, len(items)))
        cuts = sorted(rng.sample(range(len(items) + 1), min(nchild, len(items) + 1)))
        own = items[: cuts[0]]
        groups = [items[a:b] for a, b in zip(cuts, cuts[1:] + [len(items)])]
        ents = [entry(w) for w in own]
        for g in groups:
            child = {"name": new_name(), "start": start, "segs": [distribute(g, depth + 1, start)], "eof_nl": rng.random() < 0.8,
                     "eof_blank": rng.random() < 0.15}
            card = {"k": "read", "style": rng.randrange(len(CARD_STYLES)), "child": child,
                    "pre": [rl.gen_comment(rng)] if not plain and rng.random() < 0.2 else [],
                    "post": [rl.gen_comment(rng)] if not plain and rng.random() < 0.1 else []}
            ents.insert(rng.randint(0, len(ents)), card)
        return ents

    segs = [None, None, None]
    spill = None
    if rng.random() < 0.12:
        # a sub-file that spans blocks: the tail of block b and the head of block b+1 live in one child
        b = rng.choice([0, 1])
        if len(blocks[b]) >= 2 and len(blocks[b + 1]) >= 2:
            ka, kb = rng.randint(1, len(blocks[b]) - 1), rng.randint(1, len(blocks[b + 1]) - 1)
            spill = (b, blocks[b][ka:], blocks[b + 1][:kb])
            blocks[b] = blocks[b][:ka]
            blocks[b + 1] = blocks[b + 1][kb:]
    for b in range(3):
        segs[b] = distribute(blocks[b], 0, b)
    if spill:
        b, tail, head = spill
        child = {"name": new_name(), "start": b, "segs": [[entry(w) for w in tail], [entry(w) for w in head]], "eof_nl": True, "eof_blank": False}
        segs[b].append({"k": "read", "style": 0, "child": child, "pre": [], "post": []})
    top = {"name": rng.choice(["main.i", "deck/main.i", "top.imcnp"]), "start": 0, "segs": segs, "eof_nl": rng.random() < 0.9,
           "eof_blank": rng.random() < 0.5}
    spec = {
        "title": prob["title"], "message": prob["message"], "top": top, "kind": "ok", "plain": plain,
        "cwd": rng.choice(["work", "work", ".", "@main", "far/away"]), "abs": rng.random() < 0.3, "limit": 128, "crlf": rng.random() < 0.15,
    }
    r = rng.random()
    cards = list(iter_cards(top))
    if cards and r < 0.10:
        spec["kind"] = "missing"
        rng.choice(cards)["missing"] = True
    elif cards and r < 0.18:
        spec["kind"] = "cycle"
        # some file reads one of its ancestors (or itself): find a node with its chain
        chains = list(iter_chains(top, []))
        node, chain = rng.choice(chains)
        target = rng.choice(chain)  # chain includes the node itself
        node["segs"][0].insert(rng.randint(0, len(node["segs"][0])), {"k": "read", "style": 0, "cycle_to": target, "pre": [], "post": []})
    return spec


def iter_cards(node):
    for seg in node["segs"]:
        for e in seg:
            if e["k"] == "read" and "child" in e:
                yield e
                yield from iter_cards(e["child"])


def iter_chains(node, chain):
    """(node, names of the files from the top to this node) for every sub-file node (the top only if alone)"""
    me = chain + [node["name"]]
    subs = [e["child"] for seg in node["segs"] for e in seg if e["k"] == "read" and "child" in e]
    if chain or not subs:
        yield node, me
    for s in subs:
        yield from iter_chains(s, me)


def rel_to_main(spec, name):
    import os

    d = os.path.dirname(spec["top"]["name"])
    return os.path.join(d, name) if d else name


def card_name(spec, node_name):
    """how a card names a file: relative to the directory of the top-level file"""
    return node_name


def materialise(spec):
    """spec -> case {main, files, cwd, abs, limit, kind, expect:{inputs, flat}}"""
    import os

    files = {}
    eol = "\r\n" if spec.get("crlf") else "\n"
    top = spec["top"]
    topdir = os.path.dirname(top["name"])

    def render_node(node, is_top):
        lines = []
        if is_top:
            if spec["message"] is not None:
                lines.append("message: " + spec["message"][0])
                lines += spec["message"][1:]
                lines.append("")
            lines.append(spec["title"])
        for k, seg in enumerate(node["segs"]):
            if k > 0:
                lines.append("")
            for e in seg:
                if e["k"] == "input":
                    lines += rl.render_py(e["lay"])
                else:
                    if "child" in e:
                        name = e["child"]["name"]
                    else:
                        # names are relative to the top directory; the top-level file itself is named by its base name
                        name = os.path.basename(top["name"]) if e["cycle_to"] == top["name"] else e["cycle_to"]
                    lines += [" " * c["ind"] + ("c" if not c["text"] else "c " + c["text"]) for c in e["pre"]]
                    lines += CARD_STYLES[e["style"]].format(n=name).split("\n")
                    lines += [" " * c["ind"] + ("c" if not c["text"] else "c " + c["text"]) for c in e["post"]]
        if node.get("eof_blank"):
            lines.append("")
        text = eol.join(lines)
        if node.get("eof_nl", True):
            text += eol
        return text

    def walk(node, is_top, path):
        files[path] = render_node(node, is_top)
        for seg in node["segs"]:
            for e in seg:
                if e["k"] == "read" and "child" in e:
                    cp = os.path.join(topdir, e["child"]["name"]) if topdir else e["child"]["name"]
                    if e.get("missing"):
                        # the subtree below a missing file does not exist either
                        continue
                    walk(e["child"], False, cp)

    walk(top, True, top["name"])
    # expected flattening, generation by generation
    expect = {0: [], 1: [], 2: []}
    gen = [top]
    while gen:
        nxt = []
        for node in gen:
            for k, seg in enumerate(node["segs"]):
                blk = node["start"] + k
                for e in seg:
                    if e["k"] == "input":
                        if blk <= 2:
                            expect[blk].append(e["lay"]["words"])
                    elif "child" in e and not e.get("missing"):
                        nxt.append(e["child"])
        gen = nxt
    flat_lines = []
    if spec["message"] is not None:
        flat_lines.append("message: " + spec["message"][0])
        flat_lines += spec["message"][1:]
        flat_lines.append("")
    flat_lines.append(spec["title"])
    for b in range(3):
        if b:
            flat_lines.append("")
        for ws in expect[b]:
            flat_lines += flat_render(ws)
    flat = "\n".join(flat_lines) + "\n"
    features = sorted(
        {"multi-block-subfile" for e in iter_cards(top) if len(e["child"]["segs"]) > 1}
        | {"depth%d" % max([len(c) for _, c in iter_chains(top, [])] + [1])}
    )
    return {
        "main": top["name"], "files": files, "cwd": (topdir or ".") if spec["cwd"] == "@main" else spec["cwd"], "abs": spec["abs"], "limit": spec["limit"], "kind": spec["kind"],
        "plain": bool(spec.get("plain")),
        "expect": {"inputs": [[b, ws] for b in range(3) for ws in expect[b]], "flat": flat}, "features": features,
    }


def flat_render(words):
    """one input of the flattened file: one line, continued with five blanks when it would pass column 100"""
    lines, cur = [], ""
    for w in words:
        if cur and len(cur) + 1 + len(w) > 100:
            lines.append(cur)
            cur = "     " + w
        else:
            cur = w if not cur else cur + " " + w
    lines.append(cur)
    return lines


# --------------------------------------------------------------------------- observation of the real code
def observe(case):
    flatcase = {"main": "flat.i", "files": {"flat.i": case["expect"]["flat"]}, "cwd": ".", "abs": False, "limit": case["limit"]}
    return {
        "syn": rl.impl_syntax(case),
        "multi": rl.impl_problem(case, write_back=case["kind"] == "ok" and case.get("plain", False)),
        "flat": rl.impl_problem(flatcase) if case["kind"] == "ok" else None,
    }


def actual_inputs(syn):
    return [[it["bt"], rl.words_of(it["lines"])] for it in syn["items"] if it["k"] == "input"]


def classify(case, syn):
    """which way the merged inputs differ from the expected flattening (items of the real syntax reader)"""
    exp = [[b, [w for w in ws]] for b, ws in case["expect"]["inputs"]]
    act = [[b, ws] for b, ws in actual_inputs(syn) if ws]
    # free-text words were laid out with blanks inside: compare on re-split words
    exp = [[b, " ".join(ws).split()] for b, ws in exp]
    key = lambda x: canon(x[1])
    for b, ws in exp:
        n_exp = sum(1 for e in exp if key(e) == canon(ws))
        n_act = sum(1 for a in act if key(a) == canon(ws))
        if n_act < n_exp:
            return "not-merged", b
        if n_act > n_exp:
            return "merged-twice", b
    for b, ws in exp:
        if [b, ws] not in act:
            return "wrong-block", b
    for b in range(3):
        if [x for x in exp if x[0] == b] != [x for x in act if x[0] == b]:
            return "order", b
    if len(act) != len(exp):
        return "extra-input", act[-1][0] if act else 0
    return None, None


def judge(case, obs):
    """the property on the observations of the real code: None or (signature, what)"""
    base = {"mechanism": "read-card"}
    feat = "multi-block-subfile" if "multi-block-subfile" in case.get("features", []) else "plain"
    multi, flat, syn = obs["multi"], obs["flat"], obs["syn"]
    kind = case["kind"]
    if kind == "missing":
        if multi.get("err") == "FileNotFoundError":
            return None
        cls = "hang" if multi.get("err") == "HANG" else ("missing-silent" if "err" not in multi else "missing-wrong-error")
        return dict(base, **{"class": cls}), f"a read card names a file that does not exist: outcome {multi.get('err', 'no error')}"
    if kind == "cycle":
        e = multi.get("err")
        if e in ("MalformedInputError", "ParsingError"):
            return None
        cls = "hang" if e == "HANG" else ("cycle-silent" if e is None else "cycle-leak")
        return dict(base, **{"class": cls}), f"a file reads a file that is being read: outcome {e}"
    if flat is None or "err" in flat:
        return "generator", f"the flattened file is not readable: {flat}"
    if "err" in multi:
        e = multi["err"]
        if e == "HANG":
            return dict(base, **{"class": "hang", "feature": feat}), "read_input did not return"
        cls, blk = classify(case, syn)
        if e == "FileNotFoundError":
            cls, blk = "path-cwd", 0
        if cls is None:
            cls, blk = "error-" + e, 0
        return dict(base, **{"class": cls, "block": BLOCKS[blk], "feature": feat}), f"multi-file read raises {e} ({multi.get('msg', '')[:120]}); flattened file reads"
    if multi["model"] != flat["model"]:
        cls, blk = classify(case, syn)
        if cls is None:
            cls, blk = "model-differs", first_diff_block(multi["model"], flat["model"])
        return dict(base, **{"class": cls, "block": BLOCKS[blk], "feature": feat}), "object model of the multi-file read differs from the flattened file's"
    if not case.get("plain"):
        return None
    if "write_err" in multi:
        return dict(base, **{"class": "write-error", "feature": feat}), f"write_to_file raises {multi['write_err']}"
    if any(rl.words_of([l])[:1] and rl.words_of([l])[0].lower() == "read" for l in multi.get("written", "").split("\n")):
        return dict(base, **{"class": "write-keeps-read", "feature": feat}), "the written file still contains a read card"
    if multi.get("reread") != flat["model"]:
        return dict(base, **{"class": "write-differs", "block": BLOCKS[first_diff_block(multi.get("reread") or {}, flat["model"])], "feature": feat}), "the written file does not read back as the flattened problem"
    return None


def first_diff_block(a, b):
    for i, k in enumerate(("cells", "surfaces", "data")):
        if a.get(k) != b.get(k):
            return i
    return 2


# --------------------------------------------------------------------------- shrinking (on the tree spec)
def shrink_spec(spec, still_fails, budget=60):
    """greedy: drop sub-trees, then inputs, then decorations, while the failure stays the same"""
    spec = copy.deepcopy(spec)
    steps = [0]

    def attempt(mutate):
        if steps[0] >= budget:
            return False
        cand = copy.deepcopy(spec)
        if not mutate(cand):
            return False
        steps[0] += 1
        try:
            ok = still_fails(cand)
        except Exception:  # noqa: BLE001
            ok = False
        if ok:
            spec.clear()
            spec.update(cand)
        return ok

    def all_segs(node, acc):
        for seg in node["segs"]:
            acc.append(seg)
            for e in seg:
                if e["k"] == "read" and "child" in e:
                    all_segs(e["child"], acc)
        return acc

    changed = True
    while changed and steps[0] < budget:
        changed = False
        nseg = len(all_segs(spec["top"], []))
        for si in range(nseg):
            j = 0
            while steps[0] < budget:
                segs = all_segs(spec["top"], [])
                if si >= len(segs) or j >= len(segs[si]):
                    break

                def drop(c, si=si, j=j):
                    s = all_segs(c["top"], [])
                    if si >= len(s) or j >= len(s[si]):
                        return False
                    del s[si][j]
                    return True

                if attempt(drop):
                    changed = True
                else:
                    j += 1
    def plain(c):
        for seg in all_segs(c["top"], []):
            for e in seg:
                if e["k"] == "input":
                    e["lay"] = {"words": e["lay"]["words"], "gaps": [], "pre": [], "lead": 0, "trail": 0, "trailDollar": None}
                else:
                    e["style"], e["pre"], e["post"] = 0, [], []
        c["message"] = None
        c["crlf"] = False
        return True

    attempt(plain)
    return spec


# --------------------------------------------------------------------------- corpus
def _inp(*words):
    return {"k": "input", "lay": {"words": list(words), "gaps": [], "pre": [], "lead": 0, "trail": 0, "trailDollar": None}}


def _card(child, style=0):
    return {"k": "read", "style": style, "child": child, "pre": [], "post": []}


def _node(name, start, *segs, **kw):
    return dict({"name": name, "start": start, "segs": [list(s) for s in segs], "eof_nl": True, "eof_blank": False}, **kw)


def _spec(top, kind="ok", cwd="work", abs_=False):
    return {"title": "corpus", "message": None, "top": top, "kind": kind, "cwd": cwd, "abs": abs_, "limit": 128, "crlf": False, "plain": True}


def corpus_specs():
    cells = [_inp("1", "0", "-1", "imp:n=1"), _inp("2", "0", "1", "imp:n=0")]
    out = []
    # fixed 8b73eeb: a data sub-file with a blank line in it (DESIGN 7.3 #21a): second part stays in the data block
    d = _node("d.i", 2, [_inp("ctme", "5")], [], eof_blank=False)
    d["segs"] = [[_inp("ctme", "5"), _inp("print")]]
    out.append(_spec(_node("main.i", 0, cells, [_inp("1", "so", "5")], [_inp("mode", "n"), _card(d)])))
    # a sub-file of the cell block that carries on into the surface block
    span = _node("rest.i", 0, [_inp("2", "0", "1", "imp:n=0")], [_inp("1", "so", "5")])
    out.append(_spec(_node("main.i", 0, [cells[0], _card(span)], [], [_inp("mode", "n")])))
    # fixed 8561374: a data file that reads itself (DESIGN 7.3 #21b)
    selfread = _node("d.i", 2, [_inp("ctme", "5")])
    selfread["segs"][0].append({"k": "read", "style": 0, "cycle_to": "d.i", "pre": [], "post": []})
    out.append(_spec(_node("main.i", 0, cells, [_inp("1", "so", "5")], [_inp("mode", "n"), _card(selfread)]), kind="cycle"))
    # a longer cycle through the top-level file, from another directory
    back = _node("b.i", 2, [_inp("nps", "10"), {"k": "read", "style": 1, "cycle_to": "deck/main.i", "pre": [], "post": []}])
    mid = _node("a.i", 2, [_card(back)])
    out.append(_spec(_node("deck/main.i", 0, cells, [_inp("1", "so", "5")], [_inp("mode", "n"), _card(mid)]), kind="cycle", cwd="far/away"))
    # missing target
    gone = _card(_node("nowhere.i", 0, [cells[1]]))
    gone["missing"] = True
    out.append(_spec(_node("main.i", 0, [cells[0], gone], [_inp("1", "so", "5")], [_inp("mode", "n")]), kind="missing"))
    # two cards in one block, nested card, order of the generations (queue served first-in first-out)
    c3 = _node("c.i", 0, [_inp("4", "0", "1", "imp:n=1")])
    a = _node("a.i", 0, [_inp("2", "0", "1", "imp:n=1"), _card(c3)])
    b = _node("inc/b.i", 0, [_inp("3", "0", "1", "imp:n=0")])
    out.append(_spec(_node("deck/main.i", 0, [_card(a, 1), cells[0], _card(b, 3)], [_inp("1", "so", "5")], [_inp("mode", "n")]), cwd=".", abs_=False))
    return out


CORPUS_FILE = "corpus/C20/trees.json"


def load_corpus():
    """minimised past failures (fixed defects, finding-like shapes): corpus/C20/trees.json, written from corpus_specs()"""
    import json
    import os

    from vlib.core import VERIF

    with open(os.path.join(VERIF, CORPUS_FILE)) as fh:
        return json.load(fh)


# --------------------------------------------------------------------------- the check
def _work(spec):
    case = materialise(spec)
    return case, observe(case)


def run(chk):
    chk.rule = (
        "a case is a logical problem (2-7 cells, 2-7 surfaces, data cards) whose inputs are distributed over a tree of files "
        "(depth <= 4, up to 3 read cards per file and block, cards before/between/after the inputs, 10 spellings of the card, "
        "comments around it, occasionally a sub-file spanning two blocks, a missing target, or a cycle), materialised in a scratch "
        "directory and read from another working directory by relative or absolute path. Non-trivial: at least one read card."
    )
    chk.assumptions = [
        "the SLY ReadParser is abstracted to the word-level shape `read file <name>`; other shapes are only fed where the abstraction was validated (bare `read`)",
        "files are opened with replace=True (the default of read_input); text-mode reading (replace=False) is not modelled",
        "file names in read cards are relative and written with the characters [A-Za-z0-9._/-]; absolute names are covered by the theorem C20_paths only",
        "generation-wise order: the inputs of a file named by a card in a sub-file come after the inputs of all files named in the top-level file (the order in which the reader meets the cards)",
    ]
    chk.trusted_base = [
        "Lean 4.33.0 kernel",
        "hand-written model lean/MontePyVerif/Model/Reader.lean, tied to the code by the U-readcards correspondence of this run and by Gen/Constants.lean",
        "Spec lean/MontePyVerif/Spec/TextLayout.lean as a reading of MCNP's card-format rules",
        "harness tools/props/c20.py + tools/vlib/readerlib.py (materialises the files, calls read_input_syntax / read_input / write_to_file in-process)",
    ]
    leanio.prove(chk, "MontePyVerif.Props.C20", THEOREMS, "MontePyVerif.C20")
    if chk.thorough:
        leanio.leanchecker(chk, ["MontePyVerif.Props.C20"])
    drv = leanio.Driver(chk, "drv_c20")

    rng = chk.rng("trees")
    specs = load_corpus()
    ncorpus = len(specs)
    specs += [gen_spec(rng, i) for i in range(chk.pick(220, 20000))]
    chk.units["U-readcards"] = {"corpus": ncorpus, "random": len(specs) - ncorpus}

    results = pmap(_work, specs, workers=WORKERS, chunksize=4)
    cases = [c for c, _ in results]
    model = drv.batch([rl.model_case(c) for c in cases])
    specflat = drv.batch([dict(rl.model_case(c), op="spec_flatten", depth=16) for c in cases])

    for i, (spec, (case, obs)) in enumerate(zip(specs, results)):
        ncards = sum(1 for _ in iter_cards(spec["top"]))
        chk.note_case({"main": case["main"], "files": case["files"], "cwd": case["cwd"], "abs": case["abs"]}, ncards >= 1, sample_every=500)
        chk.count("kind:" + case["kind"])
        chk.count("cards:%d" % min(ncards, 6))
        chk.count("cwd:" + case["cwd"] + ("/abs" if case["abs"] else "/rel"))
        for f in case["features"]:
            chk.count("feature:" + f)
        chk.count("outcome:" + str(obs["syn"]["err"]))
        v = judge(case, obs)
        if v is not None and v[0] == "generator":
            chk.count("generator-invalid")
            continue
        if v is not None:
            sig, what = v
            if any(x["key"] == canon(sig) for x in chk.violations):
                # same signature as a violation that was already confirmed and minimised: count it
                chk.violation(sig, what, {"spec": spec, "case": case})
                continue
            # confirm in the parent process before anything is reported
            case2, obs2 = _work(spec)
            v2 = judge(case2, obs2)
            if v2 is None or v2[0] != sig:
                chk.count("flaky:judge")
            else:
                def fails(s, sig=sig):
                    c, o = _work(s)
                    w = judge(c, o)
                    return w is not None and w[0] == sig

                # a case that hangs costs the whole guard time per attempt: shrink it only a little
                budget = 4 if sig.get("class") == "hang" else 60
                small = shrink_spec(spec, fails, budget) if len(chk.violations) < 4 else spec
                mc, mo = _work(small)
                chk.violation(sig, what, {"spec": small, "case": mc, "impl": {"syn": mo["syn"], "multi_err": mo["multi"].get("err"), "msg": mo["multi"].get("msg")}})
            continue
        if specflat is not None:
            # Spec.flatten (the right-hand side of C20_flatten) against the harness's own expectation
            want_err = {"ok": None, "missing": "missing", "cycle": "cycle"}[case["kind"]]
            got = specflat[i]
            bad = got.get("err") != want_err
            if not bad and want_err is None:
                # the Spec's stream is in reading order; the expectation is block by block (Flat.block)
                per_block = sorted([[x["block"], x["words"]] for x in got["inputs"]], key=lambda t: t[0])
                bad = per_block != [[b, " ".join(ws).split()] for b, ws in case["expect"]["inputs"]]
            if bad:
                chk.broken_obligation("correspondence", "Spec.flatten vs the flattening expected by the generator", {"spec": got, "expect": case["expect"]["inputs"], "kind": case["kind"]}, {"spec": spec, "case": case})
        if model is not None:
            chk.traces_validated += 1
            if model[i] != obs["syn"]:
                again = rl.impl_syntax(case)
                m2 = drv.batch([rl.model_case(case)])[0]
                if again == m2:
                    chk.count("flaky:correspondence")
                    continue
                chk.disagreements_checked += 1

                def differs(s):
                    c = materialise(s)
                    return rl.impl_syntax(c) != drv.batch([rl.model_case(c)])[0]

                small = shrink_spec(spec, differs) if len(chk.broken) < 2 else spec
                mc = materialise(small)
                chk.broken_obligation(
                    "correspondence", "U-readcards (Model/Reader.lean readAll vs input_syntax_reader.read_input_syntax)",
                    {"impl": rl.impl_syntax(mc), "model": drv.batch([rl.model_case(mc)])[0]}, {"spec": small, "case": mc},
                )


def replay(chk, payload):
    chk.rule = "replay of one stored case"
    if payload.get("verdict") == "no-failing-input-found":
        stored = payload["no_longer_checks"][0]["case"]
    else:
        stored = payload.get("case", payload)
    spec = stored.get("spec")
    case = materialise(spec) if spec is not None else stored["case"]
    drv = leanio.Driver(chk, "drv_c20")
    obs = observe(case)
    chk.note_case({"main": case["main"], "files": case["files"]})
    v = judge(case, obs)
    if v is not None and v[0] != "generator":
        chk.violation(v[0], v[1], {"spec": spec, "case": case, "impl": {"syn": obs["syn"], "multi_err": obs["multi"].get("err")}})
    elif drv.ok:
        m = drv.batch([rl.model_case(case)])[0]
        if m != obs["syn"]:
            chk.broken_obligation("correspondence", "U-readcards", {"impl": obs["syn"], "model": m}, {"spec": spec, "case": case})
    chk.add_obligation("replay", True)
