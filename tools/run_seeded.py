"""Re-validates the independently seeded breaking changes (seeded/<id>/) against the checks.

For every seeded change: /repo must be clean; the patch is applied (git apply), the demonstration must FAIL, the
quick tier of the listed checks is run (meta["checks"], default: the property's own check), the patch is undone
(git checkout -- .) whatever happens.  Writes seeded/RESULTS.json: per change, per check, the exit status and the
first VIOLATION line.  Nothing here is part of a registered check; it is the regression test of the checks themselves.

usage: python3 tools/run_seeded.py [id ...]      (VERIF_REPO as for the checks, default /repo)
"""
import glob
import json
import os
import subprocess
import sys
import time

VERIF = os.path.dirname(os.path.dirname(os.path.abspath(__file__)))
REPO = os.environ.get("VERIF_REPO", "/repo")


def sh(cmd, cwd=None, timeout=3600, env=None):
    e = dict(os.environ)
    e.update(env or {})
    return subprocess.run(cmd, cwd=cwd, capture_output=True, text=True, timeout=timeout, env=e)


def main():
    want = set(sys.argv[1:])
    if sh(["git", "status", "--porcelain", "--untracked-files=no"], cwd=REPO).stdout.strip():
        print("repo is not clean: refusing to run")
        return 2
    results = {}
    respath = os.path.join(VERIF, "seeded", "RESULTS.json")
    if os.path.exists(respath) and want:
        results = json.load(open(respath))
    for d in sorted(glob.glob(os.path.join(VERIF, "seeded", "*"))):
        mid = os.path.basename(d)
        if not os.path.isdir(d) or (want and mid not in want):
            continue
        meta = json.load(open(os.path.join(d, "meta.json")))
        checks = meta.get("checks") or [meta["property"]]
        patch = os.path.join(d, "patch.diff")
        entry = {"property": meta["property"], "checks": {}}
        if sh(["git", "apply", "--check", patch], cwd=REPO).returncode != 0:
            entry["error"] = "patch does not apply to the current tree"
            results[mid] = entry
            print(mid, entry["error"])
            continue
        demo = os.path.join(d, "demo.py")
        denv = meta.get("demo_env")  # e.g. a pinned PYTHONHASHSEED for a demonstration that depends on a set order
        clean = sh(["/venv/bin/python", "-W", "ignore", demo], env=denv).returncode
        try:
            sh(["git", "apply", patch], cwd=REPO)
            entry["demo_exit_clean"] = clean
            entry["demo_exit_with_change"] = sh(["/venv/bin/python", "-W", "ignore", demo], env=denv).returncode
            for c in checks:
                t0 = time.time()
                r = sh([os.path.join(VERIF, "check"), c, "--tier", "quick"], cwd=VERIF)
                lines = [l for l in r.stdout.splitlines() if l.startswith("VIOLATION")]
                entry["checks"][c] = {"exit": r.returncode, "violation_lines": len(lines), "first": lines[0] if lines else None,
                                      "wall_s": round(time.time() - t0, 1)}
                print(mid, c, "exit", r.returncode, len(lines), "VIOLATION lines")
        finally:
            sh(["git", "checkout", "--", "."], cwd=REPO)
        entry["caught_by"] = sorted(c for c, v in entry["checks"].items() if v["exit"] == 1 and v["violation_lines"])
        results[mid] = entry
    json.dump(results, open(respath, "w"), indent=1, sort_keys=True)
    # the evidence files now describe runs on changed trees: rewrite them from the unchanged tree
    touched = sorted({c for e in results.values() for c in e.get("checks", {})}) if not want else sorted(
        {c for m in want for c in results.get(m, {}).get("checks", {})})
    for c in touched:
        r = sh([os.path.join(VERIF, "check"), c, "--tier", "quick"], cwd=VERIF)
        print("clean tree", c, "exit", r.returncode)
    missed = [m for m, e in results.items() if not e.get("caught_by")]
    print("missed:", missed)
    # replays of seeded runs are not evidence about the unchanged tree
    subprocess.run(["rm", "-rf", os.path.join(VERIF, "replays")])
    return 0


if __name__ == "__main__":
    sys.exit(main())
