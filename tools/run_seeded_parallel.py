"""Parallel re-validation of the seeded breaking changes (seeded/<id>/) against the checks, without touching /repo.

Same verdicts as tools/run_seeded.py, but every change is applied in its own scratch worktree of /repo's HEAD
(VERIF_REPO points the checks at it) and the checks run in N scratch copies of /verif (git worktrees of HEAD with a
copy of lean/.lake), so that N changes are examined at once.  Writes seeded/RESULTS.json.  Everything under the
scratch directory is removed at the end.  Nothing here is part of a registered check.

usage: python3 tools/run_seeded_parallel.py [--slots 6] [--only-own] [id ...]
"""
import concurrent.futures as cf
import glob
import json
import os
import queue
import shutil
import subprocess
import sys
import tempfile
import time

VERIF = os.path.dirname(os.path.dirname(os.path.abspath(__file__)))
REPO = "/repo"


def sh(cmd, cwd=None, env=None, timeout=3600):
    e = dict(os.environ)
    e.update(env or {})
    return subprocess.run(cmd, cwd=cwd, capture_output=True, text=True, timeout=timeout, env=e)


def demo_cmd(demo, wt, scratch, mid):
    """the demonstrations import MontePy from the literal path /repo: run a copy that points at the worktree"""
    src = open(demo).read().replace('"/repo"', '"%s"' % wt).replace("'/repo'", "'%s'" % wt)
    out = os.path.join(scratch, f"demo_{mid}_{os.path.basename(wt)}.py")
    open(out, "w").write(src)
    return ["/venv/bin/python", "-W", "ignore", out]


def one(mid, slots, scratch, only_own):
    d = os.path.join(VERIF, "seeded", mid)
    meta = json.load(open(os.path.join(d, "meta.json")))
    checks = [meta["property"]] if only_own else (meta.get("checks") or [meta["property"]])
    if meta["property"] not in checks:
        checks = [meta["property"]] + checks
    entry = {"property": meta["property"], "checks": {}}
    clean_wt = os.path.join(scratch, "clean")
    wt = os.path.join(scratch, "wt_" + mid)
    patch = os.path.join(d, "patch.diff")
    sh(["git", "-C", REPO, "worktree", "add", "-q", "--detach", wt, "HEAD"])
    try:
        shutil.copy(os.path.join(REPO, "montepy", "_version.py"), os.path.join(wt, "montepy", "_version.py"))
        if sh(["git", "-C", wt, "apply", "--check", patch]).returncode != 0:
            entry["error"] = "patch does not apply to the current tree"
            return mid, entry
        denv = meta.get("demo_env")
        demo = os.path.join(d, "demo.py")
        entry["demo_exit_clean"] = sh(demo_cmd(demo, clean_wt, scratch, mid), cwd=scratch, env=denv).returncode
        sh(["git", "-C", wt, "apply", patch])
        entry["demo_exit_with_change"] = sh(demo_cmd(demo, wt, scratch, mid), cwd=scratch, env=denv).returncode
        slot = slots.get()
        try:
            for c in checks:
                t0 = time.time()
                r = sh([os.path.join(slot, "check"), c, "--tier", "quick"], cwd=slot, env={"VERIF_REPO": wt})
                lines = [l for l in r.stdout.splitlines() if l.startswith("VIOLATION")]
                concrete = [l for l in lines if "no-failing-input-found" not in l]
                entry["checks"][c] = {"exit": r.returncode, "violation_lines": len(lines), "concrete": len(concrete),
                                      "first": (concrete or lines or [None])[0], "wall_s": round(time.time() - t0, 1)}
            sh(["git", "checkout", "--", "."], cwd=slot)
        finally:
            slots.put(slot)
    finally:
        sh(["git", "-C", REPO, "worktree", "remove", "--force", wt])
    entry["caught_by"] = sorted(c for c, v in entry["checks"].items() if v["exit"] == 1 and v["violation_lines"])
    entry["caught_concretely_by"] = sorted(c for c, v in entry["checks"].items() if v["exit"] == 1 and v["concrete"])
    print(mid, "caught by", entry["caught_by"], "concrete", entry["caught_concretely_by"], flush=True)
    return mid, entry


def main():
    args = sys.argv[1:]
    nslots, only_own = 6, False
    if "--slots" in args:
        i = args.index("--slots")
        nslots = int(args[i + 1])
        del args[i:i + 2]
    if "--only-own" in args:
        only_own = True
        args.remove("--only-own")
    want = set(args)
    ids = sorted(os.path.basename(p) for p in glob.glob(os.path.join(VERIF, "seeded", "*")) if os.path.isdir(p))
    ids = [i for i in ids if not want or i in want]
    scratch = tempfile.mkdtemp(prefix="verif_seeded_")
    slots = queue.Queue()
    made = []
    try:
        clean = os.path.join(scratch, "clean")
        sh(["git", "-C", REPO, "worktree", "add", "-q", "--detach", clean, "HEAD"])
        shutil.copy(os.path.join(REPO, "montepy", "_version.py"), os.path.join(clean, "montepy", "_version.py"))
        for k in range(nslots):
            s = os.path.join(scratch, f"verif{k}")
            sh(["git", "-C", VERIF, "worktree", "add", "-q", "--detach", s, "HEAD"])
            subprocess.run(["cp", "-a", os.path.join(VERIF, "lean", ".lake"), os.path.join(s, "lean", ".lake")])
            made.append(s)
            slots.put(s)
        respath = os.path.join(VERIF, "seeded", "RESULTS.json")
        results = json.load(open(respath)) if (want and os.path.exists(respath)) else {}
        with cf.ThreadPoolExecutor(max_workers=nslots) as ex:
            for mid, entry in ex.map(lambda m: one(m, slots, scratch, only_own), ids):
                results[mid] = entry
        json.dump(results, open(respath, "w"), indent=1, sort_keys=True)
        missed = [m for m, e in results.items() if not e.get("caught_by")]
        weak = [m for m, e in results.items() if e.get("caught_by") and not e.get("caught_concretely_by")]
        print("missed:", missed)
        print("caught only without a failing input:", weak)
    finally:
        for s in made:
            sh(["git", "-C", VERIF, "worktree", "remove", "--force", s])
        sh(["git", "-C", REPO, "worktree", "remove", "--force", os.path.join(scratch, "clean")])
        shutil.rmtree(scratch, ignore_errors=True)
    return 0


if __name__ == "__main__":
    sys.exit(main())
