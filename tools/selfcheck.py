"""setup_cmd tail: sanity of the installation (tools present, MontePy imports from /repo, drivers build)."""
import os
import subprocess
import sys

sys.path.insert(0, os.path.dirname(os.path.abspath(__file__)))
from vlib import core, mp  # noqa: E402,F401

print("montepy", mp.montepy.__file__)
r = subprocess.run(["/venv/bin/python", os.path.join(core.VERIF, "tools", "extract.py")], capture_output=True, text=True)
print(r.stdout.strip()[-300:])
if r.returncode != 0:
    print(r.stderr[-800:])
    sys.exit(1)
lean = os.path.join(core.VERIF, "lean")
exes = [l.split('"')[1] for l in open(os.path.join(lean, "lakefile.toml")) if l.startswith("name = \"drv_")]
r = subprocess.run(["lake", "build"] + exes, cwd=lean, capture_output=True, text=True)
print("drivers:", exes, "rc", r.returncode)
if r.returncode != 0:
    print((r.stdout + r.stderr)[-1500:])
    sys.exit(1)
print("selfcheck ok")
