"""C03 on the real code: typed edits through the public API, the abstraction read back through the API, the
serialisation of the live objects into the heap model's protocol, and the property's own oracle:
Spec denotation of the written file versus (Spec denotation of the unedited write) with the edits applied abstractly.

An edit is a JSON list [name, args...] with the constructor names of Model/Edits.lean:Edit.  Objects are addressed by
their position in their collection.  Python values are encoded as None | bool | {"i": n} | {"f": [num, den]} | {"s": str}.
"""

import copy
from fractions import Fraction

from . import mp, spec

montepy = mp.montepy
Particle = montepy.particle.Particle

ERRS = {"TypeError", "ValueError", "NumberConflictError", "ParticleTypeNotInProblem", "KeyError", "IndexError"}


# --------------------------------------------------------------------------- encoding
def enc(x):
    if x is None or isinstance(x, bool):
        return x
    if isinstance(x, int):
        return {"i": x}
    if isinstance(x, float):
        n, d = Fraction(x).as_integer_ratio()
        return {"f": [n, d]}
    if isinstance(x, str):
        return {"s": x}
    return {"o": 1}


def dec(x):
    if x is None or isinstance(x, bool):
        return x
    if "i" in x:
        return x["i"]
    if "f" in x:
        return x["f"][0] / x["f"][1]
    if "s" in x:
        return x["s"]
    return object()


def rat(x):
    f = Fraction(x)
    return [f.numerator, f.denominator]


def part_name(p):
    return p.value.lower()


def particle(name):
    return Particle(name.upper())


# --------------------------------------------------------------------------- applying an edit through the public API
def apply(p, e):
    op = e[0]
    C, S, M, T, U = p.cells.objects, p.surfaces.objects, p.materials.objects, p.transforms.objects, p.universes.objects
    if op == "cellNumber":
        C[e[1]].number = dec(e[2])
    elif op == "surfNumber":
        S[e[1]].number = dec(e[2])
    elif op == "matNumber":
        M[e[1]].number = dec(e[2])
    elif op == "trNumber":
        T[e[1]].number = dec(e[2])
    elif op == "uniNumber":
        U[e[1]].number = dec(e[2])
    elif op == "material":
        C[e[1]].material = None if e[2] is None else M[e[2]]
    elif op == "atomDensity":
        C[e[1]].atom_density = dec(e[2])
    elif op == "massDensity":
        C[e[1]].mass_density = dec(e[2])
    elif op == "delDensity":
        c = C[e[1]]
        if getattr(c, "_is_atom_dens", True):
            del c.atom_density
        else:
            del c.mass_density
    elif op == "importance":
        setattr(C[e[1]].importance, particle(e[2]).name.lower(), dec(e[3]))
    elif op == "importanceAll":
        C[e[1]].importance.all = dec(e[2])
    elif op == "volume":
        C[e[1]].volume = dec(e[2])
    elif op == "delVolume":
        del C[e[1]].volume
    elif op == "lattice":
        C[e[1]].lattice = dec(e[2])
    elif op == "delLattice":
        del C[e[1]].lattice
    elif op == "universe":
        C[e[1]].universe = U[e[2]]
    elif op == "claim":
        U[e[1]].claim([C[i] for i in e[2]])
    elif op == "notTruncated":
        C[e[1]].not_truncated = dec(e[2])
    elif op == "fillUniverse":
        C[e[1]].fill.universe = None if e[2] is None else U[e[2]]
    elif op == "fillTransform":
        C[e[1]].fill.transform = None if e[2] is None else T[e[2]]
    elif op == "surfConstants":
        S[e[1]].surface_constants = [dec(x) for x in e[2]]
    elif op == "location":
        _need(S[e[1]], "AxisPlane")
        S[e[1]].location = dec(e[2])
    elif op == "radius":
        _need(S[e[1]], "CylinderOnAxis", "CylinderParAxis")
        S[e[1]].radius = dec(e[2])
    elif op == "coordinates":
        _need(S[e[1]], "CylinderParAxis")
        S[e[1]].coordinates = (dec(e[2]), dec(e[3]))
    elif op == "reflecting":
        S[e[1]].is_reflecting = dec(e[2])
    elif op == "white":
        S[e[1]].is_white_boundary = dec(e[2])
    elif op == "surfTransform":
        if e[2] is None:
            del S[e[1]].transform
        else:
            S[e[1]].transform = T[e[2]]
    elif op == "periodic":
        if e[2] is None:
            del S[e[1]].periodic_surface
        else:
            S[e[1]].periodic_surface = S[e[2]]
    elif op == "fraction":
        list(M[e[1]].material_components.values())[e[2]].fraction = dec(e[3])
    elif op == "laws":
        ts = M[e[1]].thermal_scattering
        if ts is None:
            raise NotApplicable()
        ts.thermal_scattering_laws = list(e[2])
    elif op == "addThermal":
        M[e[1]].add_thermal_scattering(e[2])
    elif op == "displacement":
        import numpy as np

        T[e[1]].displacement_vector = np.array([x[0] / x[1] for x in e[2]])
    elif op == "rotation":
        import numpy as np

        T[e[1]].rotation_matrix = np.array([x[0] / x[1] for x in e[2]])
    elif op == "inDegrees":
        T[e[1]].is_in_degrees = dec(e[2])
    elif op == "mainToAux":
        T[e[1]].is_main_to_aux = dec(e[2])
    elif op == "modeAdd":
        p.mode.add(e[1])
    elif op == "modeRemove":
        p.mode.remove(e[1])
    elif op == "modeSet":
        p.mode.set(list(e[1]))
    elif op == "title":
        p.title = e[1]
    else:
        raise ValueError(f"unknown edit {op}")


class NotApplicable(Exception):
    pass


def _need(obj, *names):
    if type(obj).__name__ not in names:
        raise NotApplicable()


def outcome(p, e):
    try:
        apply(p, e)
        return "ok"
    except NotApplicable:
        return "NotApplicable"
    except Exception as ex:  # noqa: BLE001
        n = type(ex).__name__
        return n if n in ERRS else "leak:" + n


# --------------------------------------------------------------------------- reading quantities back (the abstraction)
def _val(x):
    if x is None:
        return {"val": None}
    if hasattr(x, "value") and not isinstance(x, (int, float, str)):
        x = x.value  # enum (Lattice)
    if isinstance(x, str):
        return {"val": {"s": x}}
    return {"val": {"n": rat(x)}}


def _index(obj, objs):
    if obj is None:
        return None
    for i, o in enumerate(objs):
        if o is obj:
            return i
    return 9999  # an object that is not in the problem's collection (hidden transform, detached universe)


def surf_kind(s):
    return {"AxisPlane": "axisPlane", "CylinderOnAxis": "cylOnAxis", "CylinderParAxis": "cylParAxis"}.get(type(s).__name__, "generic")


def all_parts(p):
    parts = set(part_name(x) for x in p.mode.particles)
    for c in p.cells.objects:
        parts |= {part_name(x) for x in c.importance._particle_importances}
    return sorted(parts | {"n", "p", "e"})


def probes(p):
    """the quantities observed after every edit: (list of quantity keys, list of written-table keys)"""
    q, w = [], []
    parts = all_parts(p)
    for i, c in enumerate(p.cells.objects):
        q += [["cellNumber", i], ["cellDensity", i], ["cellVol", i], ["cellLat", i]]
        q += [["cellImp", i, a] for a in parts]
        q += [["cellMat", i], ["cellAtomDens", i], ["cellUni", i], ["cellNotTrunc", i], ["cellFillUni", i], ["cellFillTr", i]]
        w += [["w.cellMaterial", i], ["w.cellDensitySign", i], ["w.cellU", i], ["w.cellFill", i], ["w.cellFillTr", i]]
    for i, s in enumerate(p.surfaces.objects):
        q += [["surfNumber", i]] + [["surfConst", i, k] for k in range(len(s._surface_constants))]
        q += [["surfReflect", i], ["surfWhite", i], ["surfTr", i], ["surfPer", i]]
        w += [["w.surfModifier", i], ["w.surfPointer", i]]
    for i, m in enumerate(p.materials.objects):
        q += [["matNumber", i]] + [["matFrac", i, k] for k in range(len(m.material_components))] + [["matLaws", i]]
    for i, t in enumerate(p.transforms.objects):
        q += [["trNumber", i], ["trDisp", i], ["trRot", i], ["trDeg", i], ["trM2A", i]]
    for i, u in enumerate(p.universes.objects):
        q += [["uniNumber", i]]
    q += [["mode"], ["title"]]
    return q, [k for k in q if k[0] in SLOT_KINDS] + w


SLOT_KINDS = {"cellNumber", "cellDensity", "cellImp", "cellVol", "cellLat", "surfNumber", "surfConst", "matNumber", "matFrac", "trNumber"}


def observe_one(p, k):
    C, S, M, T, U = p.cells.objects, p.surfaces.objects, p.materials.objects, p.transforms.objects, p.universes.objects
    kind = k[0]
    if kind == "cellNumber":
        return _val(C[k[1]].number)
    if kind == "cellDensity":
        c = C[k[1]]
        return _val(c.atom_density if getattr(c, "_is_atom_dens", True) else c.mass_density)
    if kind == "cellVol":
        return _val(C[k[1]].volume)
    if kind == "cellLat":
        return _val(C[k[1]].lattice)
    if kind == "cellImp":
        imp = C[k[1]].importance
        part = particle(k[2])
        if part not in imp:
            return "absent"
        return _val(imp._particle_importances[part]["data"][0].value)
    if kind == "cellMat":
        return {"ptr": _index(C[k[1]].material, M)}
    if kind == "cellAtomDens":
        c = C[k[1]]
        return {"flag": c.is_atom_dens} if hasattr(c, "_is_atom_dens") else "absent"
    if kind == "cellUni":
        return {"ptr": _index(C[k[1]].universe, U)}
    if kind == "cellNotTrunc":
        return {"flag": bool(C[k[1]]._universe.not_truncated)}
    if kind == "cellFillUni":
        return {"ptr": _index(C[k[1]].fill.universe, U)}
    if kind == "cellFillTr":
        return {"ptr": _index(C[k[1]].fill.transform, T)}
    if kind == "surfNumber":
        return _val(S[k[1]].number)
    if kind == "surfConst":
        return _val(S[k[1]].surface_constants[k[2]])
    if kind == "surfReflect":
        return {"flag": S[k[1]].is_reflecting}
    if kind == "surfWhite":
        return {"flag": S[k[1]].is_white_boundary}
    if kind == "surfTr":
        return {"ptr": _index(S[k[1]].transform, T)}
    if kind == "surfPer":
        return {"ptr": _index(S[k[1]].periodic_surface, S)}
    if kind == "matNumber":
        return _val(M[k[1]].number)
    if kind == "matFrac":
        return _val(list(M[k[1]].material_components.values())[k[2]].fraction)
    if kind == "matLaws":
        ts = M[k[1]].thermal_scattering
        return {"strs": None if ts is None else list(ts.thermal_scattering_laws)}
    if kind == "trNumber":
        return _val(T[k[1]].number)
    if kind == "trDisp":
        return {"vec": [rat(float(x)) for x in T[k[1]].displacement_vector]}
    if kind == "trRot":
        return {"vec": [rat(float(x)) for x in T[k[1]].rotation_matrix]}
    if kind == "trDeg":
        return {"flag": bool(T[k[1]].is_in_degrees)}
    if kind == "trM2A":
        return {"flag": bool(T[k[1]].is_main_to_aux)}
    if kind == "uniNumber":
        return {"int": U[k[1]].number}
    if kind == "mode":
        return {"strs": sorted(part_name(x) for x in p.mode.particles)}
    if kind == "title":
        return {"text": p.title.title}
    raise ValueError(kind)


def observe(p, qs):
    return [observe_one(p, k) for k in qs]


def canon_obs(o):
    """numbers as reduced fractions, so that model and implementation compare exactly"""
    if isinstance(o, dict) and "val" in o and isinstance(o["val"], dict) and "n" in o["val"]:
        return {"val": {"n": rat(Fraction(*o["val"]["n"]))}}
    if isinstance(o, dict) and "vec" in o:
        return {"vec": [rat(Fraction(*x)) for x in o["vec"]]}
    return o


# --------------------------------------------------------------------------- serialising the live objects for the model
def serialise(p):
    """heap, slot/tree maps, fields of the live problem in the protocol of Driver/C03.lean"""
    nodes, ids = [], {}

    def nid(node):
        if node is None:
            return None
        k = id(node)
        if k not in ids:
            ids[k] = len(nodes)
            v = node.value
            if v is not None and hasattr(v, "value") and not isinstance(v, (int, float, str)):
                v = v.value
            val = None if v is None else ({"s": v} if isinstance(v, str) else {"n": rat(v)})
            neg = bool(node.is_negatable_float or node.is_negatable_identifier)
            nodes.append([val, neg, getattr(node, "_is_neg", None) if neg else None])
            _keep.append(node)
        return ids[k]

    _keep = []
    slots = []
    C, S, M, T, U = p.cells.objects, p.surfaces.objects, p.materials.objects, p.transforms.objects, p.universes.objects
    imp_keys = []
    for i, c in enumerate(C):
        slots.append([["cellNumber", i], nid(c._number), nid(c._tree["cell_num"])])
        slots.append([["cellDensity", i], nid(c._density_node), nid(c._tree["material"]["density"])])
        keys = []
        for part, tree in c.importance._particle_importances.items():
            n = tree["data"][0]
            slots.append([["cellImp", i, part_name(part)], nid(n), nid(n)])
            keys.append(part_name(part))
        imp_keys.append(keys)
        slots.append([["cellVol", i], nid(c._volume._volume), nid(c._volume._tree["data"][0])])
        slots.append([["cellLat", i], nid(c._lattice._lattice), nid(c._lattice._tree["data"][0])])
    for i, s in enumerate(S):
        slots.append([["surfNumber", i], nid(s._number), nid(s._tree["surface_num"]["number"])])
        tree_nodes = list(s._tree["data"])
        for k, n in enumerate(s._surface_constants):
            slots.append([["surfConst", i, k], nid(n), nid(tree_nodes[k]) if k < len(tree_nodes) else None])
        kind = surf_kind(s)
        if kind == "axisPlane" and s._location is not s._surface_constants[0]:
            raise AssertionError("AxisPlane._location is not its first constant")
        if kind == "cylOnAxis" and s._radius is not s._surface_constants[0]:
            raise AssertionError("CylinderOnAxis._radius is not its first constant")
        if kind == "cylParAxis" and (s._radius is not s._surface_constants[2] or s._coordinates[0] is not s._surface_constants[0]
                                     or s._coordinates[1] is not s._surface_constants[1]):
            raise AssertionError("CylinderParAxis nodes are not its constants")
    for i, m in enumerate(M):
        slots.append([["matNumber", i], nid(m._number), nid(m._tree["classifier"].number)])
        flat = []
        for item in m._tree["data"]:
            flat += list(item) if isinstance(item, tuple) else [item]
        for k, comp in enumerate(m.material_components.values()):
            n = comp._fraction
            slots.append([["matFrac", i, k], nid(n), nid(n) if any(x is n for x in flat) else None])
    for i, t in enumerate(T):
        slots.append([["trNumber", i], nid(t._number), nid(t._tree["classifier"].number)])
    q, w = probes(p)
    field_keys = [k for k in q if k[0] not in SLOT_KINDS]
    fields = [[k, observe_one(p, k)] for k in field_keys]
    return {
        "nodes": nodes, "slots": slots, "fields": fields, "impKeys": imp_keys,
        "counts": [len(C), len(S), len(M), len(T), len(U)],
        "surfKind": [surf_kind(s) for s in S], "nconst": [len(s._surface_constants) for s in S],
        "probes": q, "wprobes": w,
    }


# --------------------------------------------------------------------------- the oracle: tables of what a file denotes
def _num(v):
    """Spec value -> Fraction | 'J' | word"""
    if v == "J":
        return "J"
    if "n" in v:
        return Fraction(v["n"][0], v["n"][1])
    if "w" in v:
        return v["w"].lower()
    # the k-th of n log-interpolated values between a and b (irrational in general): the double MCNP computes,
    # as an exact rational; every comparison of the oracle is within the library's relative tolerance
    (an, ad), (bn, bd), k, n = v["log"]
    a, b = an / ad, bn / bd
    if a > 0 and b > 0:
        return Fraction(a ** ((n + 1 - k) / (n + 1)) * b ** (k / (n + 1)))
    return ("log", str(v["log"]))


def _blank(vals):
    """a per-cell datum that is a jump / nothing is 'not given'"""
    vals = [x for x in vals]
    if all(x == "J" for x in vals):
        return None
    return vals


IDENTITY = [Fraction(x) for x in (1, 0, 0, 0, 1, 0, 0, 0, 1)]
IDENTITY_DEG = [Fraction(x) for x in (0, 90, 90, 90, 0, 90, 90, 90, 0)]


def tr_norm(entries, star=False):
    """TR card entries with MCNP's defaults made explicit: (displacement, rotation or identity, m)"""
    e = list(entries)
    disp, rot, m = e[:3], e[3:12], e[12:13]
    if not rot:
        rot = "identity"
    elif len(rot) == 9 and rot == (IDENTITY_DEG if star else IDENTITY):
        rot = "identity"
    return [disp, rot, m[0] if m else Fraction(1)]


def table(den):
    """quantity -> value, for everything the file denotes (placement of per-cell data abstracted away)"""
    t = {}
    t[("title",)] = den["title"].rstrip()
    t[("message",)] = [m.rstrip() for m in den["message"]]
    pct = spec.per_cell_table(den)
    for i, c in enumerate(den["cells"]):
        t[("cell", i, "number")] = c["number"]
        t[("cell", i, "material")] = c["material"]
        t[("cell", i, "density")] = None if c["density"] is None else Fraction(*c["density"])
        t[("cell", i, "geometry")] = spec.norm_geometry(c["geometry"])
        counts = {}
        for key, _ in c["params"]:
            base, parts = spec.split_key(key)
            for part in parts:
                counts[(base.lstrip("*"), part)] = counts.get((base.lstrip("*"), part), 0) + 1
        for (base, part), n in counts.items():
            if n > 1:
                t[("cell", i, "given-twice", base, part)] = n
        for (base, part), vals in spec.norm_params(c["params"]).items():
            if base.lstrip("*") not in spec.CELL_DATA:
                t[("cell", i, "param", base, part)] = [_num(v) for v in vals]
            elif base.lstrip("*") == "fill":
                t[("cell", i, "fillstar")] = base.startswith("*")
    for (i, base, part), given in pct.items():
        vals = [_blank([_num(v) for v in vals]) for _, vals in given]
        vals = [v for v in vals if v is not None]
        if base in ("u", "fill") and vals and vals[0] == [Fraction(0)]:
            vals = vals[1:]  # universe 0 is the default
        if not vals:
            continue
        t[("cell", i, base, part)] = vals[0] if len(vals) == 1 else ("given-twice", vals)
    for i, s in enumerate(den["surfaces"]):
        for f in ("number", "modifier", "pointer", "mnemonic"):
            t[("surf", i, f)] = s[f]
        t[("surf", i, "constants")] = [_num(v) for v in s["constants"]]
    seen = {}
    for d in den["data"]:
        if spec.is_per_cell_card(d["name"]):
            continue
        base, parts = spec.split_key(d["name"])
        key = base + (":" + ",".join(parts) if parts != [None] else "")
        star = key.startswith("*")
        key = key.lstrip("*")
        seen[key] = seen.get(key, 0) + 1
        if seen[key] > 1:
            key += f"#{seen[key]}"
        ent = [_num(v) for v in d["entries"]]
        if key == "mode":
            ent = sorted(ent, key=str)
        if key.startswith("tr") and key[2:].isdigit():
            ent = tr_norm(ent, star) + [star]
        t[("data", key)] = ent
    t[("meta", "mode-card")] = ("data", "mode") in t
    t.setdefault(("data", "mode"), ["n"])  # MCNP's default
    return t


def close(a, b):
    if isinstance(a, Fraction) and isinstance(b, Fraction):
        return spec.is_close(a, b)
    if isinstance(a, (list, tuple)) and isinstance(b, (list, tuple)):
        return len(a) == len(b) and all(close(x, y) for x, y in zip(a, b))
    if isinstance(a, Fraction) or isinstance(b, Fraction):
        try:
            return spec.is_close(Fraction(a), Fraction(b))
        except (TypeError, ValueError):
            return False
    return a == b


# --------------------------------------------------------------------------- the oracle: applying edits abstractly
def abstract_state(p):
    """numbers and pointers of the freshly read problem, by position (used to resolve what an edit refers to)"""
    C, S, M, T, U = p.cells.objects, p.surfaces.objects, p.materials.objects, p.transforms.objects, p.universes.objects
    return {
        "cell_number": [c.number for c in C],
        "cell_mat": [_index(c.material, M) for c in C],
        "u": [_index(c.universe, U) for c in C],
        "nt": [bool(c._universe.not_truncated) for c in C],
        "fill": [_index(c.fill.universe, U) for c in C],
        "fill_tr": [_index(c.fill.transform, T) for c in C],
        "imp_parts": [sorted(part_name(x) for x in c.importance._particle_importances) for c in C],
        "surf_number": [s.number for s in S],
        "refl": [s.is_reflecting for s in S], "white": [s.is_white_boundary for s in S],
        "surf_tr": [_index(s.transform, T) for s in S], "surf_per": [_index(s.periodic_surface, S) for s in S],
        "surf_kind": [surf_kind(s) for s in S],
        "mat_number": [m.number for m in M], "has_mt": [m.thermal_scattering is not None for m in M],
        "tr_number": [t.number for t in T],
        "disp": [[Fraction(float(x)) for x in t.displacement_vector] for t in T],
        "rot": [[Fraction(float(x)) for x in t.rotation_matrix] for t in T],
        "deg": [bool(t.is_in_degrees) for t in T], "m2a": [bool(t.is_main_to_aux) for t in T],
        "uni_number": [u.number for u in U],
        "mode": sorted(part_name(x) for x in p.mode.particles),
    }


def _fr(x):
    v = dec(x)
    return Fraction(v) if isinstance(v, (int, float)) and not isinstance(v, bool) else v


def _rename(t, old, new):
    if old in t:
        t[new] = t.pop(old)


def _geom_renumber(words, old, new, cells):
    out = []
    prev_hash = False
    for w in words:
        body = w.lstrip("#")
        is_cell = prev_hash or w.startswith("#")
        sign = ""
        if body[:1] in ("+", "-"):
            sign, body = body[0], body[1:]
        if body.isdigit() and int(body) == old and is_cell == cells:
            w = w[: len(w) - len(body)] + str(new)
        prev_hash = w == "#"
        out.append(w)
    return out


def _tr_entry(A, k):
    rot = A["rot"][k]
    rot_n = "identity" if (not rot or rot == (IDENTITY_DEG if A["deg"][k] else IDENTITY)) else list(rot)
    return [list(A["disp"][k]), rot_n, Fraction(1 if A["m2a"][k] else -1), A["deg"][k]]


def abstract_apply(A, t, e, touched):
    """apply one (accepted) edit to the abstract numbers A and to the expected table t; record the touched keys"""
    op = e[0]

    def put(key, val):
        if val is None:
            t.pop(key, None)
        else:
            t[key] = val
        touched.add(key)

    def cell_u(i):
        u = A["u"][i]
        n = A["uni_number"][u] if u is not None and u < len(A["uni_number"]) else 0
        put(("cell", i, "u", None), None if n == 0 else [Fraction(-n if A["nt"][i] else n)])

    def cell_fill(i):
        u = A["fill"][i]
        if u is None:
            put(("cell", i, "fill", None), None)
            return
        vals = [Fraction(A["uni_number"][u])]
        k = A["fill_tr"][i]
        if k is not None and k < len(A["tr_number"]):
            vals += ["(", Fraction(A["tr_number"][k]), ")"]
        elif k is not None:
            vals += list(A.get("fill_tail", {}).get(i, []))
        put(("cell", i, "fill", None), vals)

    def surf_pointer(i):
        k, j = A["surf_tr"][i], A["surf_per"][i]
        put(("surf", i, "pointer"), A["tr_number"][k] if k is not None else (-A["surf_number"][j] if j is not None else None))
        if t.get(("surf", i, "pointer")) is None:
            t[("surf", i, "pointer")] = None

    if op == "cellNumber":
        i, n = e[1], dec(e[2])
        old = A["cell_number"][i]
        A["cell_number"][i] = n
        put(("cell", i, "number"), n)
        for j in range(len(A["cell_number"])):
            g = t[("cell", j, "geometry")]
            g2 = _geom_renumber(g, old, n, True)
            if g2 != g:
                put(("cell", j, "geometry"), g2)
    elif op == "surfNumber":
        i, n = e[1], dec(e[2])
        old = A["surf_number"][i]
        A["surf_number"][i] = n
        put(("surf", i, "number"), n)
        for j in range(len(A["cell_number"])):
            g = t[("cell", j, "geometry")]
            g2 = _geom_renumber(g, old, n, False)
            if g2 != g:
                put(("cell", j, "geometry"), g2)
        for j, k in enumerate(A["surf_per"]):
            if k == i and A["surf_tr"][j] is None:
                surf_pointer(j)
    elif op == "matNumber":
        i, n = e[1], dec(e[2])
        old = A["mat_number"][i]
        A["mat_number"][i] = n
        _rename(t, ("data", f"m{old}"), ("data", f"m{n}"))
        _rename(t, ("data", f"mt{old}"), ("data", f"mt{n}"))
        touched.update({("data", f"m{n}"), ("data", f"mt{n}"), ("data", f"m{old}"), ("data", f"mt{old}")})
        for j, k in enumerate(A["cell_mat"]):
            if k == i:
                put(("cell", j, "material"), n)
    elif op == "trNumber":
        i, n = e[1], int(dec(e[2]))
        old = A["tr_number"][i]
        A["tr_number"][i] = n
        _rename(t, ("data", f"tr{old}"), ("data", f"tr{n}"))
        touched.update({("data", f"tr{old}"), ("data", f"tr{n}")})
        for j in range(len(A["surf_number"])):
            if A["surf_tr"][j] == i:
                surf_pointer(j)
        for j in range(len(A["cell_number"])):
            if A["fill_tr"][j] == i and A["fill"][j] is not None:
                cell_fill(j)
            elif A["fill_tr"][j] == i:
                # a matrix fill with a named transform: the number between the parentheses
                vals = list(t.get(("cell", j, "fill", None)) or [])
                if len(vals) >= 3 and vals[-1] == ")" and vals[-3] == "(":
                    vals[-2] = Fraction(n)
                    put(("cell", j, "fill", None), vals)
    elif op == "uniNumber":
        i, n = e[1], dec(e[2])
        A["uni_number"][i] = n
        for j in range(len(A["cell_number"])):
            if A["u"][j] == i:
                cell_u(j)
            if A["fill"][j] == i:
                cell_fill(j)
    elif op == "material":
        A["cell_mat"][e[1]] = e[2]
        put(("cell", e[1], "material"), 0 if e[2] is None else A["mat_number"][e[2]])
    elif op == "atomDensity":
        put(("cell", e[1], "density"), _fr(e[2]))
        t[("cell", e[1], "density")] = _fr(e[2])
    elif op == "massDensity":
        put(("cell", e[1], "density"), -_fr(e[2]))
        t[("cell", e[1], "density")] = -_fr(e[2])
    elif op == "delDensity":
        put(("cell", e[1], "density"), None)
        t[("cell", e[1], "density")] = None
    elif op == "importance":
        put(("cell", e[1], "imp", e[2]), [_fr(e[3])])
        if e[2] not in A["imp_parts"][e[1]]:
            A["imp_parts"][e[1]].append(e[2])
    elif op == "importanceAll":
        for a in A["mode"]:
            put(("cell", e[1], "imp", a), [_fr(e[2])])
    elif op == "volume":
        put(("cell", e[1], "vol", None), None if e[2] is None else [_fr(e[2])])
    elif op == "delVolume":
        put(("cell", e[1], "vol", None), None)
    elif op == "lattice":
        put(("cell", e[1], "lat", None), None if e[2] is None else [_fr(e[2])])
    elif op == "delLattice":
        put(("cell", e[1], "lat", None), None)
    elif op == "universe":
        A["u"][e[1]] = e[2]
        cell_u(e[1])
    elif op == "claim":
        for i in e[2]:
            A["u"][i] = e[1]
            cell_u(i)
    elif op == "notTruncated":
        A["nt"][e[1]] = dec(e[2])
        cell_u(e[1])
    elif op == "fillUniverse":
        A["fill"][e[1]] = e[2]
        cell_fill(e[1])
    elif op == "fillTransform":
        A["fill_tr"][e[1]] = e[2]
        if A["fill"][e[1]] is not None:
            cell_fill(e[1])
    elif op == "surfConstants":
        put(("surf", e[1], "constants"), [_fr(x) for x in e[2]])
    elif op in ("location", "radius", "coordinates"):
        c = list(t[("surf", e[1], "constants")])
        if op == "location":
            c[0] = _fr(e[2])
        elif op == "radius":
            c[0 if A["surf_kind"][e[1]] == "cylOnAxis" else 2] = _fr(e[2])
        else:
            c[0], c[1] = _fr(e[2]), _fr(e[3])
        put(("surf", e[1], "constants"), c)
    elif op in ("reflecting", "white"):
        A["refl" if op == "reflecting" else "white"][e[1]] = dec(e[2])
        put(("surf", e[1], "modifier"), "*" if A["refl"][e[1]] else ("+" if A["white"][e[1]] else ""))
    elif op == "surfTransform":
        A["surf_tr"][e[1]] = e[2]
        surf_pointer(e[1])
    elif op == "periodic":
        A["surf_per"][e[1]] = e[2]
        surf_pointer(e[1])
    elif op == "fraction":
        key = ("data", f"m{A['mat_number'][e[1]]}")
        ent = list(t[key])
        old = ent[2 * e[2] + 1]
        ent[2 * e[2] + 1] = -_fr(e[3]) if isinstance(old, Fraction) and old < 0 else _fr(e[3])
        put(key, ent)
    elif op == "laws":
        put(("data", f"mt{A['mat_number'][e[1]]}"), [x.lower() for x in e[2]])
    elif op == "addThermal":
        put(("data", f"mt{A['mat_number'][e[1]]}"), [e[2].lower()])
        A["has_mt"][e[1]] = True
    elif op in ("displacement", "rotation", "inDegrees", "mainToAux"):
        k = e[1]
        if op == "displacement":
            A["disp"][k] = [Fraction(*x) for x in e[2]]
        elif op == "rotation":
            A["rot"][k] = [Fraction(*x) for x in e[2]]
        elif op == "inDegrees":
            A["deg"][k] = dec(e[2])
        else:
            A["m2a"][k] = dec(e[2])
        put(("data", f"tr{A['tr_number'][k]}"), _tr_entry(A, k))
    elif op in ("modeAdd", "modeRemove", "modeSet"):
        if op == "modeAdd":
            A["mode"] = sorted(set(A["mode"]) | {e[1].lower()})
        elif op == "modeRemove":
            A["mode"] = sorted(set(A["mode"]) - {e[1].lower()})
        else:
            A["mode"] = sorted({x.lower() for x in e[1]})
        put(("data", "mode"), list(A["mode"]))
    elif op == "title":
        put(("title",), e[1].rstrip())
    else:
        raise ValueError(op)


QUANTITY_OF_OP = {
    "cellNumber": "Cell.number", "surfNumber": "Surface.number", "matNumber": "Material.number", "trNumber": "Transform.number",
    "uniNumber": "Universe.number", "material": "Cell.material", "atomDensity": "Cell.atom_density", "massDensity": "Cell.mass_density",
    "delDensity": "Cell.density(del)", "importance": "Importance.particle", "importanceAll": "Importance.all", "volume": "Cell.volume",
    "delVolume": "Cell.volume(del)", "lattice": "Cell.lattice", "delLattice": "Cell.lattice(del)", "universe": "Cell.universe", "claim": "Universe.claim",
    "notTruncated": "Cell.not_truncated", "fillUniverse": "Fill.universe", "fillTransform": "Fill.transform",
    "surfConstants": "Surface.surface_constants", "location": "AxisPlane.location", "radius": "Cylinder.radius",
    "coordinates": "CylinderParAxis.coordinates", "reflecting": "Surface.is_reflecting", "white": "Surface.is_white_boundary",
    "surfTransform": "Surface.transform", "periodic": "Surface.periodic_surface", "fraction": "MaterialComponent.fraction",
    "laws": "ThermalScatteringLaw.thermal_scattering_laws", "addThermal": "Material.add_thermal_scattering",
    "displacement": "Transform.displacement_vector", "rotation": "Transform.rotation_matrix", "inDegrees": "Transform.is_in_degrees",
    "mainToAux": "Transform.is_main_to_aux", "modeAdd": "Mode.add", "modeRemove": "Mode.remove", "modeSet": "Mode.set", "title": "MCNP_Problem.title",
}
