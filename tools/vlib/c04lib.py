"""C04 helpers: reference sites of a Spec denotation, renumbering histories, the run on the real code, the oracle.

Everything that says what a file *denotes* comes from the Lean Spec (vlib.spec / drv_spec); this module only
walks the returned JSON.  Object identity = (kind, index of the card in its block); a universe (which has no card)
is identified by the number it has in the original file.
"""

import re
import signal
import warnings

from . import spec
from .wholefile import Scratch, read_text, write_text

KINDS = ["cell", "surf", "mat", "tr", "univ"]
RE_M = re.compile(r"^m(\d+)$")
RE_MT = re.compile(r"^mt(\d+)$")
RE_TR = re.compile(r"^\*?tr(\d+)$")


# operations that are not number assignments and keep every reference (C04: "every reference resolves to the same
# object as before" also when such operations stand between the renumberings and the write):
#   ["relink", 0, 0]        problem.add_cell_children_to_problem()  (links every surface/material/transform again and
#                           sorts problem.surfaces / materials / transforms / data_inputs by their current numbers)
#   ["reappend:K", 0, 0]    the last member of problem.<K> is removed and appended again (K = cell | surf | tr)
#   ["geom+", c, s] / ["geom-", c, s]   cell c: geometry = geometry & +surface s / & -surface s   (s = card index)
#   ["geom#", c, d]         cell c: geometry = geometry & ~cell d
#   ["write", 0, 0]         problem.write_to_file(<scratch file>) in the middle of the history.  Writing is an observation:
#                           it changes no number and no reference, and EVERY file written on the way is judged like the
#                           last one (the history up to that point is a history of its own: `views`).
# A geometry edit ADDS one reference (the new leaf, last in writing order) and removes none.
REAPPEND = ("reappend:cell", "reappend:surf", "reappend:tr")
GEOM_OPS = ("geom+", "geom-", "geom#")
WRITE = "write"
NEUTRAL = ("relink",) + REAPPEND + GEOM_OPS + (WRITE,)


def is_number_op(op):
    return op[0] in KINDS


def neutral_part(ops):
    return [op for op in ops if not is_number_op(op)]


def added_leaves(ops, outs=None):
    """{cell index: [(is_complement_cell, target index), ...]} added by the accepted geometry edits, in order"""
    out = {}
    for i, op in enumerate(ops):
        if op[0] in GEOM_OPS and (outs is None or outs[i] == "ok"):
            out.setdefault(op[1], []).append((op[0] == "geom#", op[2]))
    return out


def expected_order(nf0, ops, outs, renumber=True):
    """card order of every block after the history: add_cell_children_to_problem sorts the surfaces, materials and
    transforms by the numbers they have at that moment; nothing else moves a card.  -> {kind: [original index, ...]}"""
    nums = own_numbers(nf0)
    cur = {k: list(nums[k]) for k in ("cell", "surf", "mat", "tr")}
    order = {k: list(range(len(v))) for k, v in cur.items()}
    for op, out in zip(ops, outs):
        if out != "ok":
            continue
        if op[0] in cur and renumber:
            cur[op[0]][op[1]] = op[2]
        elif op[0] == "relink":
            for k in ("surf", "mat", "tr"):
                order[k] = sorted(order[k], key=lambda i: cur[k][i])
    return order


def unpermute(nf, order):
    """the numbers-only file with the cards of every block put back at the index of the original object"""
    def back(lst, k):
        if sorted(order[k]) != list(range(len(lst))):
            raise NotInScope(f"{k} cards do not match the objects")
        out = [None] * len(lst)
        for pos, i in enumerate(order[k]):
            out[i] = lst[pos]
        return out

    return dict(nf, cells=back(nf["cells"], "cell"), surfs=back(nf["surfs"], "surf"), mats=back(nf["mats"], "mat"), trs=back(nf["trs"], "tr"))


def apply_neutral(problem, objs, op):
    kind, a, b = op
    if kind == "relink":
        problem.add_cell_children_to_problem()
    elif kind in REAPPEND:
        k = kind.split(":")[1]
        coll = {"cell": problem.cells, "surf": problem.surfaces, "tr": problem.transforms}[k]
        members = list(coll)
        if not members:
            raise IndexError("empty collection")
        coll.remove(members[-1])
        coll.append(members[-1])
    elif kind in GEOM_OPS:
        cell = objs["cell"][a]
        if kind == "geom#":
            leaf = ~objs["cell"][b]
        else:
            leaf = +objs["surf"][b] if kind == "geom+" else -objs["surf"][b]
        cell.geometry = cell.geometry & leaf
    else:
        raise KeyError(kind)


class NotInScope(Exception):
    """the text is outside what the C04 harness can address (LIKE BUT, unreadable numbers ...)"""


def _int(v):
    if isinstance(v, dict) and "n" in v and v["n"][1] == 1:
        return v["n"][0]
    raise NotInScope(f"not an integer: {v}")


def geom_leaves(words):
    """[(is_complement_cell, number, word_index)] of a cell geometry as Spec tokenised it"""
    out = []
    i = 0
    while i < len(words):
        w = words[i]
        if w == "#":
            if i + 1 < len(words) and words[i + 1] != "(":
                try:
                    out.append((True, abs(int(words[i + 1])), i + 1))
                except ValueError:
                    raise NotInScope(f"complement of {words[i + 1]!r}")
                i += 2
                continue
        elif w not in ("(", ")", ":"):
            try:
                out.append((False, abs(int(w)), i))
            except ValueError:
                raise NotInScope(f"geometry word {w!r}")
        i += 1
    return out


def parse_fill(vals):
    """-> (universes, transform number or None, index positions) of a cell-block FILL entry"""
    vals = list(vals)
    i = 0
    unis, upos = [], []
    if vals and isinstance(vals[0], dict) and "w" in vals[0] and ":" in vals[0]["w"]:
        i = 3
    while i < len(vals) and not (isinstance(vals[i], dict) and vals[i].get("w") == "("):
        unis.append(_int(vals[i]))
        upos.append(i)
        i += 1
    tr, trpos = None, None
    if i < len(vals):
        j = i + 1
        inner = []
        while j < len(vals) and not (isinstance(vals[j], dict) and vals[j].get("w") == ")"):
            inner.append(j)
            j += 1
        if len(inner) == 1:
            tr, trpos = _int(vals[inner[0]]), inner[0]
    return unis, tr, upos, trpos


def extract(den):
    """Spec denotation -> the numbers of the file in the shape of Model/Renumber.lean:WFile (JSON), plus the MT cards."""
    cells = []
    for c in den["cells"]:
        if c["like"] or c["number"] is None or c["material"] is None:
            raise NotInScope("LIKE BUT / cell without number")
        pr = spec.norm_params(c["params"])
        u = None
        if ("u", None) in pr:
            u = abs(_int(pr[("u", None)][0]))
        fill, ftr = [], None
        for key in (("fill", None), ("*fill", None)):
            if key in pr:
                fill, ftr, _, _ = parse_fill(pr[key])
        cells.append({"number": c["number"], "mat": c["material"],
                      "geom": [[a, b] for a, b, _ in geom_leaves(c["geometry"])], "u": u, "fill": fill, "fillTr": ftr})
    surfs = []
    for s in den["surfaces"]:
        if s["number"] is None:
            raise NotInScope("surface without number")
        p = s["pointer"]
        surfs.append({"number": s["number"], "tr": p if p is not None and p > 0 else None, "per": -p if p is not None and p < 0 else None})
    mats, mts, trs = [], [], []
    ucard = fillcard = None
    for k, d in enumerate(den["data"]):
        name = d["name"].lower()
        if RE_MT.match(name):
            mts.append({"number": int(RE_MT.match(name).group(1)), "laws": tuple(v.get("w", str(v)) if isinstance(v, dict) else str(v) for v in d["entries"]), "data_index": k})
        elif RE_M.match(name):
            mats.append({"number": int(RE_M.match(name).group(1)), "mt": None, "data_index": k})
        elif RE_TR.match(name):
            trs.append(int(RE_TR.match(name).group(1)))
        elif name == "u":
            ucard = [0 if v == "J" else abs(_int(v)) for v in d["entries"]]
        elif name == "fill":
            fillcard = [None if v == "J" else _int(v) for v in d["entries"]]
    mtnums = [m["number"] for m in mts]
    for m in mats:
        if m["number"] in mtnums:
            m["mt"] = m["number"]
    n = len(cells)
    if ucard is not None:
        ucard = (ucard + [0] * n)[:n]
    if fillcard is not None:
        fillcard = (fillcard + [None] * n)[:n]
    return {"cells": cells, "surfs": surfs, "mats": [{"number": m["number"], "mt": m["mt"]} for m in mats], "trs": trs,
            "uCard": ucard, "fillCard": fillcard}, mts


def eff_u(nf, i):
    c = nf["cells"][i]
    if c["u"] is not None:
        return c["u"]
    if nf["uCard"] is not None:
        return nf["uCard"][i]
    return 0


def eff_fill(nf, i):
    c = nf["cells"][i]
    if c["fill"]:
        return list(c["fill"])
    if nf["fillCard"] is not None and nf["fillCard"][i] is not None:
        return [nf["fillCard"][i]]
    return []


def own_numbers(nf):
    return {"cell": [c["number"] for c in nf["cells"]], "surf": [s["number"] for s in nf["surfs"]],
            "mat": [m["number"] for m in nf["mats"]], "tr": list(nf["trs"]),
            "univ": sorted({eff_u(nf, i) for i in range(len(nf["cells"]))} - {0})}


def sites(nf, mts):
    """every modelled reference of the file: {site key: (site name, target kind, written number)}"""
    out = {}
    for i, c in enumerate(nf["cells"]):
        for j, (isc, n) in enumerate(c["geom"]):
            out[("geom", i, j)] = ("geometry-complement" if isc else "geometry-surface", "cell" if isc else "surf", n)
        if c["mat"] != 0:
            out[("mat", i, 0)] = ("cell-material", "mat", c["mat"])
        u = eff_u(nf, i)
        if u != 0:
            out[("u", i, 0)] = ("u-cell" if c["u"] is not None else "u-data", "univ", u)
        for j, n in enumerate(eff_fill(nf, i)):
            out[("fill", i, j)] = ("fill-cell" if c["fill"] else "fill-data", "univ", n)
        if c["fillTr"] is not None:
            out[("filltr", i, 0)] = ("fill-transform", "tr", c["fillTr"])
    for i, s in enumerate(nf["surfs"]):
        if s["tr"] is not None:
            out[("surftr", i, 0)] = ("surface-transform", "tr", s["tr"])
        if s["per"] is not None:
            out[("surfper", i, 0)] = ("surface-periodic", "surf", s["per"])
    return out


def resolve(nf, kind, n):
    """Spec look-up of a written number among the written cards: index of the one card with that number,
    None if there is none, 'ambiguous' if there are several. A universe resolves to the set of cells in it."""
    if kind == "univ":
        return tuple(i for i in range(len(nf["cells"])) if eff_u(nf, i) == n)
    nums = own_numbers(nf)[kind]
    hits = [i for i, x in enumerate(nums) if x == n]
    if len(hits) == 1:
        return hits[0]
    return None if not hits else "ambiguous"


def graph(nf, mts):
    g = {k: (name, kind, resolve(nf, kind, n)) for k, (name, kind, n) in sites(nf, mts).items()}
    # MT cards may be moved behind their material: identified by their laws, not by position
    mt = sorted((m["laws"], str(resolve(nf, "mat", m["number"]))) for m in mts)
    return g, mt


# --------------------------------------------------------------------------- run on the real code
class _Hang(Exception):
    pass


def _alarm(*a):
    raise _Hang()


def _objects(problem):
    return {"cell": list(problem.cells), "surf": list(problem.surfaces), "mat": list(problem.materials),
            "tr": list(problem.transforms), "univ": {u.number: u for u in problem.universes}}


def _order(problem, objs):
    """per kind: the original index of every member of the problem's collection, in collection order (-1: a stranger)"""
    out = {}
    for k, coll in (("cell", problem.cells), ("surf", problem.surfaces), ("mat", problem.materials), ("tr", problem.transforms)):
        pos = {id(x): i for i, x in enumerate(objs[k])}
        out[k] = [pos.get(id(x), -1) for x in coll]
    return out


def _numbers(problem, objs):
    return {
        "cell": [c.number for c in objs["cell"]], "surf": [s.number for s in objs["surf"]],
        "mat": [m.number for m in objs["mat"]], "tr": [t.number for t in objs["tr"]],
        "univ": sorted([k, u.number] for k, u in objs["univ"].items()),
        # the collections must still list the same objects (in the order the history implies)
        "order": _order(problem, objs),
    }


def views(case, res):
    """every file the history writes is judged: -> [(case, res, tag)] with one entry per intermediate write (the history
    up to that write with the file written there; its "before" is what the run without renumberings wrote at the same
    point) and the whole history with the last file as the final entry.  tag = None (final) or the index of the write."""
    out = []
    bmids = res.get("base_mids", [])
    for j, mid in enumerate(res.get("mids", [])):
        if j >= len(bmids):
            break
        b = bmids[j]
        i = mid["at"]
        out.append((dict(case, ops=case["ops"][:i]),
                    dict(res, outs=res["outs"][:i], numbers=mid["numbers"], written=mid["text"], write=mid["write"],
                         baseline=b["text"], base_outs=res["base_outs"][:b["nneutral"]], base_order=b["order"], mids=[], base_mids=[]),
                    j))
    out.append((case, res, None))
    return out


def run_impl(case):
    """case = {"text", "limit", "ops": [[kind, object, n], ...]} -> observations of the real code."""
    res = {"read": "ok", "outs": [], "numbers": None, "baseline": None, "written": None, "write": "ok"}
    old = signal.signal(signal.SIGALRM, _alarm)
    signal.setitimer(signal.ITIMER_REAL, 120.0)  # generous: the machine may be heavily loaded
    try:
        with Scratch() as sc, warnings.catch_warnings():
            warnings.simplefilter("ignore")
            try:
                base = read_text(case["text"], case["limit"], sc, "base.imcnp")
            except _Hang:
                raise
            except Exception as e:  # noqa: BLE001
                res["read"] = type(e).__name__
                return res
            neutral = neutral_part(case["ops"])
            res["base_outs"] = []
            if neutral:
                bobjs = _objects(base)
                res["base_mids"] = []
                for op in neutral:
                    try:
                        if op[0] == WRITE:
                            # the "before" of the history up to this write: the other operations so far, written here
                            text = write_text(base, sc, f"base_mid{len(res['base_mids'])}.imcnp")
                            res["base_mids"].append({"nneutral": len(res["base_outs"]), "order": _order(base, bobjs), "text": text})
                        else:
                            apply_neutral(base, bobjs, op)
                        res["base_outs"].append("ok")
                    except _Hang:
                        raise
                    except (KeyError, IndexError):
                        res["base_outs"].append("no-such-object")
                    except Exception as e:  # noqa: BLE001
                        res["base_outs"].append(type(e).__name__)
                res["base_order"] = _order(base, bobjs)
            try:
                res["baseline"] = write_text(base, sc, "base_out.imcnp")
            except _Hang:
                raise
            except Exception as e:  # noqa: BLE001
                res["read"] = "unedited-write:" + type(e).__name__
                res["baseline_error"] = type(e).__name__ + ": " + " ".join(str(e).split())[:200]
                return res
            problem = read_text(case["text"], case["limit"], sc)
            objs = _objects(problem)
            res["numbers0"] = {"cell": [c.number for c in objs["cell"]], "surf": [s.number for s in objs["surf"]],
                               "mat": [m.number for m in objs["mat"]], "tr": [t.number for t in objs["tr"]],
                               "univ": sorted(k for k in objs["univ"] if k != 0)}
            res["mids"] = []
            for kind, o, n in case["ops"]:
                if kind == WRITE:
                    mid = {"at": len(res["outs"]), "numbers": _numbers(problem, objs), "text": None, "write": "ok"}
                    try:
                        mid["text"] = write_text(problem, sc, f"mid{len(res['mids'])}.imcnp")
                        res["outs"].append("ok")
                    except _Hang:
                        raise
                    except Exception as e:  # noqa: BLE001
                        mid["write"] = type(e).__name__ + ": " + str(e)[:200]
                        res["outs"].append(type(e).__name__)
                    res["mids"].append(mid)
                    continue
                if kind not in KINDS:
                    try:
                        apply_neutral(problem, objs, [kind, o, n])
                        res["outs"].append("ok")
                    except _Hang:
                        raise
                    except (KeyError, IndexError):
                        res["outs"].append("no-such-object")
                    except Exception as e:  # noqa: BLE001
                        res["outs"].append(type(e).__name__)
                    continue
                try:
                    obj = objs[kind][o]
                except (KeyError, IndexError):
                    res["outs"].append("no-such-object")
                    continue
                try:
                    obj.number = n
                    res["outs"].append("ok")
                except _Hang:
                    raise
                except Exception as e:  # noqa: BLE001
                    res["outs"].append(type(e).__name__)
            res["numbers"] = _numbers(problem, objs)
            try:
                res["written"] = write_text(problem, sc)
            except _Hang:
                raise
            except Exception as e:  # noqa: BLE001
                res["write"] = type(e).__name__ + ": " + str(e)[:200]
    except _Hang:
        res["read"] = "hang"
    finally:
        signal.setitimer(signal.ITIMER_REAL, 0)
        signal.signal(signal.SIGALRM, old)
    return res


# --------------------------------------------------------------------------- oracle
def expected_numbers(nf0, ops, outs):
    """replay of the assignments the setters accepted on the original numbers (object identity = index)"""
    nums = own_numbers(nf0)
    cur = {k: list(v) for k, v in nums.items() if k != "univ"}
    cur["univ"] = {u: u for u in nums["univ"]}
    cur["univ"][0] = 0
    for (kind, o, n), out in zip(ops, outs):
        if out == "ok" and kind in KINDS:
            cur[kind][o] = n
    return cur


def _mask(den, nf, mts, order=None, sorted_data=False):
    """copy of the denotation with every own number and every modelled reference replaced by the identity of the
    object it resolves to: what is left is everything the renumbering must not change.
    order = {kind: original index of the card at every position} (cards moved by add_cell_children_to_problem are put
    back); sorted_data: that call sorts the data block by (mnemonic, number), so the position of a data card among the
    others depends on the numbers and is not compared."""
    import copy
    import json

    d = copy.deepcopy(den)
    if order is None:
        order = {"surf": list(range(len(d["surfaces"]))), "mat": None, "tr": None}

    def ref(kind, n):
        return {"w": f"{kind}@{resolve(nf, kind, n)}"} if kind != "univ" else {"w": "univ"}

    for i, c in enumerate(d["cells"]):
        c["number"] = i
        c["material"] = 0 if c["material"] == 0 else 1
        words = list(c["geometry"])
        for isc, n, wi in geom_leaves(words):
            sign = "-" if words[wi].startswith("-") else ""
            words[wi] = sign + ("c" if isc else "s") + "@"
        c["geometry"] = words
        params = []
        for key, vals in c["params"]:
            base, _ = spec.split_key(key)
            vals = list(vals)
            if base == "u":
                vals = [{"w": "univ-" if _int(vals[0]) < 0 else "univ"}] + vals[1:]
            elif base in ("fill", "*fill"):
                _, _, upos, trpos = parse_fill(vals)
                for p in upos:
                    vals[p] = {"w": "univ"}
                if trpos is not None:
                    vals[trpos] = {"w": "tr"}
            params.append([key, vals])
        c["params"] = params
    for i, s in enumerate(d["surfaces"]):
        s["number"] = order["surf"][i]
        if s["pointer"] is not None:
            s["pointer"] = 1 if s["pointer"] > 0 else -1
    d["surfaces"] = sorted(d["surfaces"], key=lambda s: s["number"])
    km = kt = 0
    for x in d["data"]:
        name = x["name"].lower()
        if RE_MT.match(name):
            x["name"] = "mt@"
        elif RE_M.match(name):
            x["name"] = f"m@{order['mat'][km] if order.get('mat') else km}"
            km += 1
        elif RE_TR.match(name):
            x["name"] = ("*" if name.startswith("*") else "") + f"tr@{order['tr'][kt] if order.get('tr') else kt}"
            kt += 1
        elif name == "u":
            x["entries"] = ["J" if (v == "J" or _int(v) == 0) else {"w": "univ-" if _int(v) < 0 else "univ"} for v in x["entries"]]
        elif name == "fill":
            x["entries"] = ["J" if v == "J" else {"w": "univ"} for v in x["entries"]]
    if sorted_data:
        d["data"] = sorted(d["data"], key=lambda x: json.dumps([x["name"], x["entries"]], sort_keys=True, default=str))
    return d


LINK_ERRORS = ("MalformedInputError", "BrokenObjectLinkError")


def judge_unwritable(case, res):
    """MontePy read the problem (all links resolved without complaint) but cannot write it because a link is broken:
    a reference that cannot be written at all.  Other exceptions of an unedited write belong to C01/C12."""
    err = res.get("baseline_error")
    if err and err.split(":")[0] in LINK_ERRORS:
        return ({"mechanism": "renumber", "class": "reference-unwritable", "site": "unedited-write:" + err.split(":")[0], "kind": "none"},
                f"the problem is read without complaint but cannot be written, renumbered or not: {err}")
    return None


def out_of_scope(case, res, den0, denb):
    """Reason why the case cannot be judged under C04, or None.  C04 starts from a problem MontePy has read as MCNP
    reads it and whose unedited write denotes the same cards; anything else belongs to C01/C11/C12."""
    try:
        nf0, mts0 = extract(den0)
        nfb, mtsb = extract(denb)
    except NotInScope as e:
        return f"not-addressable"
    if own_numbers(nf0) != res["numbers0"]:
        return "montepy-and-spec-read-different-objects"
    neutral = neutral_part(case["ops"])
    if any(o == "no-such-object" for o in res["outs"]) or any(o == "no-such-object" for o in res.get("base_outs", [])):
        return "history-addresses-a-missing-object"
    if neutral:
        # the reference-preserving operations of the history alone (no renumbering) are the "before" of the case
        bad = [o for o in res["base_outs"] if o != "ok"]
        if bad:
            return "operation-fails-without-renumbering:" + bad[0]
        orderb = expected_order(nf0, neutral, res["base_outs"], renumber=False)
        if res["base_order"] != orderb:
            return "operation-without-renumbering-moves-the-cards"
        try:
            nfb = unpermute(nfb, orderb)
        except NotInScope:
            return "unedited-write-changes-the-cards"
    if own_numbers(nfb) != own_numbers(nf0) or len(denb["data"]) != len(den0["data"]):
        return "unedited-write-changes-the-cards"
    return None


def judge(case, res, den0, denb, den1):
    """First violation of C04 on the observations of the real code, or None.
    -> (signature, what) ; signature = {mechanism, class, site, kind}"""
    ops = case["ops"]
    kinds = sorted({k for (k, _, _), o in zip(ops, res["outs"]) if o == "ok" and k in KINDS}) or ["none"]
    kind_sig = "+".join(kinds)
    neutral = neutral_part(ops)

    def sig(cls, site, kind=None):
        return {"mechanism": "renumber", "class": cls, "site": site, "kind": kind or kind_sig}

    if res["write"] != "ok":
        return sig("write-raises", res["write"].split(":")[0], "any"), f"write_to_file raised {res['write']} after the renumbering (the unedited problem is written)"
    try:
        nf0, mts0 = extract(den0)
        nfb, mtsb = extract(denb)
    except NotInScope:
        return None
    # a reference-preserving operation that works on the problem as read works after a renumbering as well
    for op, out in zip(ops, res["outs"]):
        if not is_number_op(op) and out != "ok":
            return sig("operation-raises", op[0].split(":")[0] + ":" + out), f"{op} raised {out} after the renumbering; on the problem as read it does not"
    try:
        nf1, mts1 = extract(den1)
    except NotInScope as e:
        return sig("written-file-unreadable", "file", "any"), f"the written file is outside the grammar: {e}"
    exp = expected_numbers(nf0, ops, res["outs"])
    api = res["numbers"]
    order1 = expected_order(nf0, ops, res["outs"])
    orderb = expected_order(nf0, neutral, res.get("base_outs", []), renumber=False)
    if api["order"] != order1:
        return sig("collection-reordered", "own-number", "any"), f"a collection lists other objects / another order after the history: {api['order']}, expected {order1}"
    try:
        nfb = unpermute(nfb, orderb)
    except NotInScope:
        return None
    try:
        nf1 = unpermute(nf1, order1)
    except NotInScope as e:
        return sig("own-number-not-written", "own-number", "any"), f"the written file has other cards than the problem has objects: {e}"
    # (a) the API holds the numbers that were assigned; the collections list the same objects
    for k in ("cell", "surf", "mat", "tr"):
        if api[k] != exp[k]:
            return sig("api-number-differs", "own-number", k), f"{k} numbers per API {api[k]} != assigned {exp[k]}"
    if dict(map(tuple, api["univ"])) != {k: v for k, v in exp["univ"].items() if k in dict(map(tuple, api["univ"]))}:
        return sig("api-number-differs", "own-number", "univ"), f"universe numbers per API {api['univ']} != assigned {exp['univ']}"
    # (b) own numbers in the written file
    own1 = own_numbers(nf1)
    for k in ("cell", "surf", "mat", "tr"):
        if own1[k] != exp[k]:
            return sig("own-number-not-written", "own-number", k), f"written {k} numbers {own1[k]} != assigned {exp[k]}"
    # (c) every reference resolves to the same object as before
    g0, mt0 = graph(nf0, mts0)
    gb, mtb = graph(nfb, mtsb)
    g1, mt1 = graph(nf1, mts1)
    s1 = sites(nf1, mts1)
    sb = sites(nfb, mtsb)
    s0 = sites(nf0, mts0)
    # the references a geometry edit of the history adds (one leaf behind the others of that cell)
    g0 = dict(g0)
    for ci, leaves in added_leaves(ops, res["outs"]).items():
        n0 = len(nf0["cells"][ci]["geom"])
        for j, (isc, tgt) in enumerate(leaves):
            g0[("geom", ci, n0 + j)] = ("geometry-complement" if isc else "geometry-surface", "cell" if isc else "surf", tgt)
    for key in sorted(g0):
        name, kind, tgt = g0[key]
        if gb.get(key, (None, None, None))[2] != tgt:
            continue  # already different on an unedited write: other properties' business
        if key not in g1:
            return sig("reference-lost", name, kind), f"reference {key} ({name}) is not in the written file"
        name1, _, tgt1 = g1[key]
        if kind == "univ":
            want = exp["univ"].get(s0[key][2])
        else:
            want = exp[kind][tgt] if isinstance(tgt, int) else None
        got = s1[key][2]
        if tgt1 != tgt or (want is not None and got != want):
            cls = "stale-reference" if got == sb[key][2] and got != want else "reference-to-wrong-object"
            return sig(cls, name1, kind), f"{name1} reference {key}: written {got}, its target now has number {want} (resolves to {tgt1}, was {tgt})"
    for key in sorted(g1):
        if key not in g0 and key not in gb:
            return sig("reference-invented", g1[key][0], g1[key][1]), f"reference {key} appears only after the renumbering"
    if mt1 != mt0 and mtb == mt0:
        return sig("stale-reference" if [m["number"] for m in mts1] == [m["number"] for m in mtsb] else "reference-to-wrong-object", "mt-card", "mat"), f"MT cards resolve to {mt1}, before {mt0}"
    # (d) nothing else changed (relative to the unedited write of the same problem)
    try:
        relinked = any(op[0] == "relink" for op in ops)
        # add_cell_children_to_problem sorts the cards by their numbers: which card a comment stands in front of then
        # depends on the numbers (layout, not a reference): comments are compared only when no card was moved
        diff = spec.diff_problems(_mask(denb, nfb, mtsb, orderb, relinked), _mask(den1, nf1, mts1, order1, relinked), compare_comments=not relinked)
    except NotInScope:
        diff = []
    if diff:
        return sig("unrelated-change", diff[0][0], "any"), f"besides numbers and references the written file differs from the unedited write: {diff[:3]}"
    return None


def project(nf):
    """the numbers of a file at the abstraction the model is compared at (placement of U/FILL is C09's business)"""
    return {
        "cells": [{"number": c["number"], "mat": c["mat"], "geom": c["geom"], "u": eff_u(nf, i), "fill": eff_fill(nf, i), "fillTr": c["fillTr"]}
                  for i, c in enumerate(nf["cells"])],
        "surfs": nf["surfs"], "mats": nf["mats"], "trs": nf["trs"],
    }


# --------------------------------------------------------------------------- histories
def gen_history(rng, nf0, pattern=None):
    """a renumbering history over the objects of the file; mostly accepted assignments"""
    nums = own_numbers(nf0)
    cur = {k: list(v) for k, v in nums.items()}
    handles = {k: list(range(len(v))) for k, v in nums.items() if k != "univ"}
    handles["univ"] = list(nums["univ"])
    kinds = [k for k in KINDS if handles[k]]
    if not kinds:
        return [], "empty"
    # numbers carried by objects of two or more kinds (independent number spaces that happen to coincide)
    shared = sorted(n for n in set().union(*[set(cur[k]) for k in kinds]) if sum(1 for k in kinds if n in cur[k]) >= 2)
    if pattern is None:
        pattern = rng.choice(["single", "single", "shift", "shift-all", "permute", "swap", "restore", "random", "mixed", "collide",
                              "rotate", "coincide", "coincide"] + (["coincide"] * 4 if shared else []))
    ops = []

    def used(k):
        return set(cur[k])

    def fresh(k, lo=1, hi=999):
        while True:
            n = rng.randint(lo, hi)
            if n not in used(k):
                return n

    def assign(k, pos, n):
        ops.append([k, handles[k][pos], n])
        cur[k][pos] = n  # optimistic: the oracle replays what the setters really accepted

    def swap(k, a, b):
        na, nb = cur[k][a], cur[k][b]
        tmp = fresh(k, 1000, 9999)
        assign(k, a, tmp)
        assign(k, b, na)
        assign(k, a, nb)

    def permute(k):
        idx = list(range(len(cur[k])))
        target = [cur[k][i] for i in idx]
        rng.shuffle(target)
        tmp0 = 10000
        for i in idx:  # everything to temporaries, then to the permuted numbers
            assign(k, i, tmp0 + i)
        for i in idx:
            assign(k, i, target[i])

    def rotate(k):
        # obj0 -> tmp, obj1 -> old number of obj0, ..., obj0 -> old number of the last: every number moves on by one
        n = len(cur[k])
        if n < 2:
            assign(k, 0, fresh(k))
            return
        old = list(cur[k])
        order = list(range(n))
        rng.shuffle(order)
        assign(k, order[0], fresh(k, 1000, 9999))
        for a, b in zip(order[1:], order[:-1]):
            assign(k, a, old[b])
        assign(k, order[0], old[order[-1]])

    k = rng.choice(kinds)
    if pattern == "coincide":
        # renumber an object whose number is also carried by an object of ANOTHER kind, while that other kind keeps it:
        # single assignment, swap through a temporary, or rotation inside the kind
        if shared:
            n = rng.choice(shared)
            k = rng.choice([kk for kk in kinds if n in cur[kk]])
            pos = cur[k].index(n)
            r = rng.random()
            if r < 0.35 or len(cur[k]) < 2:
                assign(k, pos, fresh(k, 1, 12) if rng.random() < 0.5 else fresh(k))
            elif r < 0.75:
                swap(k, pos, rng.choice([x for x in range(len(cur[k])) if x != pos]))
            else:
                rotate(k)
            if rng.random() < 0.4:
                # ... and afterwards the other kind moves onto / away from the number as well
                others = [kk for kk in kinds if kk != k and n in cur[kk]]
                if others:
                    k2 = rng.choice(others)
                    assign(k2, cur[k2].index(n), fresh(k2, 1, 12))
        else:
            # make two kinds coincide first, then swap inside one of them
            n = rng.choice(cur[k])
            for kk in kinds:
                if kk != k and n not in used(kk):
                    assign(kk, rng.randrange(len(cur[kk])), n)
                    break
            if len(cur[k]) >= 2:
                pos = cur[k].index(n)
                swap(k, pos, rng.choice([x for x in range(len(cur[k])) if x != pos]))
            else:
                assign(k, 0, fresh(k))
    elif pattern == "rotate":
        rotate(k)
    elif pattern == "single":
        assign(k, rng.randrange(len(cur[k])), fresh(k))
    elif pattern == "shift":
        d = rng.choice([100, 1000, 7])
        order = sorted(range(len(cur[k])), key=lambda i: -cur[k][i]) if rng.random() < 0.7 else list(range(len(cur[k])))
        for i in order:
            assign(k, i, cur[k][i] + d)
    elif pattern == "shift-all":
        for kk in kinds:
            for i in sorted(range(len(cur[kk])), key=lambda i: -cur[kk][i]):
                assign(kk, i, cur[kk][i] + 1000)
    elif pattern == "permute":
        permute(k)
    elif pattern == "swap":
        if len(cur[k]) >= 2:
            a, b = rng.sample(range(len(cur[k])), 2)
            swap(k, a, b)
        else:
            assign(k, 0, fresh(k))
    elif pattern == "restore":
        i = rng.randrange(len(cur[k]))
        n0 = cur[k][i]
        assign(k, i, fresh(k))
        if rng.random() < 0.5 and len(cur[k]) >= 2:
            j = rng.choice([x for x in range(len(cur[k])) if x != i])
            assign(k, j, n0)
            assign(k, j, fresh(k))
        assign(k, i, n0)
    elif pattern == "collide":
        # assignments the setters must reject (number in use, 0, negative) between accepted ones
        for _ in range(rng.randint(1, 4)):
            kk = rng.choice(kinds)
            i = rng.randrange(len(cur[kk]))
            r = rng.random()
            if r < 0.5 and len(cur[kk]) >= 2:
                ops.append([kk, handles[kk][i], cur[kk][rng.choice([x for x in range(len(cur[kk])) if x != i])]])
            elif r < 0.65:
                ops.append([kk, handles[kk][i], rng.choice([0, -1, -cur[kk][i]])])
            elif r < 0.75:
                ops.append([kk, handles[kk][i], cur[kk][i]])  # its own number
            else:
                assign(kk, i, fresh(kk))
    elif pattern == "random":
        for _ in range(rng.randint(2, 8)):
            kk = rng.choice(kinds)
            i = rng.randrange(len(cur[kk]))
            n = rng.choice(list(used(kk)) + [0]) if rng.random() < 0.15 else fresh(kk, 1, 60)
            if n not in used(kk) and n > 0:
                assign(kk, i, n)
            else:
                ops.append([kk, handles[kk][i], n])
    else:  # mixed: a number that migrates between kinds (the same integer used in several collections)
        n = fresh(k, 1, 30)
        for kk in kinds:
            if n not in used(kk):
                assign(kk, rng.randrange(len(cur[kk])), n)
        if len(cur[k]) >= 2:
            a, b = rng.sample(range(len(cur[k])), 2)
            swap(k, a, b)
    return ops, pattern


def gen_neutral_op(rng, nf0, prefer=None):
    """one reference-preserving operation that is not a number assignment (see NEUTRAL)"""
    ncell, nsurf = len(nf0["cells"]), len(nf0["surfs"])
    r = rng.random()
    if r < 0.35:
        return ["relink", 0, 0]
    if r < 0.5:
        ks = ["cell", "surf"] + (["tr"] if nf0["trs"] else [])
        return ["reappend:" + rng.choice(ks), 0, 0]
    c = rng.randrange(ncell)
    if r < 0.9 or ncell < 2:
        # preferably a surface that itself points at something (transform / periodic partner) and is new to the cell
        pointing = [i for i, x in enumerate(nf0["surfs"]) if x["tr"] is not None or x["per"] is not None]
        pool = prefer if prefer and rng.random() < 0.5 else (pointing if pointing and rng.random() < 0.6 else list(range(nsurf)))
        return [rng.choice(["geom+", "geom-"]), c, rng.choice(pool)]
    return ["geom#", c, rng.choice([x for x in range(ncell) if x != c])]


def gen_history_neutral(rng, nf0):
    """renumberings with reference-preserving operations that are not number assignments in between and, mostly,
    between the last renumbering and the write"""
    pattern = rng.choice(["swap", "rotate", "permute", "coincide", "restore", "shift", "random", "mixed", "single", None])
    ops, pattern = gen_history(rng, nf0, pattern)
    if not ops:
        return ops, pattern
    touched = sorted({o for k, o, _ in ops if k == "surf"})
    out = list(ops)
    for _ in range(rng.choice([1, 1, 2, 3])):
        pos = len(out) if rng.random() < 0.6 else rng.randint(0, len(out))
        out.insert(pos, gen_neutral_op(rng, nf0, touched))
    if is_number_op(out[-1]) and rng.random() < 0.8:
        out.append(gen_neutral_op(rng, nf0, touched))
    return out, "neutral+" + pattern


def gen_history_writes(rng, nf0):
    """renumbering histories with write_to_file calls in between (every file written is judged).  The patterns are those that
    make an object pass through a number and leave it again across a write: return to the original number (undo), the number
    left behind handed on to another object of the same kind, swaps / rotations / permutations carried out in stages with a
    write after each stage; and every other pattern with writes at random places."""
    nums = own_numbers(nf0)
    handles = {k: list(range(len(v))) for k, v in nums.items() if k != "univ"}
    handles["univ"] = list(nums["univ"])
    kinds = [k for k in KINDS if handles[k]]
    if not kinds:
        return [], "empty"
    w = [WRITE, 0, 0]
    pattern = rng.choice(["return", "return", "hand-on", "hand-on", "staged", "staged", "random-writes", "random-writes", "there-and-back-all"])
    if pattern in ("return", "hand-on"):
        # preferably a kind/object something else points at
        k = rng.choice(kinds)
        i = rng.randrange(len(handles[k]))
        n0 = nums[k][i]
        used = set(nums[k])
        tmp = rng.choice([x for x in list(range(1, 13)) + [rng.randint(13, 999)] * 4 if x not in used] or [max(used) + 1])
        ops = [[k, handles[k][i], tmp], w]
        if rng.random() < 0.3:
            tmp2 = max(used | {tmp}) + rng.randint(1, 50)
            ops += [[k, handles[k][i], tmp2], w]   # a second stop on the way
            tmp = tmp2 if rng.random() < 0.5 else tmp
        ops.append([k, handles[k][i], n0])
        if pattern == "hand-on" and len(handles[k]) >= 2:
            j = rng.choice([x for x in range(len(handles[k])) if x != i])
            if rng.random() < 0.3:
                ops.append(w)
            ops.append([k, handles[k][j], tmp])   # another object of the kind takes the number just left
        if rng.random() < 0.3:
            ops.append(w)
            if rng.random() < 0.5:
                ops.append(gen_neutral_op(rng, nf0))
        return ops, "writes+" + pattern
    if pattern == "there-and-back-all":
        # every object of every kind +1000, write, and back
        ops = []
        for kk in kinds:
            for i in sorted(range(len(nums[kk])), key=lambda i: -nums[kk][i]):
                ops.append([kk, handles[kk][i], nums[kk][i] + 1000])
        ops.append(w)
        for kk in kinds:
            for i in sorted(range(len(nums[kk])), key=lambda i: nums[kk][i]):
                if rng.random() < 0.8:
                    ops.append([kk, handles[kk][i], nums[kk][i]])
        return ops, "writes+" + pattern
    base = rng.choice(["swap", "rotate", "permute", "restore", "coincide", "mixed"] if pattern == "staged" else
                      ["swap", "rotate", "permute", "restore", "coincide", "mixed", "shift", "random", "collide", "single"])
    ops, base = gen_history(rng, nf0, base)
    if not ops:
        return ops, base
    out = []
    if pattern == "staged":
        for op in ops:   # a write after (almost) every stage
            out.append(op)
            if rng.random() < 0.7:
                out.append(w)
    else:
        out = list(ops)
        for _ in range(rng.choice([1, 1, 2, 3])):
            out.insert(rng.randint(1, len(out)), w)
        if rng.random() < 0.3:
            out.insert(rng.randint(0, len(out)), gen_neutral_op(rng, nf0))
    while out and out[-1] == w:
        out.pop()   # the last write is the one every case ends with
    return out, "writes+" + pattern + ":" + base


def shrink_text(text, still_fails, budget=60):
    """drop whole cards (a line with a non-blank in columns 1-5 and its continuation lines) while the case still fails"""
    lines = text.split("\n")
    groups, cur = [], []
    for l in lines:
        starts = bool(l[:5].strip()) or l.strip() == ""
        if starts and cur:
            groups.append(cur)
            cur = []
        cur.append(l)
    if cur:
        groups.append(cur)
    i = 1  # keep the title
    while i < len(groups) and budget > 0:
        g = groups[i]
        if len(g) == 1 and g[0].strip() == "":
            i += 1
            continue
        cand = groups[:i] + groups[i + 1:]
        budget -= 1
        if still_fails("\n".join(l for gg in cand for l in gg)):
            groups = cand
        else:
            i += 1
    return "\n".join(l for gg in groups for l in gg)
