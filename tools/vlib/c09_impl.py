"""C09 — implementation side: run a case (file text + API history) on the REAL MontePy, observe every write,
and the property's own oracle on the written files as read by the independent Spec reader.

A case is {"text": str, "limit": 80|128, "ops": [op, ...]}.  Operations (all through the public API):
  ["flags", [imp, vol, u, lat, fill]]       problem.print_in_data_block[k] = bool   (None = leave alone)
  ["append", {"number", "surf", "imp": {p: x}, "vol", "u", "fill", "lat"}]   new Cell(), appended, data set
  ["remove", i]                             problem.cells.remove(cells[i])
  ["move_end", i]                           remove cells[i], append it again (reordering through the API)
  ["reorder", perm]                         problem.cells = [cells[j] for j in perm]
  ["imp", i, particle, x] ["imp_all", i, x] ["vol", i, x] ["del_vol", i] ["u", i, number] ["fill", i, number|None]
  ["lat", i, 1|2|None] ["not_truncated", i, bool] ["vol_calc", bool]
  ["observe", i]                            str / repr / format_for_mcnp_input of the cell and its modifiers (no effect expected)
  ["write"]                                 write_to_file; the observation that is judged
Cells are addressed by their position in problem.cells at the time of the operation.
"""

import os
import shutil
import signal
import tempfile
import warnings
from fractions import Fraction

from . import mp
from . import spec

montepy = mp.montepy
CLASSES = ["imp", "vol", "u", "lat", "fill"]
PNAME = {"n": "NEUTRON", "p": "PHOTON", "e": "ELECTRON"}
EXPECTED_WRITE_ERRORS = {
    # deliberate, documented refusals (not violations): see judge()
    "ValueError:fill-complex",
    "ParticleTypeNotInCell",
}


def particle(name):
    return getattr(montepy.particle.Particle, PNAME[name])


def pshort(part):
    return part.value.lower()


def frac(x):
    if x is None:
        return None
    f = Fraction(x)
    return [f.numerator, f.denominator]


class _Hang(Exception):
    pass


def _alarm(*a):
    raise _Hang()


# --------------------------------------------------------------------------- observation of the API / hidden state
def api_snapshot(p):
    """what the API reports, per cell in cell order (the right-hand side of the property)"""
    mode = sorted(pshort(x) for x in p.mode.particles)
    cells = []
    for c in p.cells:
        imp = {}
        for m in mode:
            # a datum is an importance the cell HOLDS (`particle in cell.importance`); for a particle it does not
            # hold the getter reports the default 0.0, which is not a datum (nothing was given, nothing is written)
            if particle(m) not in c.importance:
                imp[m] = None
                continue
            try:
                imp[m] = frac(c.importance[particle(m)])
            except Exception as e:  # noqa: BLE001
                imp[m] = "err:" + type(e).__name__
        u = c.universe
        f = c.fill
        cells.append({
            "number": c.number,
            "imp": imp,
            "vol": frac(c.volume),
            "u": (u.number if u is not None else None),
            "ntr": bool(c._universe.not_truncated) and u is not None and u.number != 0,
            "lat": (c.lattice.value if c.lattice is not None else None),
            "fill": (f.universe.number if f.universe is not None else None),
            "fill_complex": bool(f.transform is not None),
            "fill_multi": bool(f.multiple_universes and f.universes is not None),
        })
    return {"mode": mode, "cells": cells, "flags": [bool(p.print_in_data_block[k]) for k in CLASSES],
            "imp_outside_mode": any(pshort(x) not in mode for c in p.cells for x in c.importance),
            "vol_calc": bool(p.cells.allow_mcnp_volume_calc)}


def model_state(p):
    """abstraction of the live objects to the state of Model/CellData.lean (hidden details the model needs:
    dict order and tree sharing of the cell-level importances, which data-level instances are data inputs)"""
    snap = api_snapshot(p)
    attrs = {cls._class_prefix(): attr for cls, (attr, _) in montepy.Cell._INPUTS_TO_PROPERTY.items()}
    cells = []
    for c, a in zip(p.cells, snap["cells"]):
        trees = {}
        imp = []
        for part, tree in c.importance._particle_importances.items():
            tid = trees.setdefault(id(tree), len(trees))
            try:
                val = frac(tree["data"][0].value)
                cl = sorted(pshort(x) for x in tree["classifier"].particles.particles)
            except Exception:  # noqa: BLE001
                val, cl = None, []
            imp.append({"p": pshort(part), "tree": tid, "val": val, "cl": cl})
        # the modifier classes with a node in the cell's parameters tree: the only way `format_for_mcnp_input` reaches them
        try:
            slots = sorted({prm["classifier"].prefix.value.lower() for prm in c._tree["parameters"].nodes.values()} & set(CLASSES))
        except Exception as e:  # noqa: BLE001
            slots = ["err:" + type(e).__name__]
        cells.append(dict(a, imp_entries=imp, ntr_raw=bool(c._universe.not_truncated), slots=slots,
                          set_in=[bool(getattr(c, attrs[k]).set_in_cell_block) for k in CLASSES]))
    insts = {id(getattr(p.cells, attrs[k])): k for k in CLASSES}
    data_inputs = []
    for d in p.data_inputs:
        k = insts.get(id(d))
        if k is not None or not data_inputs or data_inputs[-1] is not None:
            data_inputs.append(k)  # runs of other inputs are one opaque item
    # identity of the data-block importance trees: particle -> first-occurrence index of id(tree), dict order
    ids = {}
    real_tree = []
    for part, tree in getattr(p.cells._importance, "_real_tree", {}).items():
        real_tree.append([pshort(part), ids.setdefault(id(tree), len(ids))])
    return {"mode": snap["mode"], "cells": cells, "flags": snap["flags"], "vol_calc": bool(p.cells._volume._calc_by_mcnp),
            "data_inputs": data_inputs, "real_tree": real_tree}


# --------------------------------------------------------------------------- operations
def apply_op(p, op):
    name = op[0]
    cells = p.cells.objects if hasattr(p.cells, "objects") else list(p.cells)
    if name == "flags":
        for k, b in zip(CLASSES, op[1]):
            if b is not None:
                p.print_in_data_block[k] = bool(b)
    elif name == "append":
        s = op[1]
        c = montepy.Cell()
        c.number = s["number"]
        surf = p.surfaces.objects[s.get("surf", 0) % len(p.surfaces.objects)]
        c.geometry = -surf
        p.cells.append(c)
        for m, x in (s.get("imp") or {}).items():
            setattr(c.importance, PNAME[m].lower(), x)
        if s.get("vol") is not None:
            c.volume = s["vol"]
        if s.get("u") is not None:
            c.universe = _universe(p, s["u"])
        if s.get("fill") is not None:
            c.fill.universe = _universe(p, s["fill"])
        if s.get("lat") is not None:
            c.lattice = montepy.data_inputs.lattice.Lattice(s["lat"])
    elif name == "remove":
        p.cells.remove(cells[op[1]])
    elif name == "move_end":
        c = cells[op[1]]
        p.cells.remove(c)
        p.cells.append(c)
    elif name == "reorder":
        p.cells = [cells[j] for j in op[1]]
    elif name == "imp":
        setattr(cells[op[1]].importance, PNAME[op[2]].lower(), op[3])
    elif name == "imp_all":
        cells[op[1]].importance.all = op[2]
    elif name == "vol":
        cells[op[1]].volume = op[2]
    elif name == "del_vol":
        del cells[op[1]].volume
    elif name == "u":
        cells[op[1]].universe = _universe(p, op[2])
    elif name == "fill":
        cells[op[1]].fill.universe = None if op[2] is None else _universe(p, op[2])
    elif name == "lat":
        if op[2] is None:
            del cells[op[1]].lattice
        else:
            cells[op[1]].lattice = montepy.data_inputs.lattice.Lattice(op[2])
    elif name == "not_truncated":
        cells[op[1]].not_truncated = bool(op[2])
    elif name == "vol_calc":
        p.cells.allow_mcnp_volume_calc = bool(op[1])
    elif name == "observe":
        # observations through the public API (formatting mutates the syntax trees, never what is reported)
        c = cells[op[1]]
        str(c), repr(c), str(c.importance), repr(c.fill), str(c.universe)
        c.format_for_mcnp_input(p.mcnp_version)
    else:
        raise AssertionError("unknown op " + name)


def _universe(p, number):
    if number in p.universes.numbers:
        return p.universes[number]
    u = montepy.Universe(number)
    p.universes.append(u)
    return u


def run_impl(case, want_state=True):
    """-> {"read": "ok"|err, "steps": [{"out": "ok"|err [, "write": {...}]}]}"""
    d = tempfile.mkdtemp(prefix="verif_c09_")
    old = signal.signal(signal.SIGALRM, _alarm)
    res = {"read": "ok", "steps": []}
    try:
        src = os.path.join(d, "in.imcnp")
        with open(src, "w", encoding="utf-8", newline="") as fh:
            fh.write(case["text"])
        signal.setitimer(signal.ITIMER_REAL, 60.0)
        try:
            p = montepy.read_input(src, mcnp_version=(6, 1, 0) if case.get("limit", 128) == 80 else (6, 2, 0))
        except _Hang:
            res["read"] = "hang"
            return res
        except Exception as e:  # noqa: BLE001
            res["read"] = type(e).__name__
            return res
        finally:
            signal.setitimer(signal.ITIMER_REAL, 0)
        if want_state:
            res["state0"] = model_state(p)
        nw = 0
        for op in case["ops"]:
            st = {"out": "ok"}
            signal.setitimer(signal.ITIMER_REAL, 60.0)
            try:
                if op[0] == "write":
                    st["api"] = api_snapshot(p)
                    if want_state:
                        st["state"] = model_state(p)
                    out = os.path.join(d, f"out{nw}.imcnp")
                    nw += 1
                    try:
                        with warnings.catch_warnings():
                            warnings.simplefilter("ignore")
                            p.write_to_file(out, overwrite=True)
                        with open(out, encoding="utf-8", newline="") as fh:
                            st["text"] = fh.read()
                        if want_state:
                            st["state_after"] = model_state(p)
                    except _Hang:
                        raise
                    except Exception as e:  # noqa: BLE001
                        st["out"] = _errclass(e)
                else:
                    apply_op(p, op)
                    if want_state:
                        st["state"] = model_state(p)
            except _Hang:
                st["out"] = "hang"
            except Exception as e:  # noqa: BLE001
                st["out"] = "op-raised:" + type(e).__name__
            finally:
                signal.setitimer(signal.ITIMER_REAL, 0)
            res["steps"].append(st)
            if st["out"] == "hang" or st["out"].startswith("op-raised"):
                break
        return res
    finally:
        signal.setitimer(signal.ITIMER_REAL, 0)
        signal.signal(signal.SIGALRM, old)
        shutil.rmtree(d, ignore_errors=True)


def _errclass(e):
    n = type(e).__name__
    if n == "ValueError" and "Fill can not be in the data block" in str(e):
        return "ValueError:fill-complex"
    return n


# --------------------------------------------------------------------------- the oracle
def history_kind(ops):
    kinds = {o[0] for o in ops if o[0] not in ("flags", "write")}
    if not kinds:
        return "none"
    for k, name in (("append", "append"), ("remove", "remove"), ("move_end", "reorder"), ("reorder", "reorder")):
        if k in kinds:
            return name
    return "edit"


def expected_data(api):
    """(cell index, class, particle) -> expected value (Fraction) for every datum the API reports; defaults absent"""
    exp = {}
    for i, c in enumerate(api["cells"]):
        for m in api["mode"]:
            v = c["imp"][m]
            if isinstance(v, list):
                exp[(i, "imp", m)] = Fraction(v[0], v[1])
        if c["vol"] is not None:
            exp[(i, "vol", None)] = Fraction(c["vol"][0], c["vol"][1])
        if c["u"]:
            exp[(i, "u", None)] = Fraction(-c["u"] if c["ntr"] else c["u"])
        if c["lat"] is not None:
            exp[(i, "lat", None)] = Fraction(c["lat"])
        if c["fill"] is not None or c["fill_multi"]:
            # a fill with a transform or a matrix: presence on the cell card only (the value list is C03's business)
            exp[(i, "fill", None)] = Fraction(c["fill"]) if (c["fill"] is not None and not c["fill_complex"] and not c["fill_multi"]) else None
    return exp


def judge_write(api, text, den, err, check_block=True):
    """First failure of the property on one written file. -> None | (class, datum, detail)
    api: api_snapshot before the write; den: the Spec's denotation of the written text (None if the write raised).
    With check_block=False the same comparison judges the READ half of the property: `den` is the Spec's reading of
    the INPUT file and `api` what the API reports right after reading (whichever block the data were given in)."""
    flags = dict(zip(CLASSES, api["flags"]))
    if err is not None:
        if err == "ValueError:fill-complex" and flags["fill"] and any(c["fill_complex"] or c["fill_multi"] for c in api["cells"]):
            return None  # documented refusal: FILL with a transform / matrix cannot be printed in the data block
        if err == "ParticleTypeNotInCell" and flags["imp"] and any(c["imp"][m] is None for c in api["cells"] for m in api["mode"]):
            return None  # deliberate refusal: an IMP vector cannot have a hole, and some cell holds no importance for a particle of MODE
        if err == "ParticleTypeNotInProblem" and api.get("imp_outside_mode"):
            # a cell holds an importance for a particle that is not in MODE (imp:n,p=1 without a MODE card): outside
            # the quantifier (well-formed problems); MontePy's deliberate refusal, C13's business
            return None
        if err == "IllegalState":
            return None  # validate() refuses an incomplete object (no geometry, density without material): deliberate, not per-cell data
        return ("write-raised", _guess_datum(err), err)
    exp = expected_data(api)
    ncell = len(api["cells"])
    if [c["number"] for c in den["cells"]] != [c["number"] for c in api["cells"]]:
        return ("cells-differ", "cells", ([c["number"] for c in den["cells"]], [c["number"] for c in api["cells"]]))
    table = spec.per_cell_table(den)
    # vectors longer than the cell list (MCNP rejects them) and per-cell cards given twice
    for card in den["data"]:
        base, parts = spec.split_key(card["name"])
        b = base.lstrip("*")
        if b in CLASSES:
            ent = card["entries"]
            if b == "vol" and ent and isinstance(ent[0], dict) and ent[0].get("w") == "no":
                ent = ent[1:]
            if len(ent) > ncell:
                return ("misaligned", b, f"data-block {card['name']} has {len(ent)} entries for {ncell} cells")
            if any(isinstance(v, dict) and ("bad" in v or "w" in v) for v in ent):
                return ("wrong-value", b, f"data-block {card['name']} has a non-numeric entry {ent}")
    keys = sorted(set(exp) | set(table), key=str)
    for key in keys:
        i, b, part = key
        places = table.get(key, [])
        if key not in exp:
            # a datum in the file the API does not report: only a default value is tolerated
            for blk, vals in places:
                if not _is_default(b, vals):
                    if b == "imp" and part not in api["mode"]:
                        continue  # importance of a particle outside MODE: MCNP ignores it (not per-cell data of this problem)
                    return ("spurious", b, f"cell[{i}] {b}:{part} written as {vals} in the {blk} block, API reports none")
            continue
        if not places:
            return ("missing", b, f"cell[{i}] #{api['cells'][i]['number']} {b}:{part} = {exp[key]} is not in the file")
        if len({blk for blk, _ in places}) > 1:
            return ("both-blocks", b, f"cell[{i}] {b}:{part} given in both blocks: {places}")
        if len(places) > 1:
            return ("duplicated", b, f"cell[{i}] {b}:{part} given {len(places)} times: {places}")
        blk, vals = places[0]
        want_blk = "data" if flags[b] else "cell"
        if check_block and blk != want_blk:
            return ("wrong-block", b, f"cell[{i}] {b}:{part} printed in the {blk} block, print_in_data_block[{b}]={flags[b]}")
        want = exp[key]
        if want is None:
            continue  # complex fill: presence only
        if not vals or not spec.val_matches_number(vals[0], want):
            # is it some other cell's value? -> misaligned
            others = [j for (j, bb, pp), w in exp.items() if bb == b and pp == part and j != i and w is not None and vals and spec.val_matches_number(vals[0], w)]
            cls = "misaligned" if (blk == "data" and others) else "wrong-value"
            return (cls, b, f"cell[{i}] #{api['cells'][i]['number']} {b}:{part} written {vals[:1]} API reports {want}")
    return None


def _is_default(b, vals):
    if not vals or vals[0] == "J":
        return True
    if b in ("u", "fill", "imp") and isinstance(vals[0], dict) and "n" in vals[0] and vals[0]["n"][0] == 0:
        return True
    return False


def _guess_datum(err):
    return "any"


def after_terminator(text):
    """harness-level diagnosis only (never a verdict): non-blank lines after the blank line that ends the third block"""
    lines = text.split("\n")
    blanks = -1 if lines and lines[0][:8].lower() == "message:" else 0
    i = 1
    while i < len(lines) and blanks < 3:
        if not lines[i].strip():
            blanks += 1
        i += 1
    return [l for l in lines[i:] if l.strip()]


def signature(cls, datum, api, ops_before, error=None):
    flags = dict(zip(CLASSES, api["flags"]))
    sig = {"mechanism": "cell-data", "class": cls, "datum": datum,
           "flags": (flags.get(datum) if datum in flags else None), "history": history_kind(ops_before)}
    if error is not None:
        sig["error"] = error  # the exception class: shrinking must not drift from one leak to another refusal
    return sig
