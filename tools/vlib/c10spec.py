"""MCNP's physical-line rules, as used by the C10 oracle.

This is a line-by-line transcription of lean/MontePyVerif/Spec/Text.lean (the reference reader the theorems are
stated against); tools/props/c10.py checks on every run that both give the same answer on every judged case
(unit U-spec), so the Python copy only exists to make shrinking cheap.  It imports nothing from MontePy.
"""

HUGE = 10**9


def is_blank(l):
    return all(c == " " for c in l)


def is_comment_line(l):
    for i, c in enumerate(l[:5]):
        if c == " ":
            continue
        return c in "cC" and (i + 1 == len(l) or l[i + 1] == " ")
    return False


def comment_line_text(l):
    i = 0
    while i < len(l) and l[i] == " ":
        i += 1
    return l[i + 1 :]


def is_continuation(l):
    return len(l) >= 5 and l[:5] == "     "


def split_dollar(l):
    i = l.find("$")
    if i < 0:
        return l, None
    return l[:i], l[i + 1 :]


def words(l):
    return [w for w in l.split(" ") if w]


def squeeze(l):
    return l.replace(" ", "")


def classify(limit, raw):
    l = raw[:limit]
    if is_blank(l):
        return ("blank",)
    if is_comment_line(l):
        return ("comment", squeeze(comment_line_text(l)))
    d, c = split_dollar(l)
    return ("data", is_continuation(l), words(d), squeeze(c) if c is not None else "")


def logical_inputs(limit, lines):
    """[(words, comment)] — Spec.Text.logicalInputs"""
    done = []
    cur = None
    amp = False
    for raw in lines:
        k = classify(limit, raw)
        if k[0] == "blank":
            if cur is not None:
                done.append(cur)
            cur, amp = None, False
        elif k[0] == "comment":
            if cur is not None:
                cur = (cur[0], cur[1] + k[1])
            else:
                cur = ([], k[1])
        else:
            _, cont, ws, c = k
            a = False
            if ws and ws[-1] == "&":
                ws, a = ws[:-1], True
            if cur is not None:
                if cont or amp or not cur[0]:
                    cur = (cur[0] + ws, cur[1] + c)
                else:
                    done.append(cur)
                    cur = (ws, c)
            else:
                cur = (ws, c)
            if ws or a:
                amp = a  # a line without data words (only a $ comment) does not interrupt a continuation
    if cur is not None:
        done.append(cur)
    return [{"words": w, "comment": c} for w, c in done]
