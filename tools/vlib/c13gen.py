"""C13: structured base files (typed descriptions), structured single corruptions, rendering to MCNP text and to the
abstract file the Lean model reads.  The abstract description is derived from the typed description, never from
MontePy's reading of the text."""
import copy

MOD_KINDS = {"imp": 0, "vol": 1, "u": 2, "lat": 3, "fill": 4}


def gen_desc(rng, i):
    ns = rng.randint(2, 5)
    snums = rng.sample(range(1, 40), ns)
    nm = rng.randint(0, 2)
    mnums = rng.sample(range(1, 30), nm)
    ntr = rng.randint(0, 2)
    tnums = rng.sample(range(1, 30), ntr)
    surfaces = []
    for k, n in enumerate(snums):
        s = {"num": n, "tr": None, "per": None, "type": rng.choice(["so", "px", "pz", "cz"]), "consts": [rng.randint(1, 9)], "fault": None}
        if tnums and rng.random() < 0.4:
            s["tr"] = rng.choice(tnums)
        surfaces.append(s)
    if ns >= 2 and rng.random() < 0.3:
        a, b = surfaces[0], surfaces[1]
        a.update(type="px", tr=None, per=b["num"], consts=[0])
        b.update(type="px", tr=None, per=a["num"], consts=[5])
    nc = rng.randint(1, 5)
    cnums = rng.sample(range(1, 60), nc)
    cells = []
    for k, n in enumerate(cnums):
        mat = rng.choice(mnums) if mnums and rng.random() < 0.6 else 0
        surfs = [rng.choice([1, -1]) * rng.choice(snums) for _ in range(rng.randint(1, 3))]
        comps = [rng.choice(cnums[:k])] if k > 0 and rng.random() < 0.3 else []
        cells.append({"num": n, "mat": mat, "surfs": surfs, "comps": comps, "mods": ["imp"], "fault": None, "extra": ""})
    data = []
    for n in mnums:
        data.append({"t": "material", "num": n, "fault": None})
        if rng.random() < 0.4:
            data.append({"t": "thermal", "num": n, "fault": None})
    for n in tnums:
        data.append({"t": "transform", "num": n, "fault": None})
    data.append({"t": "mode", "fault": None})
    if rng.random() < 0.5:
        data.append({"t": "cellmod", "kind": "vol", "n": rng.randint(1, nc), "fault": None})
    data.append({"t": "other", "text": "nps 100", "fault": None})
    if rng.random() < 0.5:
        data.insert(rng.randrange(len(data) + 1), {"t": "other", "text": "ksrc 0 0 0", "fault": None})
    return {"cells": cells, "surfaces": surfaces, "data": data, "reader": [], "tail_reader": None, "files": {}}


# --------------------------------------------------------------------------- rendering
def render_input(block, x):
    f = x.get("fault")
    if block == "cells":
        if f and f["recipe"] == "like-but":
            return f"{x['num']} like {f['arg']} but imp:n=2"
        geom = " ".join(str(s) for s in x["surfs"]) + "".join(f" #{c}" for c in x["comps"])
        if f and f["recipe"] == "cell-fraction-surface":
            geom = geom.split(" ")[0] + ".5 " + " ".join(geom.split(" ")[1:])
        head = f"{x['num']} {x['mat']} -1.5" if x["mat"] else f"{x['num']} 0"
        params = "imp:n=1"
        if "vol" in x["mods"]:
            params += " vol=2"
        if f and f["recipe"] == "cell-repeated-param":
            params += " imp:n=2"
        if f and f["recipe"] == "cell-junk-char":
            params += " |"
        if f and f["recipe"] == "cell-negative-imp":
            params = params.replace("imp:n=1", "imp:n=-1")
        return f"{head} {geom} {params}"
    if block == "surfaces":
        num = str(x["num"])
        if f and f["recipe"] == "surface-fraction-number":
            num += ".5"
        ptr = f" {x['tr']}" if x["tr"] is not None else (f" -{x['per']}" if x["per"] is not None else "")
        typ = x["type"]
        consts = " ".join(str(c) for c in x["consts"])
        if f and f["recipe"] == "surface-bad-mnemonic":
            typ = "foo"
        if f and f["recipe"] == "surface-extra-constant":
            consts += " 1 2 3 4"
        if f and f["recipe"] == "surface-junk-char":
            consts += " @"
        return f"{num}{ptr} {typ} {consts}"
    t = x["t"]
    if t == "material":
        if f and f["recipe"] == "material-unknown-element":
            return f"m{x['num']} 999999.80c 1.0"
        if f and f["recipe"] == "material-odd-entries":
            return f"m{x['num']} 1001.80c 1.0 8016.80c"
        return f"m{x['num']} 1001.80c 1.0"
    if t == "thermal":
        return f"mt{x['num']} lwtr.23t"
    if t == "transform":
        if f and f["recipe"] == "transform-junk":
            return f"tr{x['num']} 0 0 zz"
        return f"tr{x['num']} 0 0 1"
    if t == "mode":
        return "mode n"
    if t == "cellmod":
        return "vol " + " ".join(["1"] * x["n"])
    return x["text"]


# recipe -> (site, raw class) of the exception inside obj_parser(input); decided by reading the code and validated by
# the correspondence of every run (a wrong entry shows up as a model/implementation disagreement)
RECIPES = {
    "like-but": ("parser", "UnsupportedFeature"),
    "cell-fraction-surface": ("ctor", "ValueError"),
    "cell-repeated-param": ("parser", "RedundantParameterSpecification"),
    "cell-junk-char": ("parser", "ParsingError"),
    "cell-negative-imp": ("ctor", "ValueError"),
    "surface-fraction-number": ("ctor", "ValueError"),
    "surface-bad-mnemonic": ("treeNone", "ParsingError"),
    "surface-extra-constant": ("ctor", "ValueError"),
    "surface-junk-char": ("treeNone", "ParsingError"),
    "material-unknown-element": ("ctor", "UnknownElement"),
    "material-odd-entries": ("treeNone", "ParsingError"),
    "transform-junk": ("treeNone", "ParsingError"),
}
RECIPE_BLOCK = {
    "cells": ["like-but", "cell-fraction-surface", "cell-repeated-param", "cell-junk-char", "cell-negative-imp"],
    "surfaces": ["surface-fraction-number", "surface-bad-mnemonic", "surface-extra-constant", "surface-junk-char"],
    "material": ["material-unknown-element", "material-odd-entries"],
    "transform": ["transform-junk"],
}
READER_LINES = {
    "vertical": ("#  1 2", "UnsupportedFeature"),
    "bad-read": ("read foo", "ParsingError"),
}


def render(desc):
    """-> (bundle, abstract items)"""
    lines = ["generated base file"]
    items = []
    for bi, block in enumerate(["cells", "surfaces", "data"]):
        for k, x in enumerate(desc[block]):
            for rd in desc["reader"]:
                if rd["block"] == block and rd["before"] == k:
                    lines.append(READER_LINES[rd["kind"]][0])
                    items.append({"t": "reader", "cls": READER_LINES[rd["kind"]][1]})
            lines.append(render_input(block, x))
            items.append(abstract(block, x))
        for rd in desc["reader"]:
            if rd["block"] == block and rd["before"] >= len(desc[block]):
                lines.append(READER_LINES[rd["kind"]][0])
                items.append({"t": "reader", "cls": READER_LINES[rd["kind"]][1]})
        if block == "data" and desc["tail_reader"]:
            lines.append("read file=nothere.txt")
        lines.append("")
    if desc["tail_reader"]:
        # the queue of read inputs is worked off after the main file: the missing target is met last
        items.append({"t": "reader", "cls": "FileNotFoundError"})
    return {"main": "\n".join(lines) + "\n", "files": dict(desc["files"])}, items


def abstract(block, x):
    f = x.get("fault")
    fault = None
    if f:
        site, cls = RECIPES[f["recipe"]]
        fault = {"site": site, "cls": cls}
    if block == "cells":
        return {"t": "cell", "num": x["num"], "mat": x["mat"], "surfs": [abs(s) for s in x["surfs"]], "comps": list(x["comps"]),
                "mods": [MOD_KINDS[m] for m in x["mods"] if m != "imp"], "fault": fault}
    if block == "surfaces":
        return {"t": "surface", "num": x["num"], "tr": x["tr"], "per": x["per"], "fault": fault}
    t = x["t"]
    if t in ("material", "transform", "thermal"):
        return {"t": t, "num": x["num"], "fault": fault}
    if t == "mode":
        return {"t": "mode", "fault": fault}
    if t == "cellmod":
        return {"t": "cellmod", "kind": MOD_KINDS[x["kind"]], "cant": x["kind"] != "imp", "n": x["n"], "fault": fault}
    return {"t": "other", "fault": fault}


# --------------------------------------------------------------------------- structured single corruptions
def corruptions(desc, rng):
    """every structured single corruption applicable to the description: list of (kind, new description)"""
    out = []

    def mod(kind, fn):
        d = copy.deepcopy(desc)
        if fn(d) is not False:
            out.append((kind, d))

    cells, surfaces, data = desc["cells"], desc["surfaces"], desc["data"]
    used_s = {s["num"] for s in surfaces}
    for i in range(len(cells)):
        for j in range(i):
            mod("duplicate-cell-number", lambda d, i=i, j=j: d["cells"][i].update(num=d["cells"][j]["num"]))
        for k in range(len(cells[i]["surfs"])):
            mod("dangle-surface", lambda d, i=i, k=k: d["cells"][i]["surfs"].__setitem__(k, 987))
        mod("dangle-complement", lambda d, i=i: d["cells"][i]["comps"].append(987))
        mod("dangle-material", lambda d, i=i: d["cells"][i].update(mat=987))
        mod("delete-cell", lambda d, i=i: d["cells"].pop(i))
        mod("duplicate-cell-input", lambda d, i=i: d["cells"].insert(i + 1, copy.deepcopy(d["cells"][i])))
        for r in RECIPE_BLOCK["cells"]:
            if r == "like-but" and i == 0:
                continue
            mod("fault:" + r, lambda d, i=i, r=r: d["cells"][i].update(fault={"recipe": r, "arg": d["cells"][0]["num"]}))
        if any(x["t"] == "cellmod" and x["kind"] == "vol" for x in data):
            mod("cell-data-in-both-blocks", lambda d, i=i: d["cells"][i]["mods"].append("vol"))
    for i in range(len(surfaces)):
        for j in range(i):
            mod("duplicate-surface-number", lambda d, i=i, j=j: d["surfaces"][i].update(num=d["surfaces"][j]["num"]))
        mod("delete-surface", lambda d, i=i: d["surfaces"].pop(i))
        if surfaces[i]["per"] is None:
            mod("dangle-transform", lambda d, i=i: d["surfaces"][i].update(tr=987))
        if surfaces[i]["type"] == "px" and surfaces[i]["tr"] is None:
            mod("dangle-periodic", lambda d, i=i: d["surfaces"][i].update(per=986))
        for r in RECIPE_BLOCK["surfaces"]:
            if r == "surface-extra-constant" and surfaces[i]["type"] == "so":
                continue  # the general Surface class does not count its constants
            mod("fault:" + r, lambda d, i=i, r=r: d["surfaces"][i].update(fault={"recipe": r}))
    for i, x in enumerate(data):
        mod("delete-data-input", lambda d, i=i: d["data"].pop(i))
        mod("duplicate-data-input", lambda d, i=i: d["data"].insert(i + 1, copy.deepcopy(d["data"][i])))
        for r in RECIPE_BLOCK.get(x["t"], []):
            mod("fault:" + r, lambda d, i=i, r=r: d["data"][i].update(fault={"recipe": r}))
    mod("mt-without-m", lambda d: d["data"].append({"t": "thermal", "num": 985, "fault": None}))
    mod("empty-surface-block", lambda d: d.update(surfaces=[]))
    mod("empty-data-block", lambda d: d.update(data=[]))
    mod("empty-cell-block", lambda d: d.update(cells=[]))
    for block in ("cells", "surfaces", "data"):
        for k in sorted({0, len(desc[block]) // 2, len(desc[block])}):
            for kind in READER_LINES:
                if block == "cells" and k == 0 and kind == "vertical":
                    pass
                mod("reader:" + kind, lambda d, block=block, k=k, kind=kind: d["reader"].append({"block": block, "before": k, "kind": kind}))
    mod("read-target-missing", lambda d: d.update(tail_reader=True))
    return out


# --------------------------------------------------------------------------- the card zoo
# Every card family of the grammar in every accepted spelling variant, one card per file in a minimal valid context.
# The malformed stream applies the systematic word mutations (drop the last word, drop a word in the middle,
# duplicate a word, swap two adjacent words of different kind, cut the line) at EVERY word of the card.
# (family, variant, block, card, context flags)
ZOO = [
    # materials: with / without library suffix, mixed, mass fractions, keyword parameters, continuation line
    ("material", "zaid-no-library", "data", "m2 1001 0.6667 8016 0.3333", ""),
    ("material", "zaid-library", "data", "m2 1001.80c 0.6667 8016.80c 0.3333", ""),
    ("material", "zaid-mixed", "data", "m2 1001.80c 2 8016 1", ""),
    ("material", "mass-fractions-no-library", "data", "m2 1001 -0.112 8016 -0.888", ""),
    ("material", "mass-fractions-library", "data", "m2 1001.80c -0.112 8016.80c -0.888", ""),
    ("material", "three-nuclides-no-library", "data", "m2 92235 0.04 92238 0.96 8016 2.0", ""),
    ("material", "params-library", "data", "m2 1001.80c 2 8016.80c 1 nlib=80c", ""),
    ("material", "params-no-library", "data", "m2 1001 2 8016 1 nlib=80c plib=04p", ""),
    ("material", "continuation-no-library", "data", "m2 1001 0.6667\n     8016 0.3333", ""),
    ("material", "continuation-library", "data", "m2 1001.80c 0.6667\n     8016.80c 0.3333", ""),
    ("material", "exponent-fraction", "data", "m2 1001 6.667e-1 8016 3.333-1", ""),
    ("thermal", "one-law", "data", "mt1 lwtr.23t", ""),
    ("thermal", "two-laws", "data", "mt1 lwtr.23t h-zr.20t", ""),
    # transforms: 3, 12, 13 entries, degrees
    ("transform", "displacement", "data", "tr2 1 2 3", ""),
    ("transform", "full-matrix", "data", "tr2 1 2 3 1 0 0 0 1 0 0 0 1", ""),
    ("transform", "full-matrix-direction", "data", "tr2 1 2 3 1 0 0 0 1 0 0 0 1 -1", ""),
    ("transform", "degrees", "data", "*tr2 1 2 3 0 90 90 90 0 90 90 90 0", ""),
    # mode, problem-level data
    ("mode", "one", "data", "", "mode=mode n"),
    ("mode", "two", "data", "", "mode=mode n p"),
    ("data", "nps", "data", "nps 1000", ""),
    ("data", "kcode", "data", "kcode 1000 1.0 10 50", ""),
    ("data", "ksrc", "data", "ksrc 0 0 0 1 1 1", ""),
    ("data", "sdef", "data", "sdef pos=0 0 0 erg=1.5", ""),
    ("data", "tally", "data", "f4:n 1 2", ""),
    ("data", "energy-bins", "data", "e4 0.1 1 10", ""),
    ("data", "phys", "data", "phys:n 20 0 0 j j j 0", ""),
    ("data", "cut", "data", "cut:n j 0.001", ""),
    ("data", "shortcuts", "data", "e14 1 3i 5 2r 10 2m", ""),
    # per-cell data in the data block (the cells of the context then carry none)
    ("per-cell", "imp", "data", "imp:n 1 1 0", "noimp"),
    ("per-cell", "imp-repeat", "data", "imp:n 1 1r 0", "noimp"),
    ("per-cell", "imp-two-particles", "data", "imp:n,p 1 1 0", "noimp,mode=mode n p"),
    ("per-cell", "vol", "data", "vol 1 2 3", ""),
    ("per-cell", "vol-no", "data", "vol no 1 2 3", ""),
    ("per-cell", "vol-jump", "data", "vol 1 2j", ""),
    ("per-cell", "u", "data", "u 0 5 0", ""),
    ("per-cell", "lat", "data", "lat j 1 j", ""),
    # surfaces of every arity class, with pointer / modifier variants
    ("surface", "so-1", "surfaces", "9 so 4", ""),
    ("surface", "s-4", "surfaces", "9 s 1 2 3 4", ""),
    ("surface", "sx-2", "surfaces", "9 sx 1 4", ""),
    ("surface", "px-1", "surfaces", "9 px 4", ""),
    ("surface", "p-4", "surfaces", "9 p 1 0 0 4", ""),
    ("surface", "p-9", "surfaces", "9 p 0 0 0 1 0 0 0 1 0", ""),
    ("surface", "cz-1", "surfaces", "9 cz 4", ""),
    ("surface", "c/z-3", "surfaces", "9 c/z 1 2 4", ""),
    ("surface", "kz-2", "surfaces", "9 kz 1 0.5", ""),
    ("surface", "kz-3", "surfaces", "9 kz 1 0.5 1", ""),
    ("surface", "k/z-4", "surfaces", "9 k/z 1 2 3 0.5", ""),
    ("surface", "sq-10", "surfaces", "9 sq 1 1 1 0 0 0 -4 0 0 0", ""),
    ("surface", "gq-10", "surfaces", "9 gq 1 1 1 0 0 0 0 0 0 -4", ""),
    ("surface", "tz-6", "surfaces", "9 tz 0 0 0 5 1 1", ""),
    ("surface", "rpp-6", "surfaces", "9 rpp -1 1 -1 1 -1 1", ""),
    ("surface", "rcc-7", "surfaces", "9 rcc 0 0 0 0 0 2 1", ""),
    ("surface", "sph-4", "surfaces", "9 sph 0 0 0 2", ""),
    ("surface", "box-12", "surfaces", "9 box 0 0 0 1 0 0 0 1 0 0 0 1", ""),
    ("surface", "rhp-9", "surfaces", "9 rhp 0 0 0 0 0 2 1 0 0", ""),
    ("surface", "trc-8", "surfaces", "9 trc 0 0 0 0 0 2 1 0.5", ""),
    ("surface", "transform-pointer", "surfaces", "9 1 px 4", ""),
    ("surface", "periodic-pointer", "surfaces", "9 -8 px 4\n8 -9 px -4", ""),
    ("surface", "reflecting", "surfaces", "*9 px 4", ""),
    ("surface", "white", "surfaces", "+9 px 4", ""),
    ("surface", "exponent", "surfaces", "9 so 4.5e0", ""),
    # cells
    ("cell", "void", "cells", "9 0 -1 2 imp:n=1", ""),
    ("cell", "material-mass", "cells", "9 1 -2.5 -1 2 imp:n=1", ""),
    ("cell", "material-atom", "cells", "9 1 0.05 -1 2 imp:n=1", ""),
    ("cell", "union-parens", "cells", "9 0 (-1 : 2) -2 imp:n=1", ""),
    ("cell", "complement-cell", "cells", "9 0 -2 #1 imp:n=1", ""),
    ("cell", "complement-expression", "cells", "9 0 -2 #(-1) imp:n=1", ""),
    ("cell", "vol-param", "cells", "9 0 -1 2 imp:n=1 vol=3.5", ""),
    ("cell", "two-particles", "cells", "9 0 -1 2 imp:n,p=1", "mode=mode n p,impkey=imp:n,p"),
    ("cell", "universe-fill", "cells", "9 0 -1 2 imp:n=1 u=5\n8 0 -2 imp:n=1 fill=5", ""),
    ("cell", "fill-transform", "cells", "9 0 -1 2 imp:n=1 u=5\n8 0 -2 imp:n=1 fill=5 (1)", ""),
    ("cell", "trcl", "cells", "9 0 -1 2 imp:n=1 trcl=1", ""),
    ("cell", "tmp", "cells", "9 0 -1 2 imp:n=1 tmp=2.5e-8", ""),
    ("cell", "continuation", "cells", "9 1 -2.5 -1\n     2 imp:n=1", ""),
]


def zoo_file(entry):
    """-> (name, text): the card of the zoo entry in a minimal valid file"""
    family, variant, block, card, flags = entry
    fl = dict(f.split("=", 1) if "=" in f else (f, "1") for f in flags.split(",") if f)
    impkey = fl.get("impkey", "imp:n")
    imp = (lambda v: "") if "noimp" in fl else (lambda v: f" {impkey}={v}")
    cells = [f"1 1 -1.0 -1{imp(1)}", f"2 0 1 -2{imp(1)}", f"3 0 2{imp(0)}"]
    surfaces = ["1 so 5", "2 so 9"]
    data = [fl.get("mode", "mode n"), "m1 1001.80c 2 8016.80c 1", "tr1 0 0 1"]
    if "noimp" in fl and block == "cells":
        raise ValueError("zoo: a cell entry needs its own importance")
    target = {"cells": cells, "surfaces": surfaces, "data": data}[block]
    if card:
        target.append(card)
    text = "\n".join([f"zoo {family} {variant}"] + cells + [""] + surfaces + [""] + data + [""]) + "\n"
    # the lines of the card itself (the context is the same in every file: it is mutated once, in the first file)
    lines = text.split("\n")
    mine = card.split("\n") if card else [fl.get("mode", "mode n")]
    own = [i for i, l in enumerate(lines) if l in mine]
    return f"zoo:{family}:{variant}", text, own


# --------------------------------------------------------------------------- reference defects in every order
def _ref_base():
    cells = [
        {"num": 1, "mat": 1, "surfs": [-1], "comps": [], "mods": ["imp"], "fault": None, "extra": ""},
        {"num": 2, "mat": 2, "surfs": [1, -2], "comps": [], "mods": ["imp"], "fault": None, "extra": ""},
        {"num": 3, "mat": 0, "surfs": [2], "comps": [1], "mods": ["imp"], "fault": None, "extra": ""},
    ]
    surfaces = [
        {"num": 1, "tr": None, "per": None, "type": "so", "consts": [1], "fault": None},
        {"num": 2, "tr": 1, "per": None, "type": "so", "consts": [2], "fault": None},
        {"num": 3, "tr": None, "per": 4, "type": "px", "consts": [0], "fault": None},
        {"num": 4, "tr": None, "per": 3, "type": "px", "consts": [5], "fault": None},
    ]
    data = {
        "mode": {"t": "mode", "fault": None},
        "m1": {"t": "material", "num": 1, "fault": None},
        "mt1": {"t": "thermal", "num": 1, "fault": None},
        "m2": {"t": "material", "num": 2, "fault": None},
        "mt2": {"t": "thermal", "num": 2, "fault": None},
        "mt7": {"t": "thermal", "num": 7, "fault": None},
        "tr1": {"t": "transform", "num": 1, "fault": None},
    }
    return cells, surfaces, data


def ref_order_descs(thorough=False):
    """reference defects in every ORDER: for each reference kind of the model (cell->surface, cell->material,
    cell->complement, surface->transform, surface->periodic, MT->material) a dangling reference, with the cards of the
    block in every permutation (MT before / after / between its material and the others, the dangling card at every
    position), plus duplicated MT inputs.  -> list of (kind, description)"""
    import copy
    import itertools

    out = []

    def desc(cells, surfaces, data):
        return {"cells": copy.deepcopy(cells), "surfaces": copy.deepcopy(surfaces), "data": copy.deepcopy(data), "reader": [], "tail_reader": None, "files": {}}

    cells, surfaces, data = _ref_base()
    # data block: every order of M / MT inputs, with the second MT sound (mt2) or dangling (mt7), the transform first or last
    for dangling in ("mt2", "mt7"):
        for perm in itertools.permutations(["m1", "mt1", "m2", dangling]):
            for tr_first in ((False, True) if thorough or dangling == "mt7" else (False,)):
                order = (["tr1"] if tr_first else []) + list(perm) + ([] if tr_first else ["tr1"])
                out.append((f"ref-order:mt-material:{dangling}", desc(cells, surfaces, [data["mode"]] + [data[k] for k in order])))
    # a duplicated MT at every position of three orders
    for perm in (["mt1", "m1", "mt7", "m2"], ["m1", "mt1", "m2", "mt7"], ["mt7", "mt1", "m2", "m1"]):
        for pos in range(len(perm) + 1):
            order = list(perm)
            order.insert(pos, "mt1")
            out.append(("ref-order:mt-material:duplicate-mt", desc(cells, surfaces, [data["mode"]] + [data[k] for k in order] + [data["tr1"]])))
    # a missing material / transform with the rest in every order
    for missing in ("m2", "tr1"):
        rest = [k for k in ("m1", "mt1", "m2", "mt2", "tr1") if k != missing]
        for perm in list(itertools.permutations(rest))[:: (1 if thorough else 3)]:
            out.append((f"ref-order:missing-{missing}", desc(cells, surfaces, [data["mode"]] + [data[k] for k in perm])))
    full = [data[k] for k in ("mode", "m1", "mt1", "m2", "mt2", "tr1")]
    # cell block: every order; nothing / a surface / a material / a complement dangling in each cell
    for perm in itertools.permutations(range(3)):
        for who in range(3):
            for what in ("none", "surface", "material", "complement"):
                if what == "none" and who > 0:
                    continue
                cs = copy.deepcopy([cells[i] for i in perm])
                tgt = [c for c in cs if c["num"] == who + 1][0]
                if what == "surface":
                    tgt["surfs"][0] = 987
                elif what == "material":
                    tgt["mat"] = 987
                elif what == "complement":
                    tgt["comps"] = [986]
                out.append((f"ref-order:cell-{what}", desc(cs, surfaces, full)))
    # surface block: every order; the transform / the periodic partner dangling
    for perm in itertools.permutations(range(4)):
        for what in ("none", "transform", "periodic", "periodic-deleted"):
            ss = copy.deepcopy([surfaces[i] for i in perm])
            if what == "transform":
                [s for s in ss if s["num"] == 2][0]["tr"] = 987
            elif what == "periodic":
                [s for s in ss if s["num"] == 3][0]["per"] = 986
            elif what == "periodic-deleted":
                ss = [s for s in ss if s["num"] != 4]
            if what != "none" or perm[0] == 0 or thorough:
                out.append((f"ref-order:surface-{what}", desc(cells, ss, full)))
    return out


def ref_order_texts():
    """the reference kinds the model does not carry (cell -> universe through FILL, FILL -> transform), as texts, in
    every order of the cell block: (kind, text)"""
    import itertools

    out = []
    base_cells = {
        "u": "1 0 -1 imp:n=1 u=5",
        "f": "2 0 -2 imp:n=1 fill={fill}",
        "o": "3 0 2 imp:n=0",
    }
    for fill, kind in (("5", "none"), ("9", "cell-fill-universe"), ("5 (1)", "none"), ("5 (7)", "fill-transform")):
        for perm in itertools.permutations("ufo"):
            cells = [base_cells[k].format(fill=fill) for k in perm]
            for tr_pos in (0, 1):
                data = ["mode n", "tr1 0 0 1"] if tr_pos == 0 else ["tr1 0 0 1", "mode n"]
                out.append(("ref-order:" + kind, "\n".join([f"reference order {kind}"] + cells + ["", "1 so 1", "2 so 5", ""] + data + [""]) + "\n"))
    return out
