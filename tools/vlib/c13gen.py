"""C13: structured base files (typed descriptions), structured single corruptions, rendering to MCNP text and to the
abstract file the Lean model reads.  The abstract description is derived from the typed description, never from
MontePy's reading of the text."""
import copy

MOD_KINDS = {"imp": 0, "vol": 1, "u": 2, "lat": 3, "fill": 4}


def gen_desc(rng, i):
    ns = rng.randint(2, 5)
    snums = rng.sample(range(1, 40), ns)
    nm = rng.randint(0, 2)
    mnums = rng.sample(range(1, 30), nm)
    ntr = rng.randint(0, 2)
    tnums = rng.sample(range(1, 30), ntr)
    surfaces = []
    for k, n in enumerate(snums):
        s = {"num": n, "tr": None, "per": None, "type": rng.choice(["so", "px", "pz", "cz"]), "consts": [rng.randint(1, 9)], "fault": None}
        if tnums and rng.random() < 0.4:
            s["tr"] = rng.choice(tnums)
        surfaces.append(s)
    if ns >= 2 and rng.random() < 0.3:
        a, b = surfaces[0], surfaces[1]
        a.update(type="px", tr=None, per=b["num"], consts=[0])
        b.update(type="px", tr=None, per=a["num"], consts=[5])
    nc = rng.randint(1, 5)
    cnums = rng.sample(range(1, 60), nc)
    cells = []
    for k, n in enumerate(cnums):
        mat = rng.choice(mnums) if mnums and rng.random() < 0.6 else 0
        surfs = [rng.choice([1, -1]) * rng.choice(snums) for _ in range(rng.randint(1, 3))]
        comps = [rng.choice(cnums[:k])] if k > 0 and rng.random() < 0.3 else []
        cells.append({"num": n, "mat": mat, "surfs": surfs, "comps": comps, "mods": ["imp"], "fault": None, "extra": ""})
    data = []
    for n in mnums:
        data.append({"t": "material", "num": n, "fault": None})
        if rng.random() < 0.4:
            data.append({"t": "thermal", "num": n, "fault": None})
    for n in tnums:
        data.append({"t": "transform", "num": n, "fault": None})
    data.append({"t": "mode", "fault": None})
    if rng.random() < 0.5:
        data.append({"t": "cellmod", "kind": "vol", "fault": None})
    data.append({"t": "other", "text": "nps 100", "fault": None})
    if rng.random() < 0.5:
        data.insert(rng.randrange(len(data) + 1), {"t": "other", "text": "ksrc 0 0 0", "fault": None})
    return {"cells": cells, "surfaces": surfaces, "data": data, "reader": [], "tail_reader": None, "files": {}}


# --------------------------------------------------------------------------- rendering
def render_input(block, x):
    f = x.get("fault")
    if block == "cells":
        if f and f["recipe"] == "like-but":
            return f"{x['num']} like {f['arg']} but imp:n=2"
        geom = " ".join(str(s) for s in x["surfs"]) + "".join(f" #{c}" for c in x["comps"])
        if f and f["recipe"] == "cell-fraction-surface":
            geom = geom.split(" ")[0] + ".5 " + " ".join(geom.split(" ")[1:])
        head = f"{x['num']} {x['mat']} -1.5" if x["mat"] else f"{x['num']} 0"
        params = "imp:n=1"
        if "vol" in x["mods"]:
            params += " vol=2"
        if f and f["recipe"] == "cell-repeated-param":
            params += " imp:n=2"
        if f and f["recipe"] == "cell-junk-char":
            params += " |"
        if f and f["recipe"] == "cell-negative-imp":
            params = params.replace("imp:n=1", "imp:n=-1")
        return f"{head} {geom} {params}"
    if block == "surfaces":
        num = str(x["num"])
        if f and f["recipe"] == "surface-fraction-number":
            num += ".5"
        ptr = f" {x['tr']}" if x["tr"] is not None else (f" -{x['per']}" if x["per"] is not None else "")
        typ = x["type"]
        consts = " ".join(str(c) for c in x["consts"])
        if f and f["recipe"] == "surface-bad-mnemonic":
            typ = "foo"
        if f and f["recipe"] == "surface-extra-constant":
            consts += " 1 2 3 4"
        if f and f["recipe"] == "surface-junk-char":
            consts += " @"
        return f"{num}{ptr} {typ} {consts}"
    t = x["t"]
    if t == "material":
        if f and f["recipe"] == "material-unknown-element":
            return f"m{x['num']} 999999.80c 1.0"
        if f and f["recipe"] == "material-odd-entries":
            return f"m{x['num']} 1001.80c 1.0 8016.80c"
        return f"m{x['num']} 1001.80c 1.0"
    if t == "thermal":
        return f"mt{x['num']} lwtr.23t"
    if t == "transform":
        if f and f["recipe"] == "transform-junk":
            return f"tr{x['num']} 0 0 zz"
        return f"tr{x['num']} 0 0 1"
    if t == "mode":
        return "mode n"
    if t == "cellmod":
        return {"vol": "vol 1 1 1 1 1 1 1 1", "u": "u 1 1 1 1 1 1 1 1"}[x["kind"]]
    return x["text"]


# recipe -> (site, raw class) of the exception inside obj_parser(input); decided by reading the code and validated by
# the correspondence of every run (a wrong entry shows up as a model/implementation disagreement)
RECIPES = {
    "like-but": ("parser", "UnsupportedFeature"),
    "cell-fraction-surface": ("ctor", "ValueError"),
    "cell-repeated-param": ("parser", "RedundantParameterSpecification"),
    "cell-junk-char": ("parser", "ParsingError"),
    "cell-negative-imp": ("ctor", "ValueError"),
    "surface-fraction-number": ("ctor", "ValueError"),
    "surface-bad-mnemonic": ("treeNone", "ParsingError"),
    "surface-extra-constant": ("ctor", "ValueError"),
    "surface-junk-char": ("treeNone", "ParsingError"),
    "material-unknown-element": ("ctor", "UnknownElement"),
    "material-odd-entries": ("treeNone", "ParsingError"),
    "transform-junk": ("treeNone", "ParsingError"),
}
RECIPE_BLOCK = {
    "cells": ["like-but", "cell-fraction-surface", "cell-repeated-param", "cell-junk-char", "cell-negative-imp"],
    "surfaces": ["surface-fraction-number", "surface-bad-mnemonic", "surface-extra-constant", "surface-junk-char"],
    "material": ["material-unknown-element", "material-odd-entries"],
    "transform": ["transform-junk"],
}
READER_LINES = {
    "vertical": ("#  1 2", "UnsupportedFeature"),
    "bad-read": ("read foo", "ParsingError"),
}


def render(desc):
    """-> (bundle, abstract items)"""
    lines = ["generated base file"]
    items = []
    for bi, block in enumerate(["cells", "surfaces", "data"]):
        for k, x in enumerate(desc[block]):
            for rd in desc["reader"]:
                if rd["block"] == block and rd["before"] == k:
                    lines.append(READER_LINES[rd["kind"]][0])
                    items.append({"t": "reader", "cls": READER_LINES[rd["kind"]][1]})
            lines.append(render_input(block, x))
            items.append(abstract(block, x))
        for rd in desc["reader"]:
            if rd["block"] == block and rd["before"] >= len(desc[block]):
                lines.append(READER_LINES[rd["kind"]][0])
                items.append({"t": "reader", "cls": READER_LINES[rd["kind"]][1]})
        if block == "data" and desc["tail_reader"]:
            lines.append("read file=nothere.txt")
        lines.append("")
    if desc["tail_reader"]:
        # the queue of read inputs is worked off after the main file: the missing target is met last
        items.append({"t": "reader", "cls": "FileNotFoundError"})
    return {"main": "\n".join(lines) + "\n", "files": dict(desc["files"])}, items


def abstract(block, x):
    f = x.get("fault")
    fault = None
    if f:
        site, cls = RECIPES[f["recipe"]]
        fault = {"site": site, "cls": cls}
    if block == "cells":
        return {"t": "cell", "num": x["num"], "mat": x["mat"], "surfs": [abs(s) for s in x["surfs"]], "comps": list(x["comps"]),
                "mods": [MOD_KINDS[m] for m in x["mods"] if m != "imp"], "fault": fault}
    if block == "surfaces":
        return {"t": "surface", "num": x["num"], "tr": x["tr"], "per": x["per"], "fault": fault}
    t = x["t"]
    if t in ("material", "transform", "thermal"):
        return {"t": t, "num": x["num"], "fault": fault}
    if t == "mode":
        return {"t": "mode", "fault": fault}
    if t == "cellmod":
        return {"t": "cellmod", "kind": MOD_KINDS[x["kind"]], "cant": x["kind"] != "imp", "fault": fault}
    return {"t": "other", "fault": fault}


# --------------------------------------------------------------------------- structured single corruptions
def corruptions(desc, rng):
    """every structured single corruption applicable to the description: list of (kind, new description)"""
    out = []

    def mod(kind, fn):
        d = copy.deepcopy(desc)
        if fn(d) is not False:
            out.append((kind, d))

    cells, surfaces, data = desc["cells"], desc["surfaces"], desc["data"]
    used_s = {s["num"] for s in surfaces}
    for i in range(len(cells)):
        for j in range(i):
            mod("duplicate-cell-number", lambda d, i=i, j=j: d["cells"][i].update(num=d["cells"][j]["num"]))
        for k in range(len(cells[i]["surfs"])):
            mod("dangle-surface", lambda d, i=i, k=k: d["cells"][i]["surfs"].__setitem__(k, 987))
        mod("dangle-complement", lambda d, i=i: d["cells"][i]["comps"].append(987))
        mod("dangle-material", lambda d, i=i: d["cells"][i].update(mat=987))
        mod("delete-cell", lambda d, i=i: d["cells"].pop(i))
        mod("duplicate-cell-input", lambda d, i=i: d["cells"].insert(i + 1, copy.deepcopy(d["cells"][i])))
        for r in RECIPE_BLOCK["cells"]:
            if r == "like-but" and i == 0:
                continue
            mod("fault:" + r, lambda d, i=i, r=r: d["cells"][i].update(fault={"recipe": r, "arg": d["cells"][0]["num"]}))
        if any(x["t"] == "cellmod" and x["kind"] == "vol" for x in data):
            mod("cell-data-in-both-blocks", lambda d, i=i: d["cells"][i]["mods"].append("vol"))
    for i in range(len(surfaces)):
        for j in range(i):
            mod("duplicate-surface-number", lambda d, i=i, j=j: d["surfaces"][i].update(num=d["surfaces"][j]["num"]))
        mod("delete-surface", lambda d, i=i: d["surfaces"].pop(i))
        if surfaces[i]["per"] is None:
            mod("dangle-transform", lambda d, i=i: d["surfaces"][i].update(tr=987))
        if surfaces[i]["type"] == "px" and surfaces[i]["tr"] is None:
            mod("dangle-periodic", lambda d, i=i: d["surfaces"][i].update(per=986))
        for r in RECIPE_BLOCK["surfaces"]:
            if r == "surface-extra-constant" and surfaces[i]["type"] == "so":
                continue  # the general Surface class does not count its constants
            mod("fault:" + r, lambda d, i=i, r=r: d["surfaces"][i].update(fault={"recipe": r}))
    for i, x in enumerate(data):
        mod("delete-data-input", lambda d, i=i: d["data"].pop(i))
        mod("duplicate-data-input", lambda d, i=i: d["data"].insert(i + 1, copy.deepcopy(d["data"][i])))
        for r in RECIPE_BLOCK.get(x["t"], []):
            mod("fault:" + r, lambda d, i=i, r=r: d["data"][i].update(fault={"recipe": r}))
    mod("mt-without-m", lambda d: d["data"].append({"t": "thermal", "num": 985, "fault": None}))
    mod("empty-surface-block", lambda d: d.update(surfaces=[]))
    mod("empty-data-block", lambda d: d.update(data=[]))
    mod("empty-cell-block", lambda d: d.update(cells=[]))
    for block in ("cells", "surfaces", "data"):
        for k in sorted({0, len(desc[block]) // 2, len(desc[block])}):
            for kind in READER_LINES:
                if block == "cells" and k == 0 and kind == "vertical":
                    pass
                mod("reader:" + kind, lambda d, block=block, k=k, kind=kind: d["reader"].append({"block": block, "before": k, "kind": kind}))
    mod("read-target-missing", lambda d: d.update(tail_reader=True))
    return out
