"""C13 helpers: base files, an independent line splitter, the corruption engine, the runner on the real code
(normal mode and check mode, wall-clock guarded) and the classification of the raising statement.

Nothing here imports MontePy at module level except through vlib.mp inside the functions that run the real code.
The line splitter and tokeniser are written from MCNP's rules and share nothing with MontePy's reader.
"""
import ast
import glob
import os
import re
import shutil
import signal
import sys
import tempfile
import traceback
import warnings

from .core import REPO

GUARD_S = 45.0  # wall-clock bound per read (generous: the machine may be heavily loaded)
JUNK = ["|", "@", "!", "\\", "'", "&", "#", "(", ")", ":", "=", "*", "$", "%", "?", "\t", ";", "é"]
WORDS = ["zz", "j", "2j", "1.5", "-1", "0", "987", "1e400", "like", "read", "c", "3r", "2i", "1.2.3", "+", "-", "imp:n", "u=", "*1"]


# --------------------------------------------------------------------------- independent reading of the text
def is_comment_line(line):
    """MCNP: a `c`/`C` in columns 1-5 (only blanks before it) followed by a blank or the end of the line."""
    s = line.expandtabs(8)
    i = 0
    while i < len(s) and i < 5 and s[i] == " ":
        i += 1
    if i >= 5 or i >= len(s):
        return False
    if s[i] in "cC":
        return i + 1 >= len(s) or s[i + 1] in " \n\r"
    return False


def split_file(text):
    """-> dict(message_lines, title_idx, blocks=[[ (first_line_idx, [line_idx...]) per input ] x3]) by MCNP's rules:
    optional message block closed by a blank line, a title line, then up to three blocks separated by blank lines;
    an input starts at a non-comment line with a non-blank in columns 1-5 that does not follow a line ending in `&`;
    everything after the third block is ignored."""
    lines = text.split("\n")
    if lines and lines[-1] == "":
        lines = lines[:-1]
    i = 0
    msg = []
    if lines and lines[0].upper().startswith("MESSAGE:"):
        while i < len(lines) and lines[i].strip():
            msg.append(i)
            i += 1
        i += 1
    title = i if i < len(lines) else None
    i += 1
    blocks = [[], [], []]
    b = 0
    cur = None
    cont = False
    seen_noncomment = False
    while i < len(lines) and b < 3:
        raw = lines[i]
        line = raw.expandtabs(8)
        if not line.strip():
            b += 1
            cur = None
            cont = False
            seen_noncomment = False
            i += 1
            continue
        com = is_comment_line(line)
        starts = bool(line[:5].strip()) and not com and not cont
        if cur is None or (starts and seen_noncomment):
            cur = [i, [i]]
            blocks[b].append(cur)
        else:
            cur[1].append(i)
        if not com:
            seen_noncomment = True
            body = line.split("$")[0].rstrip()
            cont = body.endswith("&")
        i += 1
    return {"lines": lines, "message": msg, "title": title, "blocks": blocks}


def input_first_word(sp, inp):
    for li in inp[1]:
        l = sp["lines"][li]
        if not is_comment_line(l):
            w = l.split("$")[0].split()
            return w[0].lower() if w else ""
    return ""


def input_has_content(sp, inp):
    return any(not is_comment_line(sp["lines"][li]) and sp["lines"][li].split("$")[0].strip() for li in inp[1])


def count_inputs(bundle, depth=0):
    """(cells, surfaces, data, mt) inputs of the bundle by the independent splitter; read cards are followed."""
    counts = [0, 0, 0, 0]
    mods_seen = set()
    ambiguous = [False]

    def add(text, start_block, top):
        # MCNP input is ASCII; MontePy reads every other character as a blank (documented: replace=True)
        text = "".join(ch if ord(ch) < 128 else " " for ch in text)
        for l in text.split("\n"):
            # `&` followed by blanks or a `$` comment, a line longer than 80 columns, a tab: how the line is cut and
            # continued is the business of C10/C11, not of this light test
            body = l.split("$")[0]
            if "&" in l or len(l.expandtabs(8)) > 80 or (body.rstrip().endswith("&") and not is_comment_line(l) and "$" in l):
                ambiguous[0] = True
        sp = split_file(text) if top else split_file("t\n" + text)
        for b in range(3):
            tb = b + start_block
            if tb > 2:
                break
            for inp in sp["blocks"][b]:
                if not input_has_content(sp, inp):
                    continue
                w = input_first_word(sp, inp)
                if w == "read":
                    body = " ".join(sp["lines"][li].split("$")[0] for li in inp[1] if not is_comment_line(sp["lines"][li]))
                    m = re.search(r"file\s*=?\s*(\S+)", body, flags=re.I)
                    if m and m.group(1) in bundle["files"] and depth < 6:
                        add(bundle["files"][m.group(1)], tb, False)
                    continue
                if tb == 2:
                    # per-cell data given by several data-block inputs of one class (imp:n ... / imp:p ...) are merged
                    m = re.fullmatch(r"\*?(imp|vol|u|lat|fill)(:.*)?", w)
                    if m:
                        if m.group(1) in mods_seen:
                            continue
                        mods_seen.add(m.group(1))
                counts[tb] += 1
                if tb == 2 and re.fullmatch(r"mt\d+", w):
                    counts[3] += 1

    add(bundle["main"], 0, True)
    return None if ambiguous[0] else counts


TOKEN_RE = re.compile(r"[^ \t]+")


def token_positions(text):
    """every word (maximal non-blank run) of every non-comment line after the title, before a `$` comment"""
    sp = split_file(text)
    out = []
    skip = set(sp["message"])
    if sp["title"] is not None:
        skip.add(sp["title"])
    for li, l in enumerate(sp["lines"]):
        if li in skip or (sp["title"] is not None and li < sp["title"]):
            continue
        if not l.strip() or is_comment_line(l):
            continue
        body = l.split("$")[0]
        for m in TOKEN_RE.finditer(body):
            out.append((li, m.start(), m.end()))
    return out


NUM_RE = re.compile(r"[+-]?\d+(\.\d*)?([eE][+-]?\d+)?$")


def token_corruptions(text, pos, rng, per_kind=1, kinds=None):
    """the single corruptions applicable at one token position: list of (kind, new_text)"""
    li, s, e = pos
    lines = text.split("\n")
    l = lines[li]
    tok = l[s:e]
    out = []

    def put(kind, newline):
        nl = list(lines)
        if newline is None:
            del nl[li]
        else:
            nl[li] = newline
        out.append((kind, "\n".join(nl)))

    put("delete-token", l[:s] + l[e:])
    put("duplicate-token", l[:e] + " " + tok + l[e:])
    for _ in range(per_kind):
        put("replace-token", l[:s] + rng.choice(WORDS) + l[e:])
        j = rng.choice(JUNK)
        where = rng.choice([s, e, (s + e) // 2])
        put("insert-junk", l[:where] + j + l[where:])
    # swap with the next word of the same line when the two are of different kind (number / word)
    rest = l[e:].split("$")[0]
    m2 = re.match(r"([ \t]+)([^ \t]+)", rest)
    if m2 and bool(NUM_RE.match(tok)) != bool(NUM_RE.match(m2.group(2))):
        put("swap-adjacent", l[:s] + m2.group(2) + m2.group(1) + tok + l[e + m2.end():])
    put("truncate-line", l[:s].rstrip() if l[:s].strip() else None)
    if e - s > 1:
        put("truncate-token", l[: s + (e - s) // 2])
    if NUM_RE.match(tok):
        put("negate-number", l[:s] + (tok[1:] if tok[0] == "-" else "-" + tok.lstrip("+")) + l[e:])
        put("zero-number", l[:s] + "0" + l[e:])
        put("fraction-number", l[:s] + (tok + "5" if "." in tok and "e" not in tok.lower() else tok.split("e")[0].split("E")[0].rstrip(".") + ".5") + l[e:])
        put("dangle-or-duplicate-number", l[:s] + rng.choice(["987", "1", "2", "99999999"]) + l[e:])
    if kinds is not None:
        out = [x for x in out if x[0] in kinds]
    return out


def block_corruptions(text):
    """drop a block / drop the blank line between blocks / duplicate an input line"""
    sp = split_file(text)
    lines = sp["lines"]
    out = []
    blanks = [i for i, l in enumerate(lines) if not l.strip() and (sp["title"] is not None and i > sp["title"])]
    for k, bi in enumerate(blanks[:3]):
        out.append(("drop-separator", "\n".join(lines[:bi] + lines[bi + 1 :]) + "\n"))
        out.append(("double-separator", "\n".join(lines[:bi] + [""] + lines[bi:]) + "\n"))
    for b in range(3):
        if sp["blocks"][b]:
            first = sp["blocks"][b][0][0]
            last = sp["blocks"][b][-1][1][-1]
            out.append((f"drop-block-{b}", "\n".join(lines[:first] + lines[last + 1 :]) + "\n"))
            out.append((f"drop-block-and-separator-{b}", "\n".join(lines[:first] + lines[last + 2 :]) + "\n"))
            for inp in sp["blocks"][b]:
                seg = [lines[i] for i in inp[1]]
                out.append(("duplicate-input", "\n".join(lines[: inp[1][-1] + 1] + seg + lines[inp[1][-1] + 1 :]) + "\n"))
                out.append(("delete-input", "\n".join(lines[: inp[1][0]] + lines[inp[1][-1] + 1 :]) + "\n"))
    if sp["title"] is not None:
        out.append(("drop-title", "\n".join(lines[: sp["title"]] + lines[sp["title"] + 1 :]) + "\n"))
    out.append(("empty-file", ""))
    out.append(("truncate-file-half", text[: len(text) // 2]))
    return out


# --------------------------------------------------------------------------- base files
def read_closure(dirname, name, acc):
    if name in acc:
        return
    p = os.path.join(dirname, name)
    if not os.path.isfile(p):
        return
    with open(p, "rb") as fh:
        txt = fh.read().decode("utf-8", errors="replace").replace("\r\n", "\n")
    acc[name] = txt
    for m in re.finditer(r"^\s{0,4}read\s+.*?file\s*=?\s*(\S+)", txt, flags=re.I | re.M):
        read_closure(dirname, m.group(1), acc)


def load_test_inputs():
    """bundles {name, main, files} for every tests/inputs/*.imcnp of the repo under test (validity decided later)"""
    d = os.path.join(REPO, "tests", "inputs")
    out = []
    for p in sorted(glob.glob(os.path.join(d, "*.imcnp"))):
        acc = {}
        name = os.path.basename(p)
        read_closure(d, name, acc)
        if name not in acc:
            continue
        main = acc.pop(name)
        out.append({"name": name, "main": main, "files": acc})
    return out


# --------------------------------------------------------------------------- running the real code
class Hang(BaseException):
    pass


def _alarm(*a):
    raise Hang()


_AST_CACHE = {}


def _raise_ranges(path):
    if path not in _AST_CACHE:
        try:
            with open(path) as fh:
                tree = ast.parse(fh.read())
            rr = [(n.lineno, n.end_lineno) for n in ast.walk(tree) if isinstance(n, ast.Raise)]
        except Exception:  # noqa: BLE001
            rr = []
        _AST_CACHE[path] = rr
    return _AST_CACHE[path]


def classify_exception(e):
    """-> dict(cls, where, func, explicit): the LAST traceback frame decides whether the raising statement is an
    explicit `raise` inside montepy/ (AST of that file and line), not the message."""
    tb = traceback.extract_tb(e.__traceback__)
    last = tb[-1] if tb else None
    mroot = os.path.join(os.path.realpath(REPO), "montepy") + os.sep
    where, func, explicit, inside = "?", "?", False, False
    if last is not None:
        fn = os.path.realpath(last.filename)
        inside = fn.startswith(mroot)
        where = os.path.relpath(fn, os.path.realpath(REPO)) if inside else "lib:" + os.path.basename(fn)
        func = last.name
        if inside:
            explicit = any(a <= last.lineno <= b for a, b in _raise_ranges(fn))
    # the innermost frame inside montepy/ (the call site that let a runtime/library exception escape)
    site = "?"
    for fr in reversed(tb):
        fn = os.path.realpath(fr.filename)
        # container look-ups and comparisons (__getitem__, __eq__, ...) are not the site: their caller is
        if fr.name.startswith("__") and fr.name.endswith("__") and fr.name != "__init__":
            continue
        if fn.startswith(mroot):
            site = os.path.relpath(fn, os.path.join(os.path.realpath(REPO), "montepy")) + ":" + fr.name
            break
    return {
        "cls": type(e).__name__,
        "mro": [c.__name__ for c in type(e).__mro__],
        "where": where,
        "func": func,
        "site": site,
        "explicit": bool(explicit),
        "msg": str(e)[:160],
    }


WARN_RE = re.compile(r"^([A-Za-z_]+): ")


def _read(path, check):
    from . import mp

    montepy = mp.montepy
    res = {}
    old = signal.signal(signal.SIGALRM, _alarm)
    try:
        with warnings.catch_warnings(record=True) as w:
            warnings.simplefilter("always")
            signal.setitimer(signal.ITIMER_REAL, GUARD_S)
            try:
                if check:
                    problem = montepy.MCNP_Problem(path)
                    problem.parse_input(check_input=True)
                else:
                    problem = montepy.read_input(path)
                signal.setitimer(signal.ITIMER_REAL, 0)
                mats = list(problem.materials)
                sem = None
                if not check:
                    try:
                        from . import c13sem

                        sem = c13sem.semantic(problem)
                    except Exception as e:  # noqa: BLE001
                        sem = {"error": type(e).__name__ + ": " + str(e)[:200]}
                write_err = None
                if not check:
                    # every problem read without an error must be writable as it is
                    try:
                        with warnings.catch_warnings():
                            warnings.simplefilter("ignore")
                            signal.setitimer(signal.ITIMER_REAL, GUARD_S)
                            problem.write_to_file(os.path.join(os.path.dirname(path), "written_back.imcnp"), overwrite=True)
                            signal.setitimer(signal.ITIMER_REAL, 0)
                    except Hang:
                        write_err = {"cls": "hang", "site": "?", "msg": "", "where": "?", "func": "?", "explicit": False, "mro": []}
                    except Exception as e:  # noqa: BLE001
                        signal.setitimer(signal.ITIMER_REAL, 0)
                        write_err = classify_exception(e)
                res = {
                    "write_err": write_err,
                    "sem": sem,
                    "out": "returns",
                    "cells": len(problem.cells),
                    "surfaces": len(problem.surfaces),
                    "data": len(problem.data_inputs),
                    "mt_attached": sum(1 for m in mats if getattr(m, "thermal_scattering", None) is not None),
                }
            except Hang:
                res = {"out": "hang"}
            except RecursionError as e:
                signal.setitimer(signal.ITIMER_REAL, 0)
                res = {"out": "raises", "exc": classify_exception(e)}
            except Exception as e:  # noqa: BLE001
                signal.setitimer(signal.ITIMER_REAL, 0)
                res = {"out": "raises", "exc": classify_exception(e)}
            finally:
                signal.setitimer(signal.ITIMER_REAL, 0)
        ws = []
        for x in w:
            m = WARN_RE.match(str(x.message))
            if m and issubclass(x.category, UserWarning) and x.category is UserWarning:
                ws.append(m.group(1))
        res["warnings"] = ws
    finally:
        signal.signal(signal.SIGALRM, old)
    return res


def run_bundle(bundle):
    """read the bundle in normal mode and in check mode -> {"normal": obs, "check": obs}"""
    d = tempfile.mkdtemp(prefix="c13_")
    try:
        p = os.path.join(d, "in.imcnp")
        with open(p, "w", encoding="utf-8", newline="") as fh:
            fh.write(bundle["main"])
        for k, v in bundle.get("files", {}).items():
            if "/" in k or k.startswith("."):
                continue
            with open(os.path.join(d, k), "w", encoding="utf-8", newline="") as fh:
                fh.write(v)
        cwd = os.getcwd()
        return {"normal": _read(p, False), "check": _read(p, True)}
    finally:
        shutil.rmtree(d, ignore_errors=True)


# --------------------------------------------------------------------------- the oracle (C13 itself)
DOCUMENTED = {"MalformedInputError", "NumberConflictError", "UnsupportedFeature", "UnknownElement"}
EXPLICIT_OK = {"ValueError", "TypeError", "FileNotFoundError"}


def deliberate(exc):
    """C13: a documented MontePy error type, or an explicit ValueError / TypeError / FileNotFoundError; in every case
    the raising statement is a `raise` inside montepy/.  One site is accepted without a `raise` statement: `open()` of
    a missing file in MCNP_InputFile.open (FileNotFoundError with the path in its message is the documented result
    for a missing file; there is nothing to add to it)."""
    mro = set(exc["mro"])
    if exc["cls"] == "FileNotFoundError" and exc["where"].endswith("input_parser/input_file.py") and exc["func"] == "open":
        return True
    if not exc["explicit"]:
        return False
    return bool(mro & DOCUMENTED) or bool(mro & EXPLICIT_OK)


def judge(bundle, obs, kind):
    """-> list of (signature, what).  The property and no more:
       normal mode : returns (and the light faithfulness test holds) or raises deliberately, within the time bound;
       check mode  : returns within the time bound, and the condition normal mode raised is among the warnings."""
    out = []
    n, c = obs["normal"], obs["check"]
    base = {"mechanism": "error-policy", "corruption": kind}
    if n["out"] == "hang" or c["out"] == "hang":
        out.append((dict(base, **{"class": "hang", "mode": "normal" if n["out"] == "hang" else "check"}), "read does not terminate within the bound"))
        return out
    if n["out"] == "raises" and not deliberate(n["exc"]):
        x = n["exc"]
        out.append(
            (
                dict(base, **{"class": "leak", "exception": x["cls"], "raised_in": x["site"]}),
                f"read_input leaks {x['cls']} ({x['msg']!r}) raised at {x['where']}:{x['func']}, not by a raise statement of MontePy",
            )
        )
    if c["out"] == "raises":
        x = c["exc"]
        if deliberate(x):
            out.append(
                (
                    dict(base, **{"class": "check-mode-raised", "exception": x["cls"], "raised_in": x["site"]}),
                    f"parse_input(check_input=True) raises {x['cls']} instead of warning and returning",
                )
            )
        elif not (n["out"] == "raises" and n["exc"]["cls"] == x["cls"] and n["exc"]["site"] == x["site"]):
            out.append(
                (
                    dict(base, **{"class": "leak", "exception": x["cls"], "raised_in": x["site"], "mode": "check"}),
                    f"parse_input(check_input=True) leaks {x['cls']} ({x['msg']!r}) raised at {x['where']}:{x['func']}",
                )
            )
    if n["out"] == "raises" and c["out"] == "returns" and deliberate(n["exc"]):
        if n["exc"]["cls"] not in c["warnings"]:
            out.append(
                (
                    dict(base, **{"class": "check-mode-silent", "exception": n["exc"]["cls"], "raised_in": n["exc"]["site"]}),
                    f"normal mode raises {n['exc']['cls']} but check mode returns without reporting it (warnings: {c['warnings']})",
                )
            )
    if n["out"] == "returns" and c["out"] == "returns" and c["warnings"]:
        out.append(
            (
                dict(base, **{"class": "normal-mode-silent", "exception": c["warnings"][0]}),
                f"check mode reports {c['warnings']} but read_input returns without raising",
            )
        )
    if n["out"] == "returns" and n.get("write_err"):
        x = n["write_err"]
        out.append(
            (
                dict(base, **{"class": "returned-problem-not-writable", "exception": x["cls"], "raised_in": x["site"]}),
                f"read_input returns without an error, but the problem it returns cannot be written unedited: write_to_file raises {x['cls']} ({x['msg']!r})",
            )
        )
    if n["out"] == "returns":
        cnt = count_inputs(bundle)
        cells, surfs, data, mt = cnt if cnt is not None else (None, None, None, None)
        got = (n["cells"], n["surfaces"], n["data"] + n["mt_attached"])
        if cnt is not None and got != (cells, surfs, data):
            out.append(
                (
                    dict(base, **{"class": "misrepresents", "what": "cells" if got[0] != cells else "surfaces" if got[1] != surfs else "data"}),
                    f"returned problem has (cells, surfaces, data inputs) = {got}; the text has {(cells, surfs, data)}",
                )
            )
    return out
