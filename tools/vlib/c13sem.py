"""C13: does a RETURNED problem denote the text it was read from?

`semantic(problem)` reads MontePy's *semantic* layer (material components, surface constants, geometry leaves,
transform vectors, mode particles, thermal laws, per-cell volumes and importances) — not the syntax tree, which is
lossless by construction and therefore cannot show an entry that the object model dropped.
`misread(den, sem)` compares it with the denotation of the same text by the independent MCNP-rules reader
(lean/MontePyVerif/Spec/File.lean through vlib.spec): every difference is a `silently-misread` verdict
(the file was accepted, no error, no warning, and the problem holds fewer / other entries than the file).
Card families without a semantic layer in MontePy (generic data inputs: the object is its tree) are not compared
here; tree fidelity is C01/C07's business.
"""
import math
import re
from fractions import Fraction

INT_RE = re.compile(r"[+-]?\d+(\.0*)?$")  # `-1.0` names surface 1 as well
KEY_RE = re.compile(r"[a-z]+$")


def _try(f):
    try:
        return f()
    except Exception as e:  # noqa: BLE001
        return f"<{type(e).__name__}>"


def _leaves(g, out):
    from montepy.surfaces.half_space import UnitHalfSpace

    if g is None:
        return out
    if isinstance(g, UnitHalfSpace):
        d = g.divider
        out.append([int(getattr(d, "number", d)), bool(g.side), bool(g.is_cell)])
        return out
    _leaves(g.left, out)
    if g.right is not None:
        _leaves(g.right, out)
    return out


def semantic(p):
    from montepy.data_inputs import material, transform, thermal_scattering, mode, volume, importance

    parts = sorted(p.mode.particles, key=str)
    cells = []
    for c in p.cells:
        cells.append(
            {
                "number": c.number,
                "material": _try(lambda: c.material.number if c.material is not None else 0),
                "density": _try(lambda: None if c.material is None else ([c.mass_density, True] if not c.is_atom_dens else [c.atom_density, False])),
                "leaves": _try(lambda: _leaves(c.geometry, [])),
                "volume": _try(lambda: c.volume if c.volume_is_set else None),
                "importance": {str(x.value).lower(): _try(lambda: c.importance[x]) for x in parts},
                "param_keys": _try(lambda: sorted(k.lower().replace(" ", "") for k in c.parameters.nodes)),
            }
        )
    surfaces = []
    for s in p.surfaces:
        surfaces.append(
            {
                "number": s.number,
                "mnemonic": _try(lambda: str(s.surface_type.value).lower()),
                "constants": _try(lambda: [float(x) for x in s.surface_constants]),
                "pointer": _try(lambda: (s.old_transform_number or None) if not s.old_periodic_surface else -s.old_periodic_surface),
                "reflecting": bool(s.is_reflecting),
                "white": bool(s.is_white_boundary),
            }
        )
    data = {}
    laws = {}
    for m in p.materials:
        data["m%d" % m.number] = {
            "kind": "material",
            "pairs": _try(lambda: [[int(k.ZAID), (k.library or "").lower(), float(v.fraction)] for k, v in m.material_components.items()]),
            "atom": _try(lambda: bool(m.is_atom_fraction)),
            "nparams": _try(lambda: len(m.parameters.nodes)),
        }
        if m.thermal_scattering is not None:
            laws["mt%d" % m.number] = _try(lambda: [str(x).lower() for x in m.thermal_scattering.thermal_scattering_laws])
    for d in p.data_inputs:
        if isinstance(d, thermal_scattering.ThermalScatteringLaw):
            laws["mt%d" % d.old_number] = _try(lambda: [str(x).lower() for x in d.thermal_scattering_laws])
        elif isinstance(d, transform.Transform):
            data["tr%d" % d.number] = {
                "kind": "transform",
                "degrees": bool(d.is_in_degrees),
                "displacement": _try(lambda: [float(x) for x in d.displacement_vector]),
                "rotation": _try(lambda: [[float(x) for x in row] for row in d.rotation_matrix] if getattr(d.rotation_matrix, "ndim", 1) == 2 else [float(x) for x in d.rotation_matrix]),
                "main_to_aux": bool(d.is_main_to_aux),
            }
        elif isinstance(d, mode.Mode):
            data["mode"] = {"kind": "mode", "particles": sorted(str(x.value).lower() for x in d.particles)}
    for k, v in laws.items():
        data[k] = {"kind": "thermal", "laws": v}
    return {"cells": cells, "surfaces": surfaces, "data": data, "mode": [str(x.value).lower() for x in parts]}


# --------------------------------------------------------------------------- comparison with the Spec's denotation
def _q(v):
    """Spec value -> Fraction | None (jump) | str (word) | '?' (not comparable: log interpolation)"""
    if v == "J":
        return None
    if isinstance(v, dict):
        if "n" in v:
            return Fraction(v["n"][0], v["n"][1])
        if "w" in v:
            return v["w"].lower()
    return "?"


def _close(a, x, rel=1e-9):
    if a == "?":
        return True
    if not isinstance(a, Fraction) or not isinstance(x, (int, float)) or isinstance(x, bool):
        return False
    if isinstance(x, float) and math.isinf(x):
        return abs(a) > Fraction(10) ** 308  # beyond the range of a double: not a question of reading
    if isinstance(x, float) and math.isnan(x):
        return False
    a = float(a)
    return abs(a - x) <= rel * max(abs(a), abs(x)) + 1e-300


def _den_leaves(words):
    """(number, side, is_cell) for every number word of a cell's geometry, by MCNP's rules: `#n` is the complement
    of cell n, `-n` the negative side of surface n"""
    out = []
    prev = None
    for w in words:
        if INT_RE.match(w):
            n = int(float(w))
            if prev == "#":
                out.append([abs(n), True, True])
            else:
                out.append([abs(n), not w.startswith("-"), False])
        elif w.startswith("#") and INT_RE.match(w[1:]):
            out.append([abs(int(float(w[1:]))), True, True])
        prev = w
    return out


def _material_pairs(entries):
    """-> (pairs [(zaid, lib, Fraction)], number of words before the first keyword, ok)"""
    vals = [_q(e) for e in entries]
    n = len(vals)
    for i, v in enumerate(vals):
        if isinstance(v, str) and v != "?" and KEY_RE.match(v):
            n = i
            break
    body = vals[:n]
    pairs = []
    for i in range(0, len(body) - 1, 2):
        z, f = body[i], body[i + 1]
        if isinstance(z, Fraction) and z.denominator == 1:
            zz, lib = int(z), ""
        elif isinstance(z, str) and re.match(r"\d+\.\w+$", z):
            zz, lib = int(z.split(".")[0]), z.split(".")[1]
        elif isinstance(z, str) and re.match(r"\d+$", z):
            zz, lib = int(z), ""
        else:
            return None, len(body), (n, len(vals))
        pairs.append((zz, lib, f))
    return pairs, len(body), (n, len(vals))


def misread(den, sem):
    """differences between what the file says (Spec) and what the returned problem holds: list of (family, where,
    detail).  Only called when read_input returned without an error."""
    out = []
    if len(den["cells"]) == len(sem["cells"]):
        for i, (x, y) in enumerate(zip(den["cells"], sem["cells"])):
            w = f"cell[{i}]#{x['number']}"
            if x["like"] or x["number"] is None:
                continue
            if x["number"] != y["number"]:
                out.append(("cell-number", w, (x["number"], y["number"])))
            if x["material"] is not None and x["material"] != y["material"]:
                out.append(("cell-material", w, (x["material"], y["material"])))
            if x["density"] is not None and isinstance(y["density"], list):
                dq = Fraction(x["density"][0], x["density"][1])
                if not _close(abs(dq), y["density"][0]) or (dq < 0) != bool(y["density"][1]):
                    out.append(("cell-density", w, (str(dq), y["density"])))
            dl = _den_leaves(x["geometry"])
            shortcut = any(w[-1:].isalpha() for w in x["geometry"])  # `1 2i 4` inside a geometry: not expanded here
            if not shortcut and isinstance(y["leaves"], list) and dl != y["leaves"]:
                out.append(("cell-geometry", w, (" ".join(x["geometry"]), y["leaves"])))
            for key, vals in x["params"]:
                k = key.lower()
                qv = [_q(v) for v in vals]
                if k == "vol" and len(qv) == 1 and isinstance(qv[0], Fraction):
                    if not _close(qv[0], y["volume"] if y["volume"] is not None else "x"):
                        out.append(("cell-volume", w, (str(qv[0]), y["volume"])))
                if k.startswith("imp:") and len(qv) == 1 and isinstance(qv[0], Fraction):
                    for part in k[4:].split(","):
                        part = part.strip()
                        if part in y["importance"] and not _close(qv[0], y["importance"][part]):
                            out.append(("cell-importance", w, (k, str(qv[0]), y["importance"][part])))
    if len(den["surfaces"]) == len(sem["surfaces"]):
        for i, (x, y) in enumerate(zip(den["surfaces"], sem["surfaces"])):
            w = f"surface[{i}]#{x['number']}"
            if x["number"] != y["number"]:
                out.append(("surface-number", w, (x["number"], y["number"])))
            if (x["mnemonic"] or "").lower() != y["mnemonic"]:
                out.append(("surface-mnemonic", w, (x["mnemonic"], y["mnemonic"])))
            if (x["modifier"] == "*") != y["reflecting"] or (x["modifier"] == "+") != y["white"]:
                out.append(("surface-modifier", w, (x["modifier"], y["reflecting"], y["white"])))
            if (x["pointer"] or None) != (y["pointer"] or None):
                out.append(("surface-pointer", w, (x["pointer"], y["pointer"])))
            cq = [_q(v) for v in x["constants"]]
            yc = y["constants"]
            if isinstance(yc, list) and (len(cq) != len(yc) or not all(_close(a, b) for a, b in zip(cq, yc))):
                out.append(("surface-constants", w, ([str(a) for a in cq], yc)))
    seen_mode = False
    for d in den["data"]:
        name = d["name"].lower()
        w = "data:" + name
        base = name.lstrip("*")
        if re.fullmatch(r"m\d+", base):
            y = sem["data"].get("m%d" % int(base[1:]))
            if y is None or not isinstance(y["pairs"], list):
                continue
            pairs, nbody, _ = _material_pairs(d["entries"])
            if pairs is None:
                continue
            if 2 * len(y["pairs"]) != nbody:
                out.append(("material-entries", w, (f"{nbody} words before the keywords", f"{len(y['pairs'])} components held")))
                continue
            for (z, lib, f), (yz, ylib, yf) in zip(pairs, y["pairs"]):
                if z != yz or lib != ylib or not _close(abs(f) if isinstance(f, Fraction) else f, abs(yf)):
                    out.append(("material-component", w, ((z, lib, str(f)), (yz, ylib, yf))))
                    break
                if isinstance(f, Fraction) and f != 0 and (f > 0) != bool(y["atom"]):
                    out.append(("material-fraction-kind", w, (str(f), y["atom"])))
                    break
        elif re.fullmatch(r"mt\d+", base):
            y = sem["data"].get("mt%d" % int(base[2:]))
            if y is None or not isinstance(y["laws"], list):
                continue
            words = [_q(v) for v in d["entries"]]
            if [str(v) for v in words] != y["laws"]:
                out.append(("thermal-laws", w, (words, y["laws"])))
        elif re.fullmatch(r"tr\d+", base):
            y = sem["data"].get("tr%d" % int(base[2:]))
            if y is None or not isinstance(y["displacement"], list):
                continue
            vals = [_q(v) for v in d["entries"]]
            # a jump stands for the default of its entry: no displacement, no rotation (identity in cosines,
            # 0/90 in degrees), main to auxiliary
            deg = name.startswith("*")
            for k, v in enumerate(vals):
                if v is None:
                    if k < 3:
                        vals[k] = Fraction(0)
                    elif k < 12:
                        diag = (k - 3) % 4 == 0
                        vals[k] = Fraction(0 if diag else 90) if deg else Fraction(1 if diag else 0)
                    else:
                        vals[k] = Fraction(1)
            if name.startswith("*") != y["degrees"]:
                out.append(("transform-degrees", w, (name, y["degrees"])))
            if len(vals) not in (3, 12, 13) and len(vals) <= 13:
                continue  # partial rotation matrices: MCNP completes them; not compared
            if len(vals) > 13:
                out.append(("transform-entries", w, (len(vals), "at most 13 can be held")))
                continue
            if not all(_close(a, b) for a, b in zip(vals[:3], y["displacement"])):
                out.append(("transform-displacement", w, ([str(v) for v in vals[:3]], y["displacement"])))
            if len(vals) >= 12 and isinstance(y["rotation"], list) and len(y["rotation"]) == 3 and all(isinstance(r, list) and len(r) == 3 for r in y["rotation"]):
                flat = [x for row in y["rotation"] for x in row]
                flat_t = [y["rotation"][r][c] for c in range(3) for r in range(3)]
                if not (all(_close(a, b) for a, b in zip(vals[3:12], flat)) or all(_close(a, b) for a, b in zip(vals[3:12], flat_t))):
                    out.append(("transform-rotation", w, ([str(v) for v in vals[3:12]], y["rotation"])))
            if len(vals) == 13 and isinstance(vals[12], Fraction) and (vals[12] > 0) != y["main_to_aux"]:
                out.append(("transform-direction", w, (str(vals[12]), y["main_to_aux"])))
        elif base == "mode" and not seen_mode:
            seen_mode = True
            y = sem["data"].get("mode")
            if y is None:
                continue
            words = sorted({str(_q(v)) for v in d["entries"]})
            if words != y["particles"]:
                out.append(("mode-particles", w, (words, y["particles"])))
        elif base == "vol" and len(den["cells"]) == len(sem["cells"]):
            vals = [_q(v) for v in d["entries"] if _q(v) != "no"]
            if len(vals) > len(sem["cells"]):
                out.append(("per-cell-entries", w, (len(vals), f"{len(sem['cells'])} cells")))
                continue
            for i, v in enumerate(vals):
                if isinstance(v, Fraction) and not _close(v, sem["cells"][i]["volume"] if sem["cells"][i]["volume"] is not None else "x"):
                    out.append(("per-cell-volume", w, (i, str(v), sem["cells"][i]["volume"])))
                    break
        elif base.startswith("imp:") and len(den["cells"]) == len(sem["cells"]):
            vals = [_q(v) for v in d["entries"]]
            if len(vals) > len(sem["cells"]):
                out.append(("per-cell-entries", w, (len(vals), f"{len(sem['cells'])} cells")))
                continue
            for part in base[4:].split(","):
                part = part.strip()
                for i, v in enumerate(vals):
                    if isinstance(v, Fraction) and part in sem["cells"][i]["importance"] and not _close(v, sem["cells"][i]["importance"][part]):
                        out.append(("per-cell-importance", w, (part, i, str(v), sem["cells"][i]["importance"][part])))
                        break
    return out


# --------------------------------------------------------------------------- dangling references, from the Spec's denotation
def den_dangling(den):
    """references of the file (as the independent reader denotes it) that point at nothing: list of (kind, where).
    cell->surface, cell->complement, cell->material, cell->universe (fill), cell->transform (trcl, fill transform),
    surface->transform, surface->periodic, MT->material"""
    out = []
    S = {s["number"] for s in den["surfaces"] if s["number"] is not None}
    C = {c["number"] for c in den["cells"] if c["number"] is not None}
    M, T = set(), set()
    U = {0}
    for d in den["data"]:
        name = d["name"].lower().lstrip("*")
        if re.fullmatch(r"m\d+", name):
            M.add(int(name[1:]))
        elif re.fullmatch(r"tr\d+", name):
            T.add(int(name[2:]))
        elif name == "u":
            for v in d["entries"]:
                q = _q(v)
                if isinstance(q, Fraction) and q.denominator == 1:
                    U.add(abs(int(q)))
    for c in den["cells"]:
        for key, vals in c["params"]:
            if key.lower() == "u" and vals:
                q = _q(vals[0])
                if isinstance(q, Fraction) and q.denominator == 1:
                    U.add(abs(int(q)))
    for i, c in enumerate(den["cells"]):
        if c["like"] or c["number"] is None:
            continue
        w = f"cell[{i}]#{c['number']}"
        if c["material"] is not None and c["material"] > 0 and c["material"] not in M:
            out.append(("cell-material", w, c["material"]))
        if not any(x[-1:].isalpha() for x in c["geometry"]):
            for n, side, is_cell in _den_leaves(c["geometry"]):
                if is_cell and n not in C:
                    out.append(("cell-complement", w, n))
                elif not is_cell and n not in S:
                    out.append(("cell-surface", w, n))
        for key, vals in c["params"]:
            k = key.lower().lstrip("*")
            qs = [_q(v) for v in vals]
            if k == "trcl" and len(qs) == 1 and isinstance(qs[0], Fraction) and qs[0].denominator == 1 and int(qs[0]) > 0:
                if int(qs[0]) not in T:
                    out.append(("cell-transform", w, int(qs[0])))
            if k == "fill" and qs and isinstance(qs[0], Fraction) and qs[0].denominator == 1 and (len(qs) == 1 or qs[1] == "("):
                if abs(int(qs[0])) not in U:
                    out.append(("cell-fill-universe", w, int(qs[0])))
                if len(qs) == 4 and qs[1] == "(" and qs[3] == ")" and isinstance(qs[2], Fraction) and qs[2].denominator == 1 and int(qs[2]) > 0 and int(qs[2]) not in T:
                    out.append(("fill-transform", w, int(qs[2])))
    for i, s in enumerate(den["surfaces"]):
        w = f"surface[{i}]#{s['number']}"
        p = s["pointer"]
        if isinstance(p, int) and p > 0 and p not in T:
            out.append(("surface-transform", w, p))
        if isinstance(p, int) and p < 0 and -p not in S:
            out.append(("surface-periodic", w, -p))
    for d in den["data"]:
        name = d["name"].lower().lstrip("*")
        if re.fullmatch(r"mt\d+", name) and int(name[2:]) not in M:
            out.append(("mt-material", "data:" + name, int(name[2:])))
    return out
