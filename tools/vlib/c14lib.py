"""Real-code side of the C14 check: problems, argument specs, the mutator table, snapshots, the
abstraction of a live problem to the `World` of lean/MontePyVerif/Model/Setter.lean.

Everything here is deterministic given the specs (JSON) stored in a case, so that a case replays.
"""

import enum
import math
import os
import re
import types
import warnings

from . import mp

montepy = mp.montepy
import numpy as np  # noqa: E402
from montepy.particle import Particle  # noqa: E402
from montepy.surfaces.surface_type import SurfaceType  # noqa: E402
from montepy.numbered_mcnp_object import Numbered_MCNP_Object  # noqa: E402
from montepy.numbered_object_collection import NumberedObjectCollection  # noqa: E402
from montepy.mcnp_object import MCNP_Object  # noqa: E402
from montepy.surfaces.half_space import HalfSpace  # noqa: E402

warnings.filterwarnings("ignore")

PARTICLES = list(Particle)
PIDX = {p: i for i, p in enumerate(PARTICLES)}
SURFTYPES = list(SurfaceType)

BASE_PROBLEM = """C14 generated problem
C cells
1 1 -10.0 -1 2 -3 imp:n=1 imp:p=1 vol=2.0 u=1
2 2 0.05 -4 2 -3 imp:n=2 imp:p=1 u=1
3 0 1 -5 imp:n=1 imp:p=0.5 fill=1 (1)
4 0 -6 7 imp:n=1 imp:p=1 lat=1 u=2 fill=1
5 0 5 imp:n=0 imp:p=0
6 0 -6 7 imp:n=1 imp:p=1 lat=1 u=3 fill=0:1 0:0 0:0 1 2
7 0 #3 8 imp:n=1 imp:p=1
{extra_cells}
C surfaces
1 CZ 1.0
2 PZ -5.0
3 PZ 5.0
4 1 C/Z 3.0 0.0 0.5
5 SO 20.0
6 PX 1.0
7 P 1 1 0 4
8 CX 2.0
{extra_surfaces}
C data
mode {mode}
m1 92235.80c 0.05 92238.80c 0.95
m2 1001.80c 2 8016.80c 1
mt2 lwtr.23t
tr1 0 0 1
tr2 1 0 0  1 0 0 0 1 0 0 0 1
"""

FIXTURES = ["test.imcnp", "test_universe.imcnp", "test_importance.imcnp"]


def problem_text(source):
    """source: {'kind': 'gen', 'extra': k, 'mode': 'n p'} | {'kind': 'fixture', 'name': ...}"""
    if source["kind"] == "fixture":
        with open(os.path.join(mp.REPO, "tests", "inputs", source["name"])) as fh:
            return fh.read()
    k = source.get("extra", 0)
    cells = ""
    surfs = ""
    for j in range(k):
        n = 10 + j
        cells += f"{n} {1 + j % 2} {'-' if j % 2 else ''}{1.5 + j} -{n} imp:n={1 + j % 3} imp:p={1 + j % 2}\n"
        surfs += f"{n} {'PY' if j % 2 else 'CY'} {2.5 + j}\n"
    return BASE_PROBLEM.format(extra_cells=cells, extra_surfaces=surfs, mode="n p")


def load(source, tmpdir):
    path = os.path.join(tmpdir, "in.imcnp")
    with open(path, "w") as fh:
        fh.write(problem_text(source))
    if source["kind"] == "fixture":
        # fixtures may `read` sibling files: parse next to them
        return montepy.read_input(os.path.join(mp.REPO, "tests", "inputs", source["name"]))
    return montepy.read_input(path)


# --------------------------------------------------------------------------- argument specs
COLLS = {"cell": "cells", "surface": "surfaces", "material": "materials", "transform": "transforms", "universe": "universes"}


class Twin:
    """one of the two problems of a case, with the free-standing objects created by its steps"""

    def __init__(self, problem):
        self.p = problem
        self.extras = {}  # key -> fresh object (same keys in both twins)

    def coll(self, kind):
        return getattr(self.p, COLLS[kind])

    def ref(self, kind, i):
        objs = list(self.coll(kind))
        return objs[i % len(objs)] if objs else None


def new_object(kind, n, key):
    if kind == "cell":
        o = montepy.Cell()
        o._number.value = n
        return o
    if kind == "surface":
        return mp.surface_from(f"{max(n, 1)} PZ {(key % 97) + 0.25}")
    if kind == "cylinder":
        return mp.surface_from(f"{max(n, 1)} CZ {(key % 97) + 0.25}")
    if kind == "material":
        return mp.data_from(f"m{max(n, 1)} 1001.80c 0.{(key % 8) + 1}")
    if kind == "transform":
        return mp.data_from(f"tr{max(n, 1)} 0 0 {(key % 9) + 0.5}")
    if kind == "universe":
        return montepy.Universe(max(n, 0))
    if kind == "halfspace":
        return +mp.surface_from(f"{max(n, 1)} PZ {(key % 97) + 0.25}")
    if kind == "law":
        return montepy.data_inputs.thermal_scattering.ThermalScatteringLaw()
    raise AssertionError(kind)


def build(tw, spec):
    """spec (JSON) -> live Python value in twin `tw`"""
    t = spec["t"]
    if t == "none":
        return None
    if t in ("bool", "int", "str"):
        return spec["v"]
    if t == "huge":
        return 10**400
    if t == "float":
        return float(spec["v"])
    if t == "nan":
        return float("nan")
    if t == "particle":
        return Particle(spec["v"])
    if t == "ref":
        return tw.ref(spec["kind"], spec["i"])
    if t == "new":
        key = spec["key"]
        if key not in tw.extras:
            tw.extras[key] = new_object(spec["kind"], spec["n"], key)
        return tw.extras[key]
    if t == "list":
        return [build(tw, s) for s in spec["v"]]
    if t == "tuple":
        return tuple(build(tw, s) for s in spec["v"])
    if t == "set":
        return set(build(tw, s) for s in spec["v"])
    if t == "ndarray":
        return np.array([float(x) for x in spec["v"]])
    if t == "coll":
        if spec.get("self"):
            return tw.coll(spec["kind"])
        cls = {"cell": montepy.cells.Cells, "material": montepy.materials.Materials, "surface": montepy.surface_collection.Surfaces}[spec["kind"]]
        objs = [build(tw, s) for s in spec["v"]]
        coll = cls(objs)
        if spec.get("dup") and len(objs) > 1:
            # members of a free-standing collection can be renumbered freely afterwards (C06-F1)
            objs[-1].number = objs[0].number
        return coll
    if t == "dict":
        return {}
    if t == "geom":
        return build_geom(tw, spec["g"])
    if t == "object":
        return object()
    if t == "enum":
        return {"SurfaceType": SurfaceType, "Lattice": montepy.data_inputs.lattice.Lattice, "Operator": montepy.geometry_operators.Operator}[spec["cls"]](spec["v"])
    raise AssertionError(t)


def build_geom(tw, t):
    """geometry tree spec -> HalfSpace, through the public operators / constructors"""
    from montepy.surfaces.half_space import UnitHalfSpace

    if "s" in t:
        d = build(tw, t["s"])
        return +d if t.get("side", True) else -d
    if "c" in t:
        return ~build(tw, t["c"])
    if "raw" in t:
        return UnitHalfSpace(build(tw, t["raw"]), bool(t["side"]), bool(t["cell"]))
    if "and" in t:
        return build_geom(tw, t["and"][0]) & build_geom(tw, t["and"][1])
    if "or" in t:
        return build_geom(tw, t["or"][0]) | build_geom(tw, t["or"][1])
    if "not" in t:
        return ~build_geom(tw, t["not"])
    raise AssertionError(t)


def geom_leaves(tw, t):
    """(is_cell flag, divider object) per leaf of a geometry tree spec, left to right"""
    if "s" in t:
        return [(False, build(tw, t["s"]))]
    if "c" in t:
        return [(True, build(tw, t["c"]))]
    if "raw" in t:
        return [(bool(t["cell"]), build(tw, t["raw"]))]
    for k in ("and", "or"):
        if k in t:
            return geom_leaves(tw, t[k][0]) + geom_leaves(tw, t[k][1])
    if "not" in t:
        return geom_leaves(tw, t["not"])
    raise AssertionError(t)


def lean_geom(tw, spec, cell):
    """Val.geom of the model: text of the tree and its leaves as the validator of `cell` looks at them"""
    from montepy.surfaces.surface import Surface

    leaves, seen = [], []
    for as_cell, d in geom_leaves(tw, spec["g"]):
        kind = "cell" if isinstance(d, montepy.Cell) else "surface" if isinstance(d, Surface) else "other"
        num = int(d) if isinstance(d, int) else int(getattr(d, "number", 0))
        parent = cell.complements if as_cell else cell.surfaces
        member = bool(d in parent) if kind != "other" else False
        oid = next((i for i, o in enumerate(seen) if o is d), len(seen))
        if oid == len(seen):
            seen.append(d)
        leaves.append({"asCell": as_cell, "kind": kind, "num": num, "member": member, "oid": oid})
    return {"geom": {"text": str(build(tw, spec)), "leaves": leaves}}


def rat(x):
    n, d = float(x).as_integer_ratio()
    return [n, d]


def lean_atom(tw, spec, enum_ctx="particle"):
    t = spec["t"]
    if t == "none":
        return "none"
    if t == "bool":
        return {"bool": {"b": spec["v"]}}
    if t == "int":
        return {"int": {"n": spec["v"]}}
    if t == "huge":
        return "hugeInt"
    if t == "float":
        return {"float": {"q": rat(float(spec["v"]))}}
    if t == "nan":
        return "nan"
    if t == "str":
        code = None
        if enum_ctx == "particle":
            try:
                code = PIDX[Particle(spec["v"].upper())]
            except ValueError:
                code = None
        elif enum_ctx == "surftype":
            try:
                code = SURFTYPES.index(SurfaceType(spec["v"]))
            except ValueError:
                code = None
        return {"str": {"code": code}}
    if t == "particle":
        return {"particle": {"p": PIDX[Particle(spec["v"])]}}
    if t in ("ref", "new"):
        o = build(tw, spec)
        if o is None:
            return "none"
        cls = type(o).__name__
        if isinstance(o, montepy.data_inputs.transform.Transform):
            flag = bool(o.hidden_transform)
        elif isinstance(o, Numbered_MCNP_Object):
            flag = t == "ref"
        else:
            flag = False
        return {"obj": {"cls": cls, "num": int(getattr(o, "number", 0) or 0), "flag": flag}}
    if t == "enum":
        return {"obj": {"cls": spec["cls"], "num": 0, "flag": True}}
    # anything else inside a list: an object of an unrelated class
    return {"obj": {"cls": t, "num": 0, "flag": False}}


def lean_val(tw, spec, enum_ctx="particle", words=False):
    t = spec["t"]
    if t in ("list", "tuple", "set"):
        return {t: {"xs": [lean_atom(tw, s, enum_ctx) for s in spec["v"]]}}
    if t == "ndarray":
        return {"ndarray": {"xs": [rat(float(x)) for x in spec["v"]]}}
    if t == "coll":
        objs = list(tw.coll(spec["kind"])) if spec.get("self") else [build(tw, s) for s in spec["v"]]
        if spec.get("dup") and len(objs) > 1:
            objs[-1].number = objs[0].number
        cls = {"cell": "Cells", "material": "Materials", "surface": "Surfaces"}[spec["kind"]]
        xs = [{"obj": {"cls": type(o).__name__, "num": int(o.number), "flag": True}} for o in objs]
        return {"coll": {"cls": cls, "xs": xs, "isSelf": bool(spec.get("self"))}}
    if t == "dict":
        return "dict"
    if t == "str" and words:
        codes = []
        for w in spec["v"].split():
            try:
                codes.append(PIDX[Particle(w.upper())])
            except ValueError:
                codes.append(None)
        return {"words": {"xs": codes}}
    return {"atom": {"a": lean_atom(tw, spec, enum_ctx)}}


# --------------------------------------------------------------------------- abstraction to Model.Setter.World
def orat(x):
    if x is None:
        return None
    x = float(x)
    if math.isnan(x) or math.isinf(x):
        return "unrepresentable"
    return rat(x)


def world(tw):
    p = tw.p
    cells = []
    for c in p.cells:
        imps = []
        for part, tree in c.importance._particle_importances.items():
            imps.append([PIDX[part], orat(tree["data"][0].value)])
        imps.sort()
        f = c.fill
        cells.append(
            {
                "number": c.number,
                "isAtomDens": bool(getattr(c, "_is_atom_dens", False)),
                "density": orat(c._density),
                "imps": imps,
                "univ": c.universe.number if c.universe is not None else 0,
                "notTruncated": bool(c._universe._not_truncated),
                "fillMulti": bool(f.multiple_universes),
                # the hidden attributes, not the getters: `Fill.universe` hides `_universe` while
                # multiple_universes is set, and the state at the raise point is what is compared
                "fillUniverse": f._universe.number if getattr(f, "_universe", None) is not None else None,
                "fillHasUniverses": getattr(f, "_universes", None) is not None,
                "fillTransform": f._transform.number if getattr(f, "_transform", None) is not None else None,
                "fillHidden": bool(f.hidden_transform),
                "geometry": str(c.geometry),
                "complements": [x.number for x in c.complements],
                "surfaces": [x.number for x in c.surfaces],
            }
        )
    surfaces = [
        {
            "number": s.number,
            "constants": [orat(x) for x in s.surface_constants],
            "reflecting": bool(s.is_reflecting),
            "white": bool(s.is_white_boundary),
        }
        for s in p.surfaces
    ]
    transforms = [
        {
            "number": t.number,
            "displacement": [orat(x) for x in t.displacement_vector],
            "rotation": [orat(x) for x in t.rotation_matrix],
        }
        for t in p.transforms
    ]
    return {
        "mode": sorted(PIDX[q] for q in p.mode.particles),
        "cells": cells,
        "surfaces": surfaces,
        "transforms": transforms,
        "universes": [u.number for u in p.universes],
        "materials": [m.number for m in p.materials],
        "version": [int(x) for x in p.mcnp_version],
    }


def world_ok(w):
    return "unrepresentable" not in repr(w)


# --------------------------------------------------------------------------- snapshots
_ADDR = re.compile(r" at 0x[0-9a-fA-F]+")
_PROPS = {}


def public_props(cls):
    if cls not in _PROPS:
        names = []
        for n in dir(cls):
            if n.startswith("_"):
                continue
            if isinstance(getattr(cls, n, None), property):
                names.append(n)
        _PROPS[cls] = names
    return _PROPS[cls]


SKIP_PROPS = {"words", "allowed_keywords", "geometry_logic_string", "input_lines", "mcnp_str"}


def canon(v, depth=2):
    if v is None or isinstance(v, (bool, int, str)):
        return v
    if isinstance(v, float):
        return repr(v)
    if isinstance(v, enum.Enum):
        return f"{type(v).__name__}.{v.name}"
    if isinstance(v, np.ndarray):
        return ["ndarray", canon(v.tolist(), depth)]
    if isinstance(v, (list, tuple)):
        return [canon(x, depth) for x in v]
    if isinstance(v, (set, frozenset)):
        return ["set"] + sorted((canon(x, depth) for x in v), key=repr)
    if isinstance(v, dict):
        return ["dict"] + sorted(([canon(k, 0), canon(x, depth)] for k, x in v.items()), key=repr)
    if isinstance(v, types.GeneratorType):
        return [canon(x, depth) for x in v]
    if isinstance(v, NumberedObjectCollection):
        return [type(v).__name__, [canon(o, 0) for o in v._objects]]
    if isinstance(v, Numbered_MCNP_Object) and depth < 2:
        return f"<{type(v).__name__} {v.number}>"
    if isinstance(v, HalfSpace):
        return "HalfSpace " + str(v)
    if isinstance(v, MCNP_Object):
        if depth > 0:
            return dump_object(v, depth - 1)
        return f"<{type(v).__name__}>"
    if isinstance(v, np.generic):
        return canon(v.item(), depth)
    return type(v).__name__ + ":" + _ADDR.sub("", str(v))[:200]


def dump_object(o, depth=1):
    out = {"__class__": type(o).__name__}
    for n in public_props(type(o)):
        if n in SKIP_PROPS:
            continue
        try:
            out[n] = canon(getattr(o, n), depth)
        except Exception as e:  # noqa: BLE001 - a getter that raises is an observation too
            out[n] = "!" + type(e).__name__
    if isinstance(o, montepy.Cell):
        imp = {}
        for part in PARTICLES:
            try:
                imp[part.name] = canon(o.importance[part])
            except Exception as e:  # noqa: BLE001
                imp[part.name] = "!" + type(e).__name__
        out["importance[]"] = imp
        out["importance.keys"] = sorted(q.name for q in o.importance)
        out["str"] = _ADDR.sub("", str(o))
    if isinstance(o, montepy.data_inputs.material.Material):
        out["components"] = sorted(
            [[str(k), repr(float(c.fraction))] for k, c in o.material_components.items()], key=repr
        )
    return out


def written(p, tmpdir):
    path = os.path.join(tmpdir, "snap.out")
    try:
        if os.path.exists(path):
            os.unlink(path)
        p.write_to_file(path)
        with open(path) as fh:
            return fh.read()
    except Exception as e:  # noqa: BLE001
        return "!" + type(e).__name__


# reads a rejected call is known to be able to change; they come out of the introspection of the public
# properties (nothing is listed by hand in dump_object) — this guard only makes sure none of them gets lost
_MUST_READ = {
    "Cell": {"complements", "surfaces", "cells_complementing_this", "geometry", "universe", "fill", "importance"},
    "Surface": {"cells", "surface_constants", "transform", "periodic_surface"},
    "Material": {"cells", "material_components", "thermal_scattering"},
    "Universe": {"cells", "number"},
}
_guarded = False


def _guard_reads():
    global _guarded
    if _guarded:
        return
    classes = {"Cell": montepy.Cell, "Surface": montepy.surfaces.surface.Surface, "Material": montepy.data_inputs.material.Material, "Universe": montepy.Universe}
    for name, want in _MUST_READ.items():
        have = set(public_props(classes[name])) - SKIP_PROPS
        if not want <= have:
            raise mp.MachineryError(f"snapshot no longer reads {sorted(want - have)} of {name}")
    _guarded = True


def snapshot(tw, tmpdir, with_write=True):
    _guard_reads()
    p = tw.p
    snap = {
        "mode": sorted(q.name for q in p.mode.particles),
        "mcnp_version": list(p.mcnp_version),
        "title": getattr(p.title, "title", None) if p.title is not None else None,
        "print_in_data_block": {k: p.print_in_data_block[k] for k in sorted(montepy.Cell._ALLOWED_KEYWORDS)},
        "allow_mcnp_volume_calc": canon(p.cells.allow_mcnp_volume_calc),
    }
    for kind, attr in COLLS.items():
        coll = getattr(p, attr)
        snap[attr] = [dump_object(o, 1) for o in coll._objects]
        snap[attr + ".keys"] = list(coll.keys())
        # by-number reads of the members AND of numbers that no member has (a rejected call must not leave a
        # ghost behind that only a look-up by number shows: seeded change C14b)
        extra_numbers = {o.number for o in tw.extras.values() if isinstance(getattr(o, "number", None), int)}
        probes = list(coll.keys()) + sorted((set(range(0, 13)) | extra_numbers) - set(coll.keys()))
        snap[attr + ".get"] = [[n, canon(coll.get(n), 0)] for n in probes]
    snap["data_inputs"] = [dump_object(o, 1) for o in p.data_inputs]
    snap["extras"] = {str(k): dump_object(o, 1) if isinstance(o, MCNP_Object) else canon(o) for k, o in sorted(tw.extras.items())}
    if with_write:
        snap["written bytes"] = written(p, tmpdir)
    return snap


def first_diff(a, b, path=""):
    """path of the first difference between two canonical dumps, or None"""
    if type(a) != type(b):
        return path or "."
    if isinstance(a, dict):
        for k in sorted(set(a) | set(b), key=str):
            if k not in a or k not in b:
                return f"{path}.{k}"
            d = first_diff(a[k], b[k], f"{path}.{k}")
            if d:
                return d
        return None
    if isinstance(a, list):
        if len(a) != len(b):
            return path + ".len"
        for i, (x, y) in enumerate(zip(a, b)):
            d = first_diff(x, y, f"{path}[{i}]")
            if d:
                return d
        return None
    return None if a == b else (path or ".")


def attr_of(path):
    """the attribute name a diff path ends in, without indices: the `changed` key of a signature"""
    if not path:
        return ""
    parts = [q for q in re.split(r"[.\[\]0-9]+", path) if q]
    if parts and parts[0] == "written bytes":
        return "written bytes"
    if parts and parts[0] == "extras":
        return "argument object"  # a free-standing object passed to the call, not (yet) part of the problem
    if len(parts) > 2 and parts[-1] == "len":
        parts = parts[:-1]  # a container attribute that grew or shrank: name the attribute, not "len"
    return ".".join(parts[:1] + parts[-1:]) if len(parts) > 1 else (parts[0] if parts else "")
