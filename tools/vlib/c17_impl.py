"""C17: executes histories ("runs") on the real MontePy code and observes them.

A *run* is a JSON object {"ops": [...], "state": bool, "text": bool}.  It is always executed from the state of an
interpreter that has just imported MontePy and done nothing else:

  * `isolated(run)`   — fork()s the calling process (which must never have executed MontePy code beyond the
                         import) and executes the run in the child; the child exits afterwards;
  * `python c17_impl.py` (this file as a script) — a genuinely fresh interpreter: reads runs (one JSON per line) from
                         stdin, executes each one in a fork of itself, prints one JSON line per run.  Used with
                         different PYTHONHASHSEED values and to validate that a fork is as good as a fresh interpreter.

Nothing here knows about the model or the oracle: it only performs the operations and records, per operation, the
outcome ("ok", an exception class name, the bytes written) and, when asked, the process-wide state afterwards.
"""

import hashlib
import json
import os
import shutil
import signal
import sys
import tempfile
import warnings

REPO = os.environ.get("VERIF_REPO", "/repo")
if REPO not in sys.path[:1]:
    sys.path.insert(0, REPO)
warnings.filterwarnings("ignore")

import montepy  # noqa: E402  (import only: no MontePy function is executed at module level)

if not os.path.realpath(montepy.__file__).startswith(os.path.realpath(REPO) + os.sep):
    raise RuntimeError(f"montepy imported from {montepy.__file__}, expected {REPO}")

CASE_TIMEOUT = 120  # seconds of wall clock for one run in a child (the machine may be heavily loaded)

# ----------------------------------------------------------------------------- rendering of modelled file systems
BAD_CELL = {
    "syntax": "7 0 -1 ) (",  # the LALR parser logs a syntax error and recovers to the end: ParsingError
    "logThenRaise": "7 0 : -1 imp:|=1",  # a syntax error is logged, then the lexer raises on '|': MalformedInputError, log kept
    "raiseOnly": "7 0 -1 imp:|=1",  # the lexer raises before any syntax error: MalformedInputError, log empty
}
BAD_READ = {
    "syntax": "read file",
}


def render_item(item):
    kind = item[0]
    if kind == "card":
        _, num, imp, vol, dangling = item[:5]
        depth = item[5] if len(item) > 5 else 0
        first = "-99" if dangling else "-1"
        if not depth:
            return f"{num} 0 {first} imp:n={imp} vol={vol}"
        # a geometry tree of `depth` levels: depth + 1 half-spaces intersected (`a b c d` is held as ((a b) c) d)
        words = [first] + ["-1"] * depth
        lines = [f"{num} 0 " + " ".join(words[:12])]
        for k in range(12, len(words), 12):
            lines.append("      " + " ".join(words[k : k + 12]))
        return "\n".join(lines) + f"\n      imp:n={imp} vol={vol}"
    if kind == "read":
        _, f, beh = item
        return f"read file=f{f}.txt" if beh == "ok" else BAD_READ[beh]
    if kind == "bad":
        return BAD_CELL[item[1]]
    raise AssertionError(item)


def render_files(files, top, directory):
    """files: [[fid, [items]]]; the file `top` is a whole problem, the others are fragments of the cell block."""
    for fid, items in files:
        path = os.path.join(directory, f"f{fid}.txt")
        lines = [render_item(it) for it in items]
        with open(path, "w") as fh:
            if fid == top:
                fh.write("modelled problem\n" + "".join(l + "\n" for l in lines) + "\n1 so 1\n\nmode n\n\n")
            else:
                fh.write("".join(l + "\n" for l in lines))
    return os.path.join(directory, f"f{top}.txt")


# ----------------------------------------------------------------------------- problems with every data-card family
RICH_CELLS = ["1 1 -1.0 -1 imp:n=1", "2 0 1 -2 imp:n=1", "3 0 2 imp:n=0"]
RICH_SURFS = ["1 so 5", "2 so 10"]
RICH_DATA = {  # one card per parser / data-input family (insertion order = default order in the file)
    "m": "m1 1001.80c 2 8016.80c 1",
    "mt": "mt1 lwtr.20t",
    "tr": "tr1 0 0 1",
    "mode": "mode n",
    "kcode": "kcode 1000 1.0 10 50",
    "ksrc": "ksrc 0 0 0",
    "si": "si1 l 1 2 3",
    "sp": "sp1 d 0.2 0.3 0.5",
    "sdef": "sdef pos=0 0 0 erg=d1",
    "f": "f4:n 1",
    "fm": "fm4 1.0",
    "fs": "fs4 -1",
    "nps": "nps 100",
    "vol": "vol 1 1 1",
}
RICH_BAD = {  # a malformed card for each parser class: the read fails inside that parser
    "cell": "3 0 2 ) (",
    "surface": "2 so 10 )",
    "read": "read file",
    "m": "m1 1001.80c 2 (",
    "mt": "mt1 (",
    "tr": "tr1 0 0 (",
    "mode": "mode (",
    "kcode": "kcode 1000 ( 1",
    "nps": "nps (",
    "sdef": "sdef pos=0 0 0 erg=",
    "f": "f4:n (1 2",
    "fm": "fm4 (1",
    "fs": "fs4 (",
}


def rich_problem(end=None, fail=None, first=None):
    """a small valid problem with one card of every data family; `first`/`end` move a card to the start/end of the
    data block; `fail` replaces the card of that family (or a cell / a surface / adds a read card) by a malformed one"""
    cells, surfs = list(RICH_CELLS), list(RICH_SURFS)
    order = list(RICH_DATA)
    if first:
        order.remove(first)
        order.insert(0, first)
    if end:
        order.remove(end)
        order.append(end)
    data = [RICH_DATA[k] for k in order]
    if fail == "cell":
        cells[2] = RICH_BAD["cell"]
    elif fail == "surface":
        surfs[1] = RICH_BAD["surface"]
    elif fail == "read":
        cells.insert(0, RICH_BAD["read"])
    elif fail:
        data[order.index(fail)] = RICH_BAD[fail]
    return "rich problem\n" + "\n".join(cells) + "\n\n" + "\n".join(surfs) + "\n\n" + "\n".join(data) + "\n\n"


def big_cell_text(n, number=1):
    """one cell card bounded by the spheres 1..n (continuation lines of ten words)"""
    words = [f"-{i}" for i in range(1, n + 1)]
    lines = [f"{number} 0 " + " ".join(words[:10])]
    for i in range(10, n, 10):
        lines.append("      " + " ".join(words[i : i + 10]))
    lines.append("      imp:n=1")
    return "\n".join(lines)


def big_problem(n):
    """a valid problem whose first cell is the inside of n nested spheres (a geometry tree of n - 1 levels), the second
    the shell up to an outer sphere, the third the rest of the world"""
    surfs = [f"{i} so {i}" for i in range(1, n + 2)]
    cells = [big_cell_text(n), f"2 0 {n} -{n + 1} imp:n=1", f"3 0 {n + 1} imp:n=0"]
    return f"problem with a cell of {n} surfaces\n" + "\n".join(cells) + "\n\n" + "\n".join(surfs) + "\n\nmode n\nnps 100\n\n"


def make_object(kind, text):
    """direct construction of one object from an Input, the way a user adds a card by hand"""
    from montepy.input_parser.mcnp_input import ReadInput
    from montepy.data_inputs import data_input, material, transform, mode, thermal_scattering, volume, importance
    from montepy.data_inputs import universe_input, lattice_input, fill

    if kind == "cell":
        return montepy.Cell(_lines_input(text, "CELL"))
    if kind == "bigcell":  # a cell with very many surfaces (described by its class and numbers only: see Runner.do)
        return montepy.Cell(_lines_input(text, "CELL"))
    if kind == "bigcellcopy":  # a free-standing cell and a deep copy of it: the copy is what is described
        import copy

        return copy.deepcopy(montepy.Cell(_lines_input(text, "CELL")))
    if kind == "surface":
        return _surf(text)
    if kind == "data":
        return _data(text)
    if kind == "datainput":  # the generic class, without the internal prefix argument
        return data_input.DataInput(_input(text, "DATA"))
    if kind == "readinput":
        from montepy.input_parser.block_type import BlockType

        return ReadInput([text], BlockType.CELL)
    classes = {
        "material": material.Material,
        "transform": transform.Transform,
        "mode": mode.Mode,
        "thermal": thermal_scattering.ThermalScatteringLaw,
        "volume": volume.Volume,
        "importance": importance.Importance,
        "universe_input": universe_input.UniverseInput,
        "lattice": lattice_input.LatticeInput,
        "fill": fill.Fill,
    }
    return classes[kind](_input(text, "DATA"))


def _shape(node, depth=0):
    """names and nesting of a syntax tree (not its values)"""
    if depth > 8:
        return "..."
    name = type(node).__name__
    if name in ("ValueNode", "str", "CommentNode"):
        return name
    nodes = getattr(node, "nodes", None)
    if isinstance(nodes, dict):
        return [name, [[str(k), _shape(v, depth + 1)] for k, v in nodes.items()]]
    if isinstance(nodes, (list, tuple)):
        return [name, [_shape(v, depth + 1) for v in nodes]]
    return name


def describe_object(obj):
    """what a freshly built object reports: class, tree shape, formatted text, and the values it exposes"""
    d = {"cls": type(obj).__name__}
    tree = getattr(obj, "_tree", None)
    if tree is not None:
        d["shape"] = _shape(tree)
        try:
            d["fmt"] = tree.format()
        except Exception as e:  # noqa: BLE001
            d["fmt"] = "raises " + type(e).__name__
    for attr in ("data", "prefix", "number", "particles", "file_name", "classifier"):
        if not hasattr(type(obj), attr):
            continue
        try:
            v = getattr(obj, attr)
            if attr == "data":
                v = [getattr(n, "value", type(n).__name__) for n in v]
            elif attr == "classifier":
                v = v.format()
            elif attr == "particles":
                v = sorted(str(x) for x in v)
            d[attr] = repr(v)
        except Exception as e:  # noqa: BLE001
            d[attr] = "raises " + type(e).__name__
    return d


# ----------------------------------------------------------------------------- free-standing objects for setter calls
def _input(text, block):
    from montepy.input_parser.mcnp_input import Input
    from montepy.input_parser.block_type import BlockType

    return Input([text], getattr(BlockType, block))


def _lines_input(text, block):
    """an Input of several lines (a card with continuation lines)"""
    from montepy.input_parser.mcnp_input import Input
    from montepy.input_parser.block_type import BlockType

    return Input(text.split("\n"), getattr(BlockType, block))


def _surf(text):
    from montepy.surfaces.surface_builder import surface_builder

    return surface_builder(_input(text, "SURFACE"))


def _data(text):
    from montepy.data_inputs.data_parser import parse_data

    return parse_data(_input(text, "DATA"))


def _cell(text="1 0 -1 imp:n=1"):
    return montepy.Cell(_input(text, "CELL"))


def _unit():
    from montepy.surfaces.half_space import UnitHalfSpace

    return UnitHalfSpace(_surf("1 PZ 0"), True, False)


def _half():
    return +_surf("1 PZ 0") & -_surf("2 PZ 5")


def _component():
    return list(_data("m1 1001.80c 1.0").material_components.values())[0]


MAKERS = {
    # name -> constructor of a fresh object (never shared between calls)
    "none": lambda: None,
    "true": lambda: True,
    "int0": lambda: 0,
    "int3": lambda: 3,
    "float": lambda: 2.5,
    "neg": lambda: -1.5,
    "str": lambda: "pz",
    "tuple": lambda: (),
    "list": lambda: [1.0, 2.0],
    "cell": _cell,
    "cell_mat": lambda: _cell("2 1 -1.5 -1 imp:n=1"),
    "surf_so": lambda: _surf("1 SO 1"),
    "surf_pz": lambda: _surf("2 PZ 0"),
    "surf_px": lambda: _surf("3 PX 1"),
    "surf_cz": lambda: _surf("4 CZ 1"),
    "surf_cx": lambda: _surf("5 CX 2"),
    "surf_c/z": lambda: _surf("6 C/Z 0 0 1"),
    "surf_p": lambda: _surf("7 P 0 0 1 0"),
    "material": lambda: _data("m1 1001.80c 1.0"),
    "thermal": lambda: _data("mt1 lwtr.20t"),
    "transform": lambda: _data("tr1 0 0 1"),
    "universe": lambda: montepy.Universe(3),
    "unit": _unit,
    "half": _half,
    "component": _component,
    "volume": lambda: _cell("1 0 -1 vol=2")._volume if hasattr(_cell("1 0 -1 vol=2"), "_volume") else None,
    "operator": lambda: __import__("montepy.geometry_operators", fromlist=["Operator"]).Operator.UNION,
    "surftype": lambda: __import__("montepy.surfaces.surface_type", fromlist=["SurfaceType"]).SurfaceType.PY,
    "lattice": lambda: __import__("montepy.data_inputs.lattice", fromlist=["Lattice"]).Lattice(1),
    "input": lambda: _input("1 0 -1", "CELL"),
}


def class_name(k):
    return f"{k.__module__}.{k.__qualname__}"


def closure_types(prop):
    """(has_setter, content of the closure variable `types` of the generated setter)"""
    fset = getattr(prop, "fset", None)
    if fset is None:
        return False, None
    names = fset.__code__.co_freevars
    for n, cell in zip(names, fset.__closure__ or ()):
        if n == "types":
            return True, cell.cell_contents
    return True, "?"


def describe_types(t):
    if t is None:
        return None
    if isinstance(t, tuple):
        return [class_name(k) for k in t]
    if isinstance(t, type):
        return [class_name(t)]
    return "?"


def find_decl(obj, prop):
    """the class in the MRO that defines `prop`, and the property object"""
    for k in type(obj).__mro__:
        if prop in k.__dict__:
            return k, k.__dict__[prop]
    return None, None


# ----------------------------------------------------------------------------- rich (oracle-only) edits on problems
def _nth(seq, i):
    seq = list(seq)
    if not seq:
        raise IndexError("empty")
    return seq[i % len(seq)]


def edit_problem(p, name, i, j, v):
    """A deterministic edit of problem p through the public API; i, j select objects, v is a small positive int."""
    from montepy.surfaces.half_space import HalfSpace

    if name == "imp":
        _nth(p.cells, i).importance.neutron = float(v)
    elif name == "imp_all":
        _nth(p.cells, i).importance.all = float(v)
    elif name == "vol":
        _nth(p.cells, i).volume = float(v)
    elif name == "cellnum":
        _nth(p.cells, i).number = 500 + v
    elif name == "surfnum":
        _nth(p.surfaces, i).number = 600 + v
    elif name == "matnum":
        _nth(p.materials, i).number = 700 + v
    elif name == "density":
        c = _nth([c for c in p.cells if c.material is not None], i)
        c.mass_density = float(v)
    elif name == "void":
        _nth(p.cells, i).material = None
    elif name == "setmat":
        c = _nth(p.cells, i)
        c.material = _nth(p.materials, j)
        c.atom_density = 0.5 * v
    elif name == "surfconst":
        s = _nth(p.surfaces, i)
        consts = list(s.surface_constants)
        consts[0] = consts[0] + v
        s.surface_constants = consts
    elif name == "reflect":
        _nth(p.surfaces, i).is_reflecting = True
    elif name == "periodic":
        s = _nth(p.surfaces, i)
        same = [t for t in p.surfaces if type(t) is type(s) and t is not s]
        s.periodic_surface = _nth(same, j)
    elif name == "periodic_any":
        s = _nth(p.surfaces, i)
        s.periodic_surface = _nth(p.surfaces, j)
    elif name == "geom_and":
        c = _nth(p.cells, i)
        c.geometry &= +_nth(p.surfaces, j)
    elif name == "geom_or":
        c = _nth(p.cells, i)
        c.geometry |= -_nth(p.surfaces, j)
    elif name == "geom_left":
        c = _nth(p.cells, i)
        g = c.geometry
        g.left = +_nth(p.surfaces, j)
    elif name == "geom_right":
        c = _nth(p.cells, i)
        g = c.geometry
        g.right = -_nth(p.surfaces, j)
    elif name == "remove_cell":
        p.cells.remove(_nth(p.cells, i))
    elif name == "clone_cell":
        import copy

        c = copy.deepcopy(_nth(p.cells, i))  # a copy of one cell: edits of the copy must not reach the problem
        c.importance.neutron = float(v + 10)
        c.volume = float(v + 20)
        c.geometry &= -_nth(c.surfaces, 0)
    elif name == "append_clone":
        import copy

        c = copy.deepcopy(_nth(p.cells, i))
        c.number = 800 + v
        p.cells.append(c)
    elif name == "universe":
        c = _nth(p.cells, i)
        c.universe = _nth(p.universes, j)
    elif name == "fraction":
        m = _nth(p.materials, i)
        comp = _nth(m.material_components.values(), j)
        comp.fraction = 0.25 * v
    elif name == "title":
        p.title = f"edited {v}"
    elif name == "mode":
        p.mode.add("p" if v % 2 else "e")
    elif name == "transform":
        t = _nth(p.transforms, i)
        d = list(t.displacement_vector)
        d[0] = d[0] + v
        t.displacement_vector = d
    elif name == "print_data":
        p.print_in_data_block["imp"] = bool(v % 2)
    elif name == "dedupe":
        p.remove_duplicate_surfaces(0.001 * v)
    elif name == "add_children":
        p.add_cell_children_to_problem()
    else:
        raise AssertionError(name)


def report(p):
    """what a problem reports without writing: a digest of str/repr of its objects and their links"""
    parts = [str(p.title.title if p.title else None), repr(sorted(str(x) for x in p.mode.particles))]
    for c in p.cells:
        parts.append(
            "C %r mat=%r surfs=%r comp=%r geom=%s imp=%s vol=%r u=%r"
            % (
                c.number,
                c.material.number if c.material else None,
                [s.number for s in c.surfaces],
                [k.number for k in c.complements],
                str(c.geometry),
                str(c.importance).replace("\n", ";") if hasattr(c, "importance") else None,
                c.volume,
                c.universe.number if c.universe else None,
            )
        )
    for s in p.surfaces:
        parts.append(
            "S %r %s %r per=%r tr=%r refl=%r"
            % (
                s.number,
                s.surface_type,
                list(s.surface_constants),
                s.periodic_surface.number if s.periodic_surface else None,
                s.transform.number if s.transform else None,
                s.is_reflecting,
            )
        )
    for m in p.materials:
        parts.append("M %r %r" % (m.number, sorted((str(k), float(c.fraction)) for k, c in m.material_components.items())))
    for t in p.transforms:
        parts.append("T %r %r" % (t.number, [float(x) for x in t.displacement_vector]))
    return hashlib.sha256("\n".join(parts).encode()).hexdigest()[:20]


# ----------------------------------------------------------------------------- the interpreter of operations
class Runner:
    def __init__(self, tmp, keep_text=False, count_parses=False):
        self.tmp = tmp
        self.keep_text = keep_text
        self.count_parses = count_parses
        self.problems = {}
        self.n = 0

    # -- helpers
    def _dir(self):
        self.n += 1
        d = os.path.join(self.tmp, f"d{self.n}")
        os.makedirs(d)
        return d

    def _problem(self, pid):
        if pid not in self.problems:
            raise _NoProblem()
        return self.problems[pid]

    def _write(self, p):
        d = self._dir()
        path = os.path.join(d, "out.imcnp")
        p.write_to_file(path)
        with open(path, "rb") as fh:
            data = fh.read()
        return data

    def _read_dir(self, slot, index):
        """the directory a problem is read from.  A `slot` names a path that is REUSED by later reads of the same slot
        (the path string is part of the history); without one the read gets a path of its own.  The directory holds
        exactly the files of this read: what an earlier read of the slot wrote there is removed."""
        d = os.path.join(self.tmp, f"slot{slot if slot is not None else 1000 + index}")
        if os.path.isdir(d):
            shutil.rmtree(d)
        os.makedirs(d)
        return d

    def _loaded(self, pid, path):
        p = montepy.read_input(path)
        self.problems[pid] = p
        # the full problem: how many cells, surfaces and data inputs it got (the bytes follow with `write`)
        return {"t": "ok", "n": [len(p.cells), len(p.surfaces), len(p.data_inputs)], "nums": [c.number for c in p.cells][:40]}

    # -- operations
    def do(self, op, index=0):
        name = op[0]
        if name == "read":  # modelled file system: [read, pid, files, top, slot?]
            pid, files, top = op[1:4]
            slot = op[4] if len(op) > 4 else None
            path = render_files(files, top, self._read_dir(slot, index))
            return self._loaded(pid, path)
        if name == "readtext":  # a problem given as text (plus side files): [readtext, pid, {name: text}, top, slot?]
            pid, texts, top = op[1:4]
            slot = op[4] if len(op) > 4 else None
            d = self._read_dir(slot, index)
            main = "f0.txt" if slot is not None else top  # within a slot every problem file has the same path string
            for fname, text in texts.items():
                with open(os.path.join(d, main if fname == top else fname), "w") as fh:
                    fh.write(text)
            return self._loaded(pid, os.path.join(d, main))
        if name == "readrich":  # [readrich, pid, {"end": k, "fail": k, "first": k, "slot": n}]
            _, pid, opts = op
            d = self._read_dir(opts.get("slot"), index)
            path = os.path.join(d, "f0.txt" if opts.get("slot") is not None else "rich.i")
            with open(path, "w") as fh:
                fh.write(rich_problem(opts.get("end"), opts.get("fail"), opts.get("first")))
            return self._loaded(pid, path)
        if name == "readbig":  # [readbig, pid, {"n": surfaces of the big cell, "slot": n}]
            _, pid, opts = op
            d = self._read_dir(opts.get("slot"), index)
            path = os.path.join(d, "f0.txt" if opts.get("slot") is not None else "big.i")
            with open(path, "w") as fh:
                fh.write(big_problem(opts["n"]))
            return self._loaded(pid, path)
        if name == "make":  # [make, kind, text]: build one object straight from an Input
            obj = make_object(op[1], op[2])
            if op[1].startswith("bigcell"):  # formatting a very deep tree is quadratic: class, number, parameters only
                desc = {"cls": type(obj).__name__, "number": repr(obj.old_number), "imp": str(obj.importance).replace("\n", ";")}
            else:
                desc = describe_object(obj)
            out = {"t": "made", "cls": desc["cls"], "sha": hashlib.sha256(json.dumps(desc, sort_keys=True, default=str).encode()).hexdigest()[:20]}
            if self.keep_text:
                out["desc"] = desc
            return out
        if name == "readfix":  # a fixture of MontePy's own test-suite, read in place
            _, pid, fname = op
            self.problems[pid] = montepy.read_input(os.path.join(REPO, "tests", "inputs", fname))
            return {"t": "ok"}
        if name in ("setImp", "setVol", "setNum", "remove"):
            p = self._problem(op[1])
            cell = list(p.cells)[op[2]]
            if name == "setImp":
                cell.importance.neutron = float(op[3])
            elif name == "setVol":
                cell.volume = float(op[3])
            elif name == "setNum":
                cell.number = op[3]
            else:
                p.cells.remove(cell)
            return {"t": "ok"}
        if name == "edit":
            _, pid, ename, i, j, v = op
            edit_problem(self._problem(pid), ename, i, j, v)
            return {"t": "ok"}
        if name == "deepcopy":
            import copy

            self.problems[op[2]] = copy.deepcopy(self._problem(op[1]))
            return {"t": "ok"}
        if name == "write":
            data = self._write(self._problem(op[1]))
            out = {"t": "written", "sha": hashlib.sha256(data).hexdigest()[:20], "len": len(data)}
            if self.keep_text or (len(op) > 2 and op[2] == "cells"):
                out["text"] = data.decode("latin-1")
            return out
        if name == "report":
            return {"t": "report", "sha": report(self._problem(op[1]))}
        if name == "setprop":  # [setprop, self maker, property, value maker]
            _, smaker, prop, vmaker = op
            with _ParseCounter(self.count_parses) as counter:
                obj = MAKERS[smaker]()
                val = MAKERS[vmaker]()
            owner, pobj = find_decl(obj, prop)
            info = {
                "self": class_name(type(obj)),
                "self_mro": [class_name(k) for k in type(obj).__mro__],
                "owner": owner.__name__ if owner else None,
                "value_mro": [class_name(k) for k in type(val).__mro__],
            }
            has, before = closure_types(pobj)
            info["declared"] = describe_types(before) if has else None
            info["parses"] = counter.n
            try:
                setattr(obj, prop, val)
                out = {"t": "accepted"}
                got = getattr(obj, prop)
                out["now"] = type(got).__name__ if not isinstance(got, (int, float, str, bool, type(None))) else repr(got)
            except Exception as e:  # noqa: BLE001
                out = {"t": "err", "v": type(e).__name__, "gate": isinstance(e, TypeError) and "must be of type" in str(e)}
            has2, after = closure_types(pobj)
            info["cell_changed"] = has and (after is not before)
            info["cell_now"] = describe_types(after) if has else None
            out["info"] = info
            return out
        if name == "inventory":  # which of the given property names exist on which maker's class
            out = {}
            for mk in sorted(MAKERS):
                obj = MAKERS[mk]()
                if isinstance(obj, (int, float, str, bool, tuple, list, type(None))):
                    continue
                for prop in op[1]:
                    owner, pobj = find_decl(obj, prop)
                    if owner is not None and isinstance(pobj, property):
                        out.setdefault(mk, []).append([prop, owner.__name__, pobj.fset is not None])
            return {"t": "inventory", "v": out}
        raise AssertionError(f"unknown op {name}")


class _NoProblem(Exception):
    pass


class _ParseCounter:
    """counts the calls of MCNP_Parser.parse while the free-standing objects of a setter call are built (only in
    correspondence runs: the model has to know how many parses precede the setter; the call itself is delegated)"""

    def __init__(self, active):
        self.active = active
        self.n = None

    def __enter__(self):
        if self.active:
            from montepy.input_parser.parser_base import MCNP_Parser

            self.n = 0
            self.cls = MCNP_Parser
            self.orig = orig = MCNP_Parser.__dict__["parse"]
            counter = self

            def parse(parser, *a, **k):
                counter.n += 1
                return orig(parser, *a, **k)

            MCNP_Parser.parse = parse
        return self

    def __exit__(self, *exc):
        if self.active:
            self.cls.parse = self.orig
        return False


def _generated_setters():
    """every generated setter of the imported package with its closure cell `types` and the cell's content now
    (called once at import, before any MontePy code has run: the content is the declared one)"""
    out = []
    seen = set()
    for modname, mod in sorted(sys.modules.items()):
        if not modname.startswith("montepy") or mod is None:
            continue
        for k in vars(mod).values():
            if isinstance(k, type) and k.__module__.startswith("montepy") and k not in seen:
                seen.add(k)
                for name, attr in vars(k).items():
                    fset = getattr(attr, "fset", None) if isinstance(attr, property) else None
                    if fset is not None and fset.__closure__ and "types" in fset.__code__.co_freevars:
                        cell = fset.__closure__[fset.__code__.co_freevars.index("types")]
                        out.append((f"{k.__name__}.{name}", cell, cell.cell_contents))
    return out


_SETTERS = _generated_setters()


def _class_snapshot():
    """the non-dunder entries of the __dict__ of every class of the imported package, as they are right after import"""
    snap = {}
    for modname, mod in sorted(sys.modules.items()):
        if not modname.startswith("montepy") or mod is None:
            continue
        for k in list(vars(mod).values()):
            if isinstance(k, type) and k.__module__.startswith("montepy") and k not in snap:
                snap[k] = {n: v for n, v in vars(k).items() if not (n.startswith("__") and n.endswith("__")) and n != "_abc_impl"}
    return snap


_CLASSES = _class_snapshot()


def class_state_changes():
    """class attributes added, removed or rebound since import (diagnostic only: names a latch, never a verdict)"""
    out = []
    for k, before in _CLASSES.items():
        now = {n: v for n, v in vars(k).items() if not (n.startswith("__") and n.endswith("__")) and n != "_abc_impl"}
        for n in sorted(set(before) | set(now)):
            if n not in now or n not in before or now[n] is not before[n]:
                out.append(f"{k.__name__}.{n}")
    return sorted(out)


def interp_snapshot():
    """settings of the INTERPRETER (not of MontePy) that every later call of the process sees.  Name -> a value that is
    cheap to take and to compare within one process.  Taken when a run starts and after every operation; only the
    names that changed are reported (with the value now when it is a plain number or string)."""
    import atexit
    import decimal
    import gc
    import locale
    import logging
    import random
    import threading

    ctx = decimal.getcontext()
    snap = {
        "sys.getrecursionlimit": sys.getrecursionlimit(),
        "sys.getswitchinterval": sys.getswitchinterval(),
        "sys.path": tuple(sys.path),
        "sys.meta_path": len(sys.meta_path),
        "sys.path_hooks": len(sys.path_hooks),
        "sys.gettrace": sys.gettrace() is not None,
        "sys.getprofile": sys.getprofile() is not None,
        "sys.excepthook": sys.excepthook is sys.__excepthook__,
        "sys.displayhook": sys.displayhook is sys.__displayhook__,
        "sys.stdout": sys.stdout is sys.__stdout__,
        "sys.tracebacklimit": getattr(sys, "tracebacklimit", None),
        "sys.dont_write_bytecode": sys.dont_write_bytecode,
        "sys.get_int_max_str_digits": sys.get_int_max_str_digits() if hasattr(sys, "get_int_max_str_digits") else None,
        "os.getcwd": os.getcwd(),
        "os.environ": hash(frozenset(os.environ.items())),
        "warnings.filters": tuple((f[0], getattr(f[1], "pattern", f[1]), f[2].__name__, getattr(f[3], "pattern", f[3]), f[4]) for f in warnings.filters),
        "warnings.showwarning": getattr(warnings.showwarning, "__module__", None) == "warnings",
        "locale.setlocale": locale.setlocale(locale.LC_ALL),
        "decimal.getcontext": (ctx.prec, ctx.rounding, ctx.Emin, ctx.Emax, ctx.capitals, ctx.clamp),
        "random.getstate": hash(random.getstate()),
        "gc.isenabled": gc.isenabled(),
        "gc.get_threshold": gc.get_threshold(),
        "threading.stack_size": threading.stack_size(),
        "threading.active_count": threading.active_count(),
        "logging.root": (logging.root.level, len(logging.root.handlers), logging.root.manager.disable),
        "tempfile.tempdir": tempfile.tempdir,
        "signal.handlers": tuple(signal.getsignal(s) in (signal.SIG_DFL, signal.SIG_IGN, signal.default_int_handler) for s in (signal.SIGINT, signal.SIGTERM, signal.SIGUSR1)),
        "atexit._ncallbacks": atexit._ncallbacks() if hasattr(atexit, "_ncallbacks") else None,
    }
    np = sys.modules.get("numpy")
    if np is not None:
        snap["numpy.geterr"] = tuple(sorted(np.geterr().items()))
        snap["numpy.get_printoptions"] = tuple(sorted((k, repr(v)) for k, v in np.get_printoptions().items()))
        st = np.random.get_state()
        snap["numpy.random.get_state"] = (st[0], hash(st[1].tobytes()), st[2], st[3], st[4])
    return snap


_INTERP0 = None  # the settings when the current run started (set by execute)


def interp_changes():
    """names of the interpreter settings that differ from what they were when the run started (`name=value` for plain
    numbers and strings)"""
    if _INTERP0 is None:
        return []
    now = interp_snapshot()
    out = []
    for k in now:
        if now[k] != _INTERP0.get(k):
            out.append(f"{k}={now[k]}" if isinstance(now[k], (int, float, str)) and not k.endswith(("environ", "getstate")) else k)
    return sorted(out)


def world_state():
    from montepy.input_parser import input_syntax_reader
    from montepy.input_parser.parser_base import MCNP_Parser

    def ids(entries):
        out = []
        for entry in list(entries):
            fname = entry[1]
            out.append(int(fname[1:-4]) if fname.startswith("f") and fname.endswith(".txt") and fname[1:-4].isdigit() else fname)
        return out

    rq = input_syntax_reader.reading_queue
    if isinstance(rq, dict):  # one queue per key: name the key by the slot of the path it mentions
        import re

        q = []
        for key, entries in rq.items():
            m = re.search(r"slot(\d+)", str(key))
            if ids(entries):
                q.append([int(m.group(1)) if m else str(key)[-30:], ids(entries)])
        q.sort(key=str)
    else:  # one queue for the process: key 0
        q = [[0, ids(rq)]] if ids(rq) else []
    latched = sorted(name for name, cell, declared in _SETTERS if cell.cell_contents is not declared)
    return {
        "queue": q,
        "log": len(MCNP_Parser.log) > 0,
        "latched": latched,
        "class_state": class_state_changes(),
        "limit": sys.getrecursionlimit(),
        "interp": interp_changes(),
    }


def execute(run, tmp=None):
    """Perform the run in THIS process.  Returns one observation per operation."""
    own = tmp is None
    if own:
        tmp = tempfile.mkdtemp(prefix="c17_")
    obs = []
    global _INTERP0
    _INTERP0 = interp_snapshot() if run.get("state") else None
    try:
        r = Runner(tmp, keep_text=bool(run.get("text")), count_parses=bool(run.get("count_parses")))
        for op in run["ops"]:
            try:
                o = r.do(op, len(obs))
            except _NoProblem:
                o = {"t": "err", "v": "NoProblem"}
            except Exception as e:  # noqa: BLE001
                o = {"t": "err", "v": type(e).__name__}
                if run.get("messages"):
                    o["msg"] = str(e)[:300]
            if run.get("state"):
                o["state"] = world_state()
            obs.append(o)
    finally:
        if own:
            shutil.rmtree(tmp, ignore_errors=True)
    return obs


def isolated(run, timeout=CASE_TIMEOUT):
    """Perform the run in a fork of this process (which must be pristine: MontePy imported, nothing executed)."""
    tmp = tempfile.mkdtemp(prefix="c17_")
    try:
        return _isolated(run, timeout, tmp)
    finally:
        shutil.rmtree(tmp, ignore_errors=True)


def _isolated(run, timeout, tmp):
    rfd, wfd = os.pipe()
    sys.stdout.flush()
    pid = os.fork()
    if pid == 0:
        code = 0
        try:
            os.close(rfd)
            signal.alarm(timeout)
            devnull = os.open(os.devnull, os.O_WRONLY)
            os.dup2(devnull, 2)  # MontePy's warnings (line expansion ...) are not observations
            warnings.simplefilter("ignore")
            try:
                out = {"obs": execute(run, tmp)}
                if run.get("fanout"):
                    # every call of the fan-out is executed in its own fork of THIS state (right after the prefix)
                    signal.alarm(0)
                    out["fan"] = [isolated({"ops": [c]}, timeout) for c in run["fanout"]]
            except BaseException as e:  # noqa: BLE001
                out = {"crash": f"{type(e).__name__}: {e}"}
            with os.fdopen(wfd, "w") as fh:
                fh.write(json.dumps(out))
        except BaseException:  # noqa: BLE001
            code = 3
        finally:
            os._exit(code)
    os.close(wfd)
    with os.fdopen(rfd) as fh:
        data = fh.read()
    _, status = os.waitpid(pid, 0)
    if not data:
        if os.WIFSIGNALED(status) and os.WTERMSIG(status) == signal.SIGALRM:
            return {"timeout": True}
        return {"crash": f"child died with status {status}"}
    return json.loads(data)


def main():
    for line in sys.stdin:
        line = line.strip()
        if not line:
            continue
        print(json.dumps(isolated(json.loads(line))), flush=True)


if __name__ == "__main__":
    main()
